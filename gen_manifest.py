#!/usr/bin/env python3
"""Regenerates MANIFEST.json from the table below (kept in one place so that it stays valid)."""
import json
claimed = {
 "C17": dict(text="Bounded model checking by symbolic execution of the real validateGlob/ValidateRefGlob/ValidatePathGlob (and the real text/scanner under them) from /repo's SSA: the pattern is L symbolic bytes; on every feasible path z3 must refute `accepted xor spec-valid` where the spec is the documented filter syntax as a register automaton turned into one SMT formula over the same bytes, plus column-range, named-character and ref=>path obligations. Holds for every byte string up to the stated length; counterexamples are replayed natively before being reported.",
             note="Trusted: z3 4.8.12 verdicts; the gosx interpreter's SSA semantics (cross-validated per run by re-executing sampled path models natively); the reference automaton of DESIGN.md Appendix A.3 (three-valued: silent on NUL, bytes >= 0x80 and CR/LF inside classes). Bounds: quick L<=3, thorough L<=4, all 256 byte values.",
             tech="symbolic execution of go/ssa + SMT (z3) against a formula oracle; bounded by pattern length", ref="§5 C17, Appendix A.3"),
 "C13": dict(text="Bounded model checking by symbolic execution of the real workflow parser (parse.go, from /repo's SSA): into every mapping of a clean skeleton workflow one entry with a fully symbolic key K (all 256^L byte strings, every L up to the bound) is injected, followed by a concrete unknown sibling. The parser's own switch statements make z3 enumerate exactly the accepted keys; on every feasible path z3 must refute `diagnostic at K's position xor (K not in the documented key set of that section, or duplicate after the section's case rule, or one of the documented key conflicts)`, and the sibling's diagnostic must survive. Two symbolic keys in the case-insensitive sections decide duplicate detection under ASCII folding; mandatory keys are removed one by one.",
             note="Trusted: z3 verdicts; gosx SSA semantics (cross-validated natively per run); the key tables of DESIGN.md Appendix B; the skeleton workflow as the set of mapping instances. Bounds: key length <= 19 quick / 24 thorough (longest accepted key: 19), one or two injected keys per mapping; ASCII-only case folding.",
             tech="symbolic execution of go/ssa + SMT (z3): symbolic mapping keys against documented key tables", ref="§5 C13, Appendix B"),
 "C03": dict(text="Bounded model checking by symbolic execution of parser + visitor + all in-process rules: a malformed placeholder is put (a) at every scalar of a skeleton that uses every key of the syntax, (b) as the value of every existing entry in four shapes, (c) under a fully symbolic key (all byte strings of length 1..19) in four shapes in every mapping, and (d) under pairs of symbolic sibling keys. The solver discovers from the parser which (key, shape) combinations are positions of the syntax; on each such path at least one diagnostic must sit on the placeholder's scalar, of kind `expression` outside the exempt positions. Positions are therefore derived from the code under test, not from a hand-written list.",
             note="Trusted: z3 verdicts; gosx semantics (native cross-validation per run); the exemption list of the property statement. Bounds: one placeholder per run, key length <= 19, sibling pairs up to length 11 quick / 19 thorough, user-chosen keys represented by two lower-case letters; YAML decoding itself is outside.",
             tech="symbolic execution of go/ssa + SMT (z3): symbolic keys discover value positions; obligation per position", ref="§5 C03"),
 "C12": dict(text="Bounded model checking: (1) WorkflowKeyAvailability is executed on a fully symbolic key string (every length 1..60, all byte values); z3 enumerates the accepted keys from the generated switch and on each path the returned context / special-function sets must equal the committed copy of GitHub's table, and be empty for every other string. (2) At every scalar position of a skeleton using every key of the syntax, each of the 12 contexts and 5 special functions is written with a symbolic letter case (all 2^n spellings in one path) in 5 / 4 embeddings through the real lexer, parser, semantic checker and rule; `not allowed here` must be reported iff the table row of the longest matching workflow-key prefix of that position does not list the name.",
             note="Trusted: z3 verdicts; gosx semantics; spec/availability_table.md (copied from the documentation snapshot) and the position-to-key rule `longest table key that prefixes the generalised syntax path`. `jobs` outside workflow_call outputs is reported as undefined variable (accepted as a report). deprecated-commands rule is excluded (regexp on symbolic text).",
             tech="symbolic execution of go/ssa + SMT (z3): symbolic table key; symbolic letter case at every syntax position", ref="§5 C12, Appendix C"),
 "C01": dict(text="Bounded model checking of the no-panic / termination claim for everything behind the YAML library: the real lexer+parser+semantic checker on every byte string up to the bound, the glob validators on every byte string, each of the 19 scalar/section decoders of parse.go on one arbitrary YAML node (symbolic kind, tag text, style, value bytes, children), the whole parser with one arbitrary node substituted at every position of a full skeleton workflow, and the snippet renderer with 64-bit symbolic line/column against arbitrary source bytes. Every Go runtime panic site and every explicit panic on a feasible path is a violation (the solver supplies the input), an exceeded instruction budget is a candidate hang.",
             note="Trusted: z3 verdicts; gosx semantics (native cross-validation per run); contract stubs for strconv.ParseFloat (special forms exact), runewidth, regexp on symbolic text. Outside: bytes->yaml.Node, reflection-driven decoding of the other three input channels, exit status. Bounds: expression/glob length <= 3 quick / 4 thorough; node value <= 3 bytes; one injected node.",
             tech="symbolic execution of go/ssa + SMT (z3): all panic sites as obligations, instruction budget as unwinding check", ref="§5 C01"),
 "C04": dict(text="Bounded model checking at token level: the real ExprParser runs on a stub lexer handing out N tokens of symbolic kind (20 kinds) and END; on every feasible path z3 must refute `accepted xor D[Or][0][N]` where D is the bounded CYK table of the documented grammar (Appendix A.2) built as circuit-style terms over the same symbolic kinds - on reject paths the kinds after the error are unconstrained, so the solver proves that no completion is a sentence. Accepted trees are compared with a reference precedence parser modulo re-association within one level; the error offset lies within the input. Native replay renders the kinds to source text and goes through the real lexer.",
             note="Trusted: z3 verdicts; gosx semantics; the grammar of Appendix A.2; the stub lexer contract (token text depends on kind only; kind names stubbed). Byte-level lexing (numbers, strings, identifiers, whitespace) is not part of this check yet. Bounds: N <= 5 quick / 6 thorough.",
             tech="symbolic execution of go/ssa + SMT (z3): symbolic token kinds against a bounded CYK formula", ref="§5 C04, Appendix A.2"),
}
pending_reason = "check under construction in this session: no registered command yet"
na = {}
ids = ["C%02d" % i for i in range(1, 21)]
checks = []
for i in ids:
    if i in claimed:
        c = claimed[i]
        checks.append({
            "property_id": i,
            "quick_cmd": f"./run_check.sh {i} quick",
            "thorough_cmd": f"./run_check.sh {i} thorough",
            "evidence_file": f"/verif/evidence/{i}.json",
            "replay_cmd_template": "./bin/vcheck replay {path}",
            "engine": "gosx",
            "level_claimed": {"category": "model_checking", "text": c["text"], "design_ref": c["ref"]},
            "level_note": c["note"],
            "technique": c["tech"],
        })
m = {
 "version": 1,
 "setup_cmd": "cd /verif/gosx && GOFLAGS=-mod=mod GOPROXY=off GOSUMDB=off GOTOOLCHAIN=local go build -o /verif/bin/vcheck ./cmd/vcheck",
 "hooks": {
  "guard": "verif",
  "enable": "no hook commits in /repo: harness files (//go:build verif) are injected in-package through go/packages' Overlay as /repo/zz_verif_*.go on every run; native replay uses `go test -tags 'verif verif_replay' -overlay`",
  "baseline_off_cmd": "python3 /verif/baseline_check.py",
  "source_commits": [],
  "add_only": True,
 },
 "engines": [{"name": "gosx", "path": "/verif/gosx", "serves_properties": sorted(claimed), "kind_free_text": "symbolic interpreter for go/ssa (fork of x/tools go/ssa/interp) + z3 over one pipe per worker; oracles are circuit-style Go reference functions executed by the same engine into SMT formulas; native replay of every counterexample"}],
 "checks": checks,
 "not_applicable": [{"property_id": i, "reason": na.get(i, pending_reason)} for i in ids if i not in claimed],
 "notes": "exit codes of every check: 0 = held on everything explored (KNOWN-FINDING lines possible), 1 = VIOLATION reproduced natively, 2 = engine could not decide (inconclusive/vacuous/build failure) — never accompanied by a VIOLATION line",
}
json.dump(m, open('/verif/MANIFEST.json', 'w'), indent=1)
print("claimed:", sorted(claimed))
