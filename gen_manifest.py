#!/usr/bin/env python3
"""Regenerates MANIFEST.json from the table below (kept in one place so that it stays valid)."""
import json
claimed = {
 "C17": dict(text="Bounded model checking by symbolic execution of the real validateGlob/ValidateRefGlob/ValidatePathGlob (and the real text/scanner under them) from /repo's SSA: the pattern is L symbolic bytes; on every feasible path z3 must refute `accepted xor spec-valid` where the spec is the documented filter syntax as a register automaton turned into one SMT formula over the same bytes, plus column-range, named-character and ref=>path obligations. Holds for every byte string up to the stated length; counterexamples are replayed natively before being reported.",
             note="Trusted: z3 4.8.12 verdicts; the gosx interpreter's SSA semantics (cross-validated per run by re-executing sampled path models natively); the reference automaton of DESIGN.md Appendix A.3 (three-valued: silent on NUL, bytes >= 0x80 and CR/LF inside classes). Bounds: quick L<=3, thorough L<=4, all 256 byte values.",
             tech="symbolic execution of go/ssa + SMT (z3) against a formula oracle; bounded by pattern length", ref="§5 C17, Appendix A.3"),
}
pending_reason = "check under construction in this session: no registered command yet"
na = {}
ids = ["C%02d" % i for i in range(1, 21)]
checks = []
for i in ids:
    if i in claimed:
        c = claimed[i]
        checks.append({
            "property_id": i,
            "quick_cmd": f"./run_check.sh {i} quick",
            "thorough_cmd": f"./run_check.sh {i} thorough",
            "evidence_file": f"/verif/evidence/{i}.json",
            "replay_cmd_template": "./bin/vcheck replay {path}",
            "engine": "gosx",
            "level_claimed": {"category": "model_checking", "text": c["text"], "design_ref": c["ref"]},
            "level_note": c["note"],
            "technique": c["tech"],
        })
m = {
 "version": 1,
 "setup_cmd": "cd /verif/gosx && GOFLAGS=-mod=mod GOPROXY=off GOSUMDB=off GOTOOLCHAIN=local go build -o /verif/bin/vcheck ./cmd/vcheck",
 "hooks": {
  "guard": "verif",
  "enable": "no hook commits in /repo: harness files (//go:build verif) are injected in-package through go/packages' Overlay as /repo/zz_verif_*.go on every run; native replay uses `go test -tags 'verif verif_replay' -overlay`",
  "baseline_off_cmd": "python3 /verif/baseline_check.py",
  "source_commits": [],
  "add_only": True,
 },
 "engines": [{"name": "gosx", "path": "/verif/gosx", "serves_properties": sorted(claimed), "kind_free_text": "symbolic interpreter for go/ssa (fork of x/tools go/ssa/interp) + z3 over one pipe per worker; oracles are circuit-style Go reference functions executed by the same engine into SMT formulas; native replay of every counterexample"}],
 "checks": checks,
 "not_applicable": [{"property_id": i, "reason": na.get(i, pending_reason)} for i in ids if i not in claimed],
 "notes": "exit codes of every check: 0 = held on everything explored (KNOWN-FINDING lines possible), 1 = VIOLATION reproduced natively, 2 = engine could not decide (inconclusive/vacuous/build failure) — never accompanied by a VIOLATION line",
}
json.dump(m, open('/verif/MANIFEST.json', 'w'), indent=1)
print("claimed:", sorted(claimed))
