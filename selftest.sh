#!/bin/sh
# Translator validation: repo test inputs through gosx (concrete) and the native build; digests must agree.
export GOFLAGS=-mod=mod GOPROXY=off GOSUMDB=off GOTOOLCHAIN=local
cd "$(dirname "$0")/gosx" && go build -o ../bin/vcheck ./cmd/vcheck && cd .. && exec bin/vcheck selftest
