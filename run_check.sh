#!/bin/sh
# usage: run_check.sh <property id> <quick|thorough>
# Rebuilds nothing of /repo ahead of time: vcheck loads /repo's current working
# tree (go/packages + go/ssa) on every run.
export GOFLAGS=-mod=mod GOPROXY=off GOSUMDB=off GOTOOLCHAIN=local
cd /verif || exit 2
if [ ! -x /verif/bin/vcheck ] || [ -n "$(find /verif/gosx -newer /verif/bin/vcheck -name '*.go' 2>/dev/null | head -1)" ]; then
  (cd /verif/gosx && go build -o /verif/bin/vcheck ./cmd/vcheck) || exit 2
fi
exec /verif/bin/vcheck run --tier "${2:-quick}" "$1"
