#!/bin/sh
# usage: run_check.sh <property id> <quick|thorough>
# Rebuilds nothing of /repo ahead of time: vcheck loads /repo's current working
# tree (go/packages + go/ssa) on every run.
# A wall-clock limit (quick 40 min, thorough 3 h; VERIF_TIMEOUT overrides, seconds) turns a run
# that does not finish — a changed tree can multiply the paths of a harness — into exit 2.
export GOFLAGS=-mod=mod GOPROXY=off GOSUMDB=off GOTOOLCHAIN=local
cd /verif || exit 2
if [ ! -x /verif/bin/vcheck ] || [ -n "$(find /verif/gosx -newer /verif/bin/vcheck -name '*.go' 2>/dev/null | head -1)" ]; then
  (cd /verif/gosx && go build -o /verif/bin/vcheck ./cmd/vcheck) || exit 2
fi
tier="${2:-quick}"
limit=2400
[ "$tier" = thorough ] && limit=10800
timeout -k 10 "${VERIF_TIMEOUT:-$limit}" /verif/bin/vcheck run --tier "$tier" "$1"
rc=$?
if [ $rc -eq 124 ] || [ $rc -eq 137 ]; then
  echo "INCONCLUSIVE: $1 $tier did not finish within the wall-clock limit (no verdict)"
  exit 2
fi
exit $rc
