#!/bin/sh
# usage: run_benign.sh <name> [tier]
# Applies /verif/benign/<name>/patch.diff (a change that keeps the property) to the repository's
# working tree, runs the property's check, prints its verdict (expected: exit 0), restores the tree.
name=$1; tier=${2:-quick}
d=/verif/benign/$name
prop=$(python3 -c "import json;print(json.load(open('$d/meta.json'))['property'])")
repo=${VERIF_REPO:-/repo}
cd $repo || exit 2
if [ -n "$(git status --porcelain --untracked-files=no)" ]; then echo "$repo has uncommitted changes"; exit 2; fi
git apply "$d/patch.diff" || { echo "patch does not apply"; exit 2; }
/verif/run_check.sh "$prop" "$tier" > /tmp/benign_$name.log 2>&1
rc=$?
git checkout -- .
echo "benign=$name property=$prop tier=$tier exit=$rc $(grep -a '^VIOLATION\|^INCONCLUSIVE\|ENGINE' /tmp/benign_$name.log | head -2 | cut -c1-200 | tr '\n' ' ')"
exit 0
