//go:build verif

package actionlint

import "gopkg.in/yaml.v3"

const verifBadExpr = "${{ ]] }}"

// verifShape builds a value of the given shape around one scalar.
func verifShape(shape int, s *yaml.Node) *yaml.Node {
	switch shape {
	case 0:
		return s
	case 1:
		return ySeq(s)
	case 2:
		return yMap(yScalar("x"), s)
	default:
		return ySeq(yMap(yScalar("x"), s))
	}
}

func verifSubtreeLines(n *yaml.Node) (lo, hi int) {
	lo, hi = n.Line, n.Line
	for _, c := range n.Content {
		_, h := verifSubtreeLines(c)
		if h > hi {
			hi = h
		}
	}
	return
}

// verifExempt: positions that are not expression templates by the statement:
// event names, input `type`, `permissions` values, `secrets: inherit`.
func verifExempt(ctx verifCtx, key string) bool {
	switch ctx {
	case cxPerms:
		return true
	case cxDispatchInput, cxCallInput:
		return key == "type"
	case cxWorkflow:
		return key == "on" || key == "permissions"
	case cxJob:
		return key == "secrets" || key == "permissions"
	}
	return false
}

func verifCheckPlaceholder(errs []*Error, s *yaml.Node, exempt bool) {
	any, expr := 0, 0
	for _, e := range errs {
		if e.Line == s.Line && e.Column >= s.Column {
			any++
			if e.Kind == "expression" {
				expr++
			}
		}
	}
	verifCheck(any >= 1, "placeholder-silently-skipped")
	if !exempt {
		verifCheck(expr >= 1, "placeholder-not-checked-as-expression")
	}
}

// HarnessC03Skeleton: every scalar value of the clean skeleton, replaced in
// turn by a malformed placeholder, must be diagnosed at that scalar.
func HarnessC03Skeleton() {
	doc, sites := verifFullSkeletonSites()
	site := sites.scalars[verifChoose("scalar", len(sites.scalars))]
	// the placeholder is written plain, in single quotes or in double quotes
	site.node.Tag, site.node.Style = "!!str", []yaml.Style{0, yaml.SingleQuotedStyle, yaml.DoubleQuotedStyle}[verifChoose("style", 3)]
	// the placeholder is the whole value, or has text before and after it, or follows a well-formed one
	emb := verifChoose("embedded", 3)
	site.node.Value = []string{verifBadExpr, "x " + verifBadExpr + " y", "${{ 1 }} " + verifBadExpr}[emb]
	verifPlace(doc, 1, 0)
	errs := verifLintNode(doc, verifRules())
	verifReach("site")
	// with text around it the value is not a number / boolean any more: those positions report that instead
	verifCheckPlaceholder(errs, site.node, emb != 0 || verifExempt(site.ctx, site.key))
	// a rejected placeholder yields exactly one expression diagnostic (C04), not several copies of it
	expr := 0
	for _, e := range errs {
		if e.Line == site.node.Line && e.Kind == "expression" {
			expr++
		}
	}
	verifCheck(expr <= 1, "rejected-placeholder-diagnosed-more-than-once")
}

// HarnessC03Replace: the value of every existing entry of every mapping of the
// skeleton is replaced in turn by a malformed placeholder in one of four shapes.
func HarnessC03Replace(shape int) { verifC03Replace(shape, false) }

// HarnessC03ReplaceFull: the same on the skeleton that uses every key, with the
// entry moved one place up or down in its mapping (the parser handles some
// keys in the order they are written).
func HarnessC03ReplaceFull(shape int) { verifC03Replace(shape, true) }

func verifC03Replace(shape int, full bool) {
	doc, sites := verifSkeletonSites()
	if full {
		doc, sites = verifFullSkeletonSites()
	}
	site := sites.maps[verifChoose("mapping", len(sites.maps))]
	m := site.node
	e := verifChoose("entry", len(m.Content)/2)
	s := yScalar(verifBadExpr)
	key := m.Content[2*e].Value
	m.Content[2*e+1] = verifShape(shape, s)
	if full {
		n := len(m.Content) / 2
		swap := func(a, b int) {
			m.Content[2*a], m.Content[2*b] = m.Content[2*b], m.Content[2*a]
			m.Content[2*a+1], m.Content[2*b+1] = m.Content[2*b+1], m.Content[2*a+1]
		}
		switch verifChoose("move", 3) {
		case 1:
			if e == 0 {
				return
			}
			swap(e, e-1)
		case 2:
			if e+1 >= n {
				return
			}
			swap(e, e+1)
		}
	}
	verifPlace(doc, 1, 0)
	w, perrs := verifParseOnly(doc)
	if len(perrs) > 0 {
		verifReach("rejected-by-parser")
		return
	}
	errs := verifVisit(w, perrs, verifRules())
	verifReach("accepted-position")
	verifCheckPlaceholder(errs, s, verifExempt(site.ctx, key))
}

// HarnessC03Key: a symbolic key K (length chosen in 1..maxLen) with a malformed
// placeholder in one of four value shapes is appended to a mapping of the
// skeleton. Wherever the parser accepts key and shape (no syntax diagnostic at
// all), the placeholder must be diagnosed as an expression. With pair, a second
// symbolic key with a benign value of the same shape follows (sibling
// configurations such as ports together with volumes).
func HarnessC03Key(maxLen int, shape int, pair bool) {
	doc, sites := verifSkeletonSites()
	site := sites.maps[verifChoose("mapping", len(sites.maps))]
	m := site.node
	_, fixedCtx := verifFixedKeys(site.ctx)
	klen := 2
	if fixedCtx {
		klen = 1 + verifChoose("klen", maxLen)
	}
	K := verifSymString("key", klen)
	if !fixedCtx {
		// user-chosen keys: the spelling is irrelevant here; one representative length
		for i := 0; i < klen; i++ {
			verifAssumeNote(verifAnd('a' <= K[i], K[i] <= 'z'), "C03: user-chosen keys (env/with/ids/...) are two lower-case letters")
		}
	}
	verifAssume(verifNot(verifPresent(m, K, verifCaseInsensitive(site.ctx), len(m.Content))))
	s := yScalar(verifBadExpr)
	kn, vn := yScalar(K), verifShape(shape, s)
	if !pair {
		// sibling configurations: one existing entry may be absent, and the new entry
		// may come first (checks that depend on a sibling or on the key order)
		if drop := verifChoose("drop", len(m.Content)/2+1); drop > 0 {
			d := 2 * (drop - 1)
			m.Content = append(append([]*yaml.Node{}, m.Content[:d]...), m.Content[d+2:]...)
		}
		if verifChoose("first", 2) == 1 {
			m.Content = append([]*yaml.Node{kn, vn}, m.Content...)
		} else {
			m.Content = append(m.Content, kn, vn)
		}
	} else {
		m.Content = append(m.Content, kn, vn)
	}
	if pair {
		k2len := 2
		if fixedCtx {
			k2len = 1 + verifChoose("k2len", maxLen)
		}
		K2 := verifSymString("key2", k2len)
		if !fixedCtx {
			for i := 0; i < k2len; i++ {
				verifAssume(verifAnd('a' <= K2[i], K2[i] <= 'z'))
			}
		}
		if klen == k2len {
			verifAssume(K != K2)
		}
		verifAssume(verifNot(verifPresent(m, K2, verifCaseInsensitive(site.ctx), len(m.Content)-2)))
		before := verifChoose("sibling-first", 2) == 1
		k2n, v2n := yScalar(K2), verifShape(shape, yScalar("x"))
		if before {
			m.Content = append(m.Content[:len(m.Content)-2], k2n, v2n, kn, vn)
		} else {
			m.Content = append(m.Content, k2n, v2n)
		}
	}
	verifPlace(doc, 1, 0)
	// the mutated workflow must still be well-formed apart from the placeholder:
	// any syntax diagnostic means key or shape is not a position of the syntax
	w, perrs := verifParseOnly(doc)
	if len(perrs) > 0 {
		verifReach("rejected-by-parser")
		return
	}
	errs := verifVisit(w, perrs, verifRules())
	verifReach("accepted-position")
	keyStr := ""
	if fixedCtx {
		keyStr = verifStringOf(K) // pinned by the parser's switch on this path
	}
	verifCheckPlaceholder(errs, s, verifExempt(site.ctx, keyStr))
}

// HarnessC03Tagged: the malformed placeholder carries an explicit YAML tag
// (!!bool, !!int, !!float, !!null, !!str) at every scalar position of the full skeleton.
func HarnessC03Tagged() {
	doc, sites := verifFullSkeletonSites()
	site := sites.scalars[verifChoose("scalar", len(sites.scalars))]
	tag := []string{"!!bool", "!!int", "!!float", "!!str"}[verifChoose("tag", 4)]
	site.node.Tag, site.node.Style = tag, 0
	site.node.Value = verifBadExpr
	verifPlace(doc, 1, 0)
	errs := verifLintNode(doc, verifRules())
	verifReach("site")
	any := 0
	for _, e := range errs {
		if e.Line == site.node.Line && e.Column >= site.node.Column {
			any++
		}
	}
	verifCheckf(any >= 1, "placeholder-silently-skipped", site.path+" "+tag)
}

// HarnessC03ActionInputs: every `with:` input of an action step, for an
// ordinary action, for actions/github-script (whose `script` input is treated
// specially) and for a Docker action (whose `args` / `entrypoint` are).
func HarnessC03ActionInputs() {
	s := yScalar
	uses := []string{"actions/checkout@v4", "actions/github-script@v7", "docker://alpine:3", "owner/unknown-action@v1"}[verifChoose("uses", 4)]
	keys := []string{"script", "result-encoding", "ref", "args", "entrypoint", "anything"}
	k := verifChoose("input", len(keys))
	bad := s(verifBadExpr)
	with := []*yaml.Node{}
	for j, key := range keys {
		if j == k {
			with = append(with, s(key), bad)
		} else {
			with = append(with, s(key), s("v"))
		}
	}
	doc := yDoc(yMap(s("on"), s("push"), s("jobs"), yMap(s("j"), yMap(s("runs-on"), s("ubuntu-latest"), s("steps"), ySeq(yMap(s("uses"), s(uses), s("with"), yMap(with...)))))))
	verifPlace(doc, 1, 0)
	errs := verifLintNode(doc, verifRules())
	verifReach("site")
	verifCheckPlaceholder(errs, bad, false)
}

// HarnessC03Testdata: the sweep of HarnessC03Skeleton over the repository's own
// example workflows (every YAML file under testdata/ok, testdata/err and
// testdata/examples of the current tree that lints clean with the in-process
// rules; compiled in at run time), chunk c of n: every scalar value, replaced in
// turn by a malformed placeholder, is diagnosed at that scalar.
func HarnessC03Testdata(c, n int) {
	var mine []int
	for k := c; k < len(verifCorpusFiles); k += n {
		mine = append(mine, k)
	}
	if len(mine) == 0 {
		verifReach("site")
		return
	}
	src := verifCorpusFiles[mine[verifChoose("file", len(mine))]]
	base := verifLintNode(verifParseYAML(src), verifRules())
	if len(base) > 0 {
		verifReach("not-clean")
		return
	}
	doc, sites := verifSkeletonSitesOf(src)
	if len(sites.scalars) == 0 {
		verifReach("site")
		return
	}
	site := sites.scalars[verifChoose("scalar", len(sites.scalars))]
	if site.node.Tag == "!!null" {
		// `workflow_dispatch:` and the like: an absent section, not a scalar value of the syntax
		verifReach("null-site")
		return
	}
	site.node.Tag, site.node.Style = "!!str", 0
	site.node.Value = verifBadExpr
	errs := verifLintNode(doc, verifRules())
	verifReach("site")
	verifCheckPlaceholder(errs, site.node, verifExempt(site.ctx, site.key))
}

// HarnessC03CallInputs: the with: values of a call of a local reusable workflow
// whose interface is known, for inputs declared with each type (string,
// number, boolean, no type = any) and for an undeclared one: a malformed
// placeholder as the value is diagnosed at that value.
func HarnessC03CallInputs() {
	proj := &Project{root: "/r"}
	cache := NewLocalReusableWorkflowCache(proj, "/r", nil)
	cache.cache["./.github/workflows/callee.yml"] = &ReusableWorkflowMetadata{
		Inputs: ReusableWorkflowMetadataInputs{
			"str":    {Name: "str", Type: StringType{}},
			"num":    {Name: "num", Type: NumberType{}},
			"flag":   {Name: "flag", Type: BoolType{}},
			"flavor": {Name: "flavor", Type: AnyType{}},
		},
		Secrets: ReusableWorkflowMetadataSecrets{"tok": {Name: "tok"}},
		Outputs: ReusableWorkflowMetadataOutputs{},
	}
	keys := []string{"str", "num", "flag", "flavor", "undeclared"}
	k := verifChoose("input", len(keys)+1)
	s := yScalar
	bad := s([]string{verifBadExpr, "x " + verifBadExpr + " y"}[verifChoose("embedded", 2)])
	var with []*yaml.Node
	for i, key := range keys {
		v := s("1")
		if i == k {
			v = bad
		}
		with = append(with, s(key), v)
	}
	secret := s("v")
	if k == len(keys) {
		secret = bad
	}
	doc := yDoc(yMap(s("on"), s("push"), s("jobs"), yMap(s("c"), yMap(s("uses"), s("./.github/workflows/callee.yml"), s("with"), yMap(with...), s("secrets"), yMap(s("tok"), secret)))))
	verifPlace(doc, 1, 0)
	la := NewLocalActionsCache(proj, nil)
	errs := verifLintNode(doc, []Rule{NewRuleWorkflowCall("/r/.github/workflows/w.yml", cache), NewRuleExpression(la, cache)})
	verifReach("site")
	verifCheckPlaceholder(errs, bad, false)
}
