//go:build verif

package actionlint

import "gopkg.in/yaml.v3"

// C06 — making type information less precise never introduces a diagnostic.
// One inductive step per typing rule: the operands are variables x, y whose
// types are drawn from a family closed under the constructors up to depth 2;
// T' is a loosening of T (a sub-term replaced by any, or a closed object
// opened); every rule that accepts (T, U) must accept (T', U) and (T, U').

// verifC06NarrowLeaves: the types at the deepest level are drawn from {any, number, string} only.
var verifC06NarrowLeaves bool

func verifGenType(tag string, depth int) ExprType {
	n := 5
	if depth > 0 {
		n = 11
	} else if verifC06NarrowLeaves && tag != "t" && tag != "u" {
		switch verifChoose(tag, 3) {
		case 0:
			return AnyType{}
		case 1:
			return NumberType{}
		default:
			return StringType{}
		}
	}
	switch verifChoose(tag, n) {
	case 0:
		return AnyType{}
	case 1:
		return NullType{}
	case 2:
		return NumberType{}
	case 3:
		return BoolType{}
	case 4:
		return StringType{}
	case 5:
		return NewStrictObjectType(map[string]ExprType{"a": verifGenType(tag+"a", depth-1)})
	case 6:
		return NewStrictObjectType(map[string]ExprType{"a": verifGenType(tag+"a", depth-1), "b": verifGenType(tag+"b", depth-1)})
	case 7:
		return NewObjectType(map[string]ExprType{"a": verifGenType(tag+"a", depth-1)})
	case 8:
		return NewMapObjectType(verifGenType(tag+"m", depth-1))
	case 9:
		return &ArrayType{Elem: verifGenType(tag+"e", depth-1)}
	default:
		return &ArrayType{Elem: verifGenType(tag+"e", depth-1), Deref: true}
	}
}

// verifLoosen returns the k-th loosening of t (k counts loosenable positions in
// pre-order), or nil when k is out of range; *n is decremented while walking.
func verifLoosen(t ExprType, n *int) ExprType {
	if _, isAny := t.(AnyType); isAny {
		return nil
	}
	if *n == 0 {
		*n = -1
		return AnyType{} // replace this sub-term by any
	}
	*n--
	switch ty := t.(type) {
	case *ObjectType:
		if ty.IsStrict() {
			if *n == 0 {
				*n = -1
				c := ty.DeepCopy().(*ObjectType)
				c.Loose() // closed object -> open object
				return c
			}
			*n--
		}
		for _, k := range []string{"a", "b"} {
			if p, ok := ty.Props[k]; ok {
				if l := verifLoosen(p, n); l != nil {
					c := ty.DeepCopy().(*ObjectType)
					c.Props[k] = l
					return c
				}
			}
		}
		if ty.Mapped != nil && !ty.IsLoose() {
			if l := verifLoosen(ty.Mapped, n); l != nil {
				return &ObjectType{Mapped: l}
			}
		}
	case *ArrayType:
		if l := verifLoosen(ty.Elem, n); l != nil {
			return &ArrayType{Elem: l, Deref: ty.Deref}
		}
	}
	return nil
}

var verifC06Exprs = []string{
	"x", "x.a", "x.b", "x.a.a", "x.*", "x.*.a", "x.a.*", "x[0]", "x['a']", "x[y]", "x.a[y]", "x.*[0]",
	"!x", "x == y", "x != y", "x < y", "x >= y", "x && y", "x || y", "x == 1", "x == 'a'", "x == true", "x == null",
	"contains(x, y)", "contains(y, x)", "startsWith(x, y)", "endsWith(x, y)", "format('{0}', x)", "format(x, y)", "join(x, y)", "join(x)",
	"toJSON(x)", "fromJSON(x)", "hashFiles(x)", "hashFiles(x, y)", "x.a == y", "x[0] == y", "contains(x.*.a, y)", "fromJSON(x).a", "format('{0}', x.a)",
}

func verifSemaErrs(src string, tx, ty ExprType) int {
	tree, perr := NewExprParser().Parse(NewExprLexer(src + "}}"))
	if perr != nil {
		verifCheck(false, "template-expression-does-not-parse")
		return 0
	}
	c := NewExprSemanticsChecker(false, nil)
	c.SetContextAvailability([]string{"x", "y"})
	c.SetSpecialFunctionAvailability([]string{"hashfiles"})
	c.vars = map[string]ExprType{"x": tx, "y": ty}
	c.varsCopied = true
	_, errs := c.Check(tree)
	return len(errs)
}

// HarnessC06Rules: monotonicity of every typing rule in x (and, by symmetry of
// the expression list, in y).
var verifC06DeepExprs = []string{"x.a.a", "x.*", "x.*.a", "x.a.*", "x.a.*.a", "x.*[0]", "x.a[y]", "x.a['a']", "x[0].a", "x['a'].a", "contains(x.*.a, y)", "format('{0}', x.a.a)", "x.a == y", "fromJSON(x.a).a", "join(x.a, y)", "x.a.a == x.a.b"}

// HarnessC06RulesNarrow: the deep templates on depth-2 types whose innermost
// types are any, number or string.
func HarnessC06RulesNarrow(depth int) {
	verifC06NarrowLeaves = true
	HarnessC06Rules(depth, true)
}

// HarnessC06Pairs: both operands structured (depth <= 1, innermost types any /
// number / string); one of them is loosened; templates that use both operands.
var verifC06PairExprs = []string{
	"x[y]", "x.a[y]", "y[x]", "y.a[x]", "x == y", "x < y", "x && y", "contains(x, y)", "contains(y, x)", "startsWith(x, y)",
	"format(x, y)", "join(x, y)", "join(y, x)", "hashFiles(x, y)", "x.a == y", "x[0] == y", "contains(x.*.a, y)", "x[y.a]", "x.*[y]", "y.*[x]",
	// the result of an index access is consumed
	"y[x] == 'a'", "startsWith(y[x], 'a')", "y[x] < 1", "format('{0}', y[x])", "y[x].a", "y[x][0]", "x[y] == 'a'", "contains(y[x], 'a')", "!y[x]", "y[x] && 'a'",
	// both operands merged by a logical operator, then used
	"(x || y).a", "(x && y).a", "(y || x).a", "(x || y)[0]", "(x || y).*", "(x || y).*.a", "(x && y || x).a", "(x || y).a.a",
}

func HarnessC06Pairs() {
	verifC06NarrowLeaves = true
	T := verifGenType("tx", 1)
	U := verifGenType("ty", 1)
	k := verifChoose("loosen", 5)
	n := k
	T2 := verifLoosen(T, &n)
	if T2 == nil {
		return
	}
	src := verifC06PairExprs[verifChoose("expr", len(verifC06PairExprs))]
	before, after := verifSemaErrs(src, T, U), verifSemaErrs(src, T2, U)
	verifReach("compared")
	if before == 0 {
		verifReach("accepted-before")
		verifCheckf(after == 0, "loosening-a-type-introduces-a-diagnostic", src+" : "+T.String()+" -> "+T2.String()+" ; other "+U.String())
	}
}

func HarnessC06Rules(depth int, deep bool) {
	T := verifGenType("t", depth)
	var U ExprType = StringType{}
	if !deep {
		U = verifGenType("u", 0)
	}
	k := verifChoose("loosen", 8)
	n := k
	T2 := verifLoosen(T, &n)
	if T2 == nil {
		return // fewer than k+1 loosenable positions
	}
	exprs := verifC06Exprs
	if deep {
		exprs = verifC06DeepExprs
	}
	src := exprs[verifChoose("expr", len(exprs))]
	swap := !deep && verifChoose("operand", 2) == 1
	var before, after int
	if swap {
		before, after = verifSemaErrs(src, U, T), verifSemaErrs(src, U, T2)
	} else {
		before, after = verifSemaErrs(src, T, U), verifSemaErrs(src, T2, U)
	}
	verifReach("compared")
	if before == 0 {
		verifReach("accepted-before")
		verifCheckf(after == 0, "loosening-a-type-introduces-a-diagnostic", src+" : "+T.String()+" -> "+T2.String()+" ; other "+U.String())
	}
}

// HarnessC06Algebra: any is assignable to and from everything; Merge never
// yields something stricter than its arguments.
func HarnessC06Algebra(depth int) {
	T := verifGenType("t", depth)
	U := verifGenType("u", 0)
	verifReach("compared")
	verifCheck(AnyType{}.Assignable(T), "type-not-assignable-to-any")
	verifCheck(T.Assignable(AnyType{}), "any-not-assignable-to-type")
	// merging with any gives any (Merge may coerce bool/number into string by design,
	// so "the result accepts both arguments" is not demanded)
	_, ok1 := T.Merge(AnyType{}).(AnyType)
	_, ok2 := AnyType{}.Merge(T).(AnyType)
	verifCheckf(ok1 && ok2, "merge-with-any-is-not-any", T.String())
	_ = U
	// merging an object that accepts unknown properties (an open or mapped one) with any object,
	// in either order, gives an object that still accepts unknown properties
	open := NewEmptyObjectType()
	mapped := NewMapObjectType(StringType{})
	if to, ok := T.(*ObjectType); ok {
		for _, lo := range []*ObjectType{open, mapped} {
			for _, m := range []ExprType{lo.Merge(to), to.Merge(lo)} {
				mo, isObj := m.(*ObjectType)
				_, isAny := m.(AnyType)
				verifCheckf(isAny || (isObj && !mo.IsStrict()), "merge-with-an-open-object-is-closed", lo.String()+" + "+to.String()+" = "+m.String())
			}
		}
	}
}

// HarnessC06Template: evaluating a value of type any in a template or using it
// as a condition / number is never reported.
func HarnessC06Template() {
	kind := verifChoose("site", 4)
	rule := NewRuleExpression(NewLocalActionsCache(nil, nil), NewLocalReusableWorkflowCache(nil, "/", nil))
	rule.matrixTy = NewStrictObjectType(map[string]ExprType{"v": AnyType{}})
	pos := &Pos{1, 1}
	expr := &String{Value: "${{ matrix.v }}", Pos: pos}
	switch kind {
	case 0:
		rule.checkString(&String{Value: "echo ${{ matrix.v }}", Pos: pos}, "jobs.<job_id>.steps.run")
	case 1:
		rule.checkBool(&Bool{Expression: expr, Pos: pos}, "jobs.<job_id>.steps.continue-on-error")
	case 2:
		rule.checkFloat(&Float{Expression: expr, Pos: pos}, "jobs.<job_id>.steps.timeout-minutes")
	case 3:
		rule.checkIfCondition(&String{Value: "matrix.v", Pos: pos}, "jobs.<job_id>.steps.if")
	}
	verifReach("checked")
	verifCheckf(len(rule.Errs()) == 0, "value-of-type-any-reported", verifErrTextConc(rule.Errs()))
}

// HarnessC06MatrixRow: a matrix row whose values are a mix of plain values and
// one value of unknown type (a placeholder whose type is any), in every order:
// whatever is done with matrix.<row> afterwards (property, index, filter,
// function argument) is not reported — the row's type is unknown.
func HarnessC06MatrixRow() {
	s := yScalar
	plain := func(k int) *yaml.Node {
		switch k {
		case 0:
			return s("native")
		case 1:
			return yTagged("!!int", "3")
		case 2:
			return yMap(s("arch"), s("x"))
		}
		return ySeq(s("a"))
	}
	unknown := []string{"${{ fromJSON(github.sha) }}", "${{ github.event.x }}", "${{ fromJSON(needs.p.outputs.t) }}"}[verifChoose("unknown", 3)]
	vals := []*yaml.Node{plain(verifChoose("plain0", 4))}
	if verifChoose("two", 2) == 1 {
		vals = append(vals, plain(verifChoose("plain1", 4)))
	}
	pos := verifChoose("position", len(vals)+1)
	vals = append(vals[:pos:pos], append([]*yaml.Node{s(unknown)}, vals[pos:]...)...)
	use := []string{"matrix.r.arch", "matrix.r[0]", "join(matrix.r.*.x, ',')", "matrix.r.a.b.c", "contains(matrix.r, 'x')", "matrix.r == 1", "format('{0}', matrix.r.arch.name)"}[verifChoose("use", 7)]
	ref := s("echo ${{ " + use + " }}")
	doc := yDoc(yMap(s("on"), s("push"), s("jobs"), yMap(
		s("p"), yMap(s("runs-on"), s("ubuntu-latest"), s("outputs"), yMap(s("t"), s("v")), s("steps"), ySeq(yMap(s("run"), s("echo")))),
		s("j"), yMap(s("needs"), ySeq(s("p")), s("runs-on"), s("ubuntu-latest"), s("strategy"), yMap(s("matrix"), yMap(s("r"), ySeq(vals...))), s("steps"), ySeq(yMap(s("run"), ref))),
	)))
	verifPlace(doc, 1, 0)
	errs := verifLintNode(doc, verifExprRuleOnly())
	verifReach("checked")
	verifCheckf(verifErrOnLine(errs, ref) == 0, "value-of-unknown-type-reported", use+": "+verifErrTextConc(errs))
}

// HarnessC06InputDefault: the default of a typed workflow_call input given by a
// placeholder whose type is any is accepted for every declared type.
func HarnessC06InputDefault() {
	s := yScalar
	ty := []string{"boolean", "number", "string"}[verifChoose("type", 3)]
	def := s([]string{"${{ fromJSON(vars.V) }}", "${{ github.event.repository.private }}", "${{ fromJSON('[]')[0] }}", "${{ vars.A || fromJSON(vars.B) }}"}[verifChoose("default", 4)])
	doc := yDoc(yMap(s("on"), yMap(s("workflow_call"), yMap(s("inputs"), yMap(s("verbose"), yMap(s("type"), s(ty), s("default"), def)))),
		s("jobs"), yMap(s("j"), yMap(s("runs-on"), s("ubuntu-latest"), s("steps"), ySeq(yMap(s("run"), s("echo ${{ inputs.verbose }}")))))))
	verifPlace(doc, 1, 0)
	errs := verifLintNode(doc, verifExprRuleOnly())
	verifReach("checked")
	verifCheckf(verifErrOnLine(errs, def) == 0, "value-of-unknown-type-reported", ty+": "+verifErrTextConc(errs))
}

// HarnessC06RunsOn: `runs-on` given by one placeholder (alone, or as the value
// of `labels:`) whose type is any, array<any> or an array of strings built
// from a value of unknown type: accepted, exactly as the precise variants are.
func HarnessC06RunsOn() {
	s := yScalar
	exprs := []string{
		"${{ fromJSON(needs.p.outputs.t) }}", "${{ matrix.host }}", "${{ github.event.client_payload.labels.* }}", "${{ fromJSON('[]') }}",
		"${{ fromJSON('[\"self-hosted\",\"linux\"]') }}", "${{ matrix.mixed }}",
	}
	e := s(exprs[verifChoose("expr", len(exprs))])
	var runsOn *yaml.Node = e
	if verifChoose("form", 2) == 1 {
		runsOn = yMap(s("group"), s("g"), s("labels"), e)
	}
	doc := yDoc(yMap(s("on"), s("push"), s("jobs"), yMap(
		s("p"), yMap(s("runs-on"), s("ubuntu-latest"), s("outputs"), yMap(s("t"), s("v")), s("steps"), ySeq(yMap(s("run"), s("echo")))),
		s("j"), yMap(s("needs"), ySeq(s("p")), s("runs-on"), runsOn,
			s("strategy"), yMap(s("matrix"), yMap(s("include"), ySeq(
				yMap(s("host"), ySeq(s("self-hosted"), s("${{ fromJSON(needs.p.outputs.t) }}")), s("mixed"), s("${{ fromJSON(needs.p.outputs.t) }}")),
			))),
			s("steps"), ySeq(yMap(s("run"), s("echo")))),
	)))
	verifPlace(doc, 1, 0)
	errs := verifLintNode(doc, verifExprRuleOnly())
	verifReach("checked")
	verifCheckf(verifErrOnLine(errs, e) == 0, "value-of-unknown-type-reported", e.Value+": "+verifErrTextConc(errs))
}
