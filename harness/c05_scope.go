//go:build verif

package actionlint

import (
	"strings"

	"gopkg.in/yaml.v3"
)

// C05 — references resolve by scope. Names are single symbolic letters
// (either case); shapes (how many steps, which have ids, where the reference
// sits, the needs edges) are free choices; the oracle is the scope rule of the
// statement written over the same symbolic letters.

func verifLetter(tag string) string {
	s := verifSymString(tag, 1)
	verifAssumeNote(verifOr(verifAnd('a' <= s[0], s[0] <= 'z'), verifAnd('A' <= s[0], s[0] <= 'Z')), "C05: ids and names are single ASCII letters")
	return s
}

func verifUndefinedAt(errs []*Error, n *yaml.Node) int {
	c := 0
	for _, e := range errs {
		if e.Line == n.Line && (strings.Contains(e.Message, "is not defined in object type") || strings.Contains(e.Message, "undefined variable")) {
			c++
		}
	}
	return c
}

// HarnessC05Steps: n steps with optional ids; a reference steps.<X>.outputs.o
// in the run: of step k, in the job's outputs or in environment.url.
func HarnessC05Steps(n int) {
	s := yScalar
	ids := make([]string, n)
	has := make([]bool, n)
	X := verifLetter("ref")
	where := verifChoose("where", n+2) // step index, n = job outputs, n+1 = environment.url
	// the reference alone, or as the left operand of a logical operator whose result is narrowed
	refExpr := "steps." + X + ".outputs.o"
	switch verifChoose("embedding", 4) {
	case 1:
		refExpr = "(" + refExpr + " || 'a') && 'b'"
	case 2:
		refExpr = "!(" + refExpr + " || false) || 'v'"
	case 3:
		// the same name as a string literal in brackets (either letter case, like the dotted form)
		refExpr = "steps['" + X + "'].outputs.o"
	}
	ref := s("echo ${{ " + refExpr + " }}")
	// which field of the step carries the reference
	field := 0
	if where < n {
		field = verifChoose("field", 7)
	}
	if field >= 4 {
		// bool / number positions take a whole-value placeholder only
		ref = s("${{ " + refExpr + " }}")
	}
	var steps []*yaml.Node
	dynamicBefore := make([]bool, n+1) // a step before position k has an id given by an expression
	for j := 0; j < n; j++ {
		idKind := verifChoose("hasid"+string(rune('0'+j)), 4) // none, letter, ${{ }} alone, text with ${{ }}
		has[j] = idKind == 1
		dynamicBefore[j+1] = dynamicBefore[j] || idKind >= 2
		kv := []*yaml.Node{s("run"), s("echo")}
		if j == where {
			switch field {
			case 0:
				kv = []*yaml.Node{s("run"), ref}
			case 1:
				kv = append(kv, s("name"), ref)
			case 2:
				kv = append(kv, s("if"), ref)
			case 3:
				kv = append(kv, s("env"), yMap(s("V"), ref))
			case 4:
				kv = append(kv, s("continue-on-error"), ref)
			case 5:
				kv = append(kv, s("timeout-minutes"), ref)
			default:
				if verifChoose("wdfirst", 2) == 1 {
					kv = append([]*yaml.Node{s("working-directory"), ref}, kv...) // written before run:
				} else {
					kv = append(kv, s("working-directory"), ref)
				}
			}
		}
		if has[j] {
			ids[j] = verifLetter("id" + string(rune('0'+j)))
			for i := 0; i < j; i++ {
				if has[i] {
					verifAssume(verifNot(verifFoldEq(ids[i], ids[j]))) // duplicate ids are another rule's business
				}
			}
			kv = append(kv, s("id"), s(ids[j]))
		}
		switch idKind {
		case 2:
			kv = append(kv, s("id"), s("${{ matrix.t }}"))
		case 3:
			kv = append(kv, s("id"), s("build-${{ matrix.t }}"))
		}
		steps = append(steps, yMap(kv...))
	}
	job := []*yaml.Node{s("runs-on"), s("ubuntu-latest"), s("strategy"), yMap(s("matrix"), yMap(s("t"), ySeq(s("x")))), s("steps"), ySeq(steps...)}
	if where == n {
		job = append(job, s("outputs"), yMap(s("out"), ref))
	}
	if where == n+1 {
		job = append(job, s("environment"), yMap(s("name"), s("e"), s("url"), ref))
	}
	doc := yDoc(yMap(s("on"), s("push"), s("jobs"), yMap(s("j"), yMap(job...))))
	verifPlace(doc, 1, 0)
	errs := verifLintNode(doc, verifExprRuleOnly())
	visible := n // job outputs / environment see every step
	if where < n {
		visible = where
	}
	defined := false
	for j := 0; j < visible; j++ {
		if has[j] {
			defined = verifOr(defined, verifFoldEq(ids[j], X))
		}
	}
	got := verifUndefinedAt(errs, ref)
	if dynamicBefore[visible] {
		// an id given by an expression may be any name: nothing is reported
		verifReach("dynamic-id")
		verifCheck(got == 0, "reference-reported-although-an-earlier-id-is-dynamic")
		return
	}
	if got >= 1 {
		verifReach("reported")
		verifCheck(verifNot(defined), "step-in-scope-reported-as-undefined")
	} else {
		verifReach("accepted")
		verifCheck(defined, "reference-to-later-or-missing-step-accepted")
	}
}

// HarnessC05Needs: three jobs a, b, c; c references needs.<Y>.outputs.<Z>;
// the needs lists of c and of the jobs it needs are free choices.
func HarnessC05Needs() {
	s := yScalar
	Y := verifLetter("job")
	Z := verifLetter("out")
	O := verifLetter("declared")
	cNeeds := verifChoose("cneeds", 4) // bit0: a, bit1: b
	bNeedsA := verifChoose("bneedsa", 2) == 1
	ref := s("echo ${{ needs." + Y + ".outputs." + Z + " }}")
	mkJob := func(needs []string, outputs bool, run *yaml.Node) *yaml.Node {
		kv := []*yaml.Node{s("runs-on"), s("ubuntu-latest"), s("steps"), ySeq(yMap(s("run"), run))}
		if len(needs) > 0 {
			var ns []*yaml.Node
			for _, x := range needs {
				ns = append(ns, s(x))
			}
			kv = append(kv, s("needs"), ySeq(ns...))
		}
		if outputs {
			kv = append(kv, s("outputs"), yMap(s(O), s("v")))
		}
		return yMap(kv...)
	}
	var bn, cn []string
	if bNeedsA {
		bn = []string{"a"}
	}
	if verifChoose("unknownfirst", 2) == 1 {
		cn = append(cn, "zz") // a job that does not exist, listed first: the entries after it still count
	}
	if cNeeds&1 != 0 {
		cn = append(cn, "A") // needs ids are case-insensitive
	}
	if cNeeds&2 != 0 {
		cn = append(cn, "b")
	}
	doc := yDoc(yMap(s("on"), s("push"), s("jobs"), yMap(
		s("a"), mkJob(nil, true, s("echo")),
		s("b"), mkJob(bn, true, s("echo")),
		s("c"), mkJob(cn, false, ref),
	)))
	verifPlace(doc, 1, 0)
	errs := verifLintNode(doc, verifExprRuleOnly())
	direct := false
	if cNeeds&1 != 0 {
		direct = verifOr(direct, verifFoldEq(Y, "a"))
	}
	if cNeeds&2 != 0 {
		direct = verifOr(direct, verifFoldEq(Y, "b"))
	}
	defined := verifAnd(direct, verifFoldEq(Z, O))
	got := verifUndefinedAt(errs, ref)
	if got >= 1 {
		verifReach("reported")
		verifCheck(verifNot(defined), "direct-need-output-reported-as-undefined")
	} else {
		verifReach("accepted")
		verifCheck(defined, "transitive-or-missing-need-accepted")
	}
}

// HarnessC05Matrix: matrix.<K> against row keys plus include keys; exclude keys
// do not define anything; a row or include given by an expression loosens.
func HarnessC05Matrix() {
	s := yScalar
	K := verifLetter("ref")
	R := verifLetter("row")
	I := verifLetter("inc")
	E := verifLetter("exc")
	dyn := verifChoose("dynamic", 4) // 0 literal, 1 matrix is an expression, 2 include is an expression, 3 an include element is an expression
	ref := s("echo ${{ matrix." + K + " }}")
	var matrix *yaml.Node
	switch dyn {
	case 1:
		matrix = s("${{ fromJSON(github.sha) }}")
	case 2:
		matrix = yMap(s(R), ySeq(s("1")), s("include"), s("${{ fromJSON(github.sha) }}"))
	case 3:
		matrix = yMap(s(R), ySeq(s("1")), s("include"), ySeq(s("${{ fromJSON(github.sha) }}")))
	default:
		matrix = yMap(s(R), ySeq(s("1")), s("include"), ySeq(yMap(s(I), s("2"))), s("exclude"), ySeq(yMap(s(R), s("1"))))
		_ = E
	}
	doc := yDoc(yMap(s("on"), s("push"), s("jobs"), yMap(s("j"), yMap(
		s("runs-on"), s("ubuntu-latest"),
		s("strategy"), yMap(s("matrix"), matrix),
		s("steps"), ySeq(yMap(s("run"), ref)),
	))))
	verifPlace(doc, 1, 0)
	errs := verifLintNode(doc, verifExprRuleOnly())
	got := verifUndefinedAt(errs, ref)
	if dyn != 0 {
		verifReach("dynamic")
		verifCheck(got == 0, "reference-into-dynamic-matrix-reported")
		return
	}
	// "include" / "exclude" are section names, not matrix keys
	verifAssume(verifAnd(verifNot(verifFoldEq(R, I)), true))
	defined := verifOr(verifFoldEq(K, R), verifFoldEq(K, I))
	if got >= 1 {
		verifReach("reported")
		verifCheck(verifNot(defined), "matrix-key-in-scope-reported")
	} else {
		verifReach("accepted")
		verifCheck(defined, "undefined-matrix-key-accepted")
	}
}

// HarnessC05Inputs: inputs.<N> / secrets.<N> against workflow_call and
// workflow_dispatch declarations; jobs.<J>.outputs.<O> in workflow_call outputs.
func HarnessC05Inputs() {
	s := yScalar
	N := verifLetter("ref")
	CI := verifLetter("callinput")
	DI := verifLetter("dispatchinput")
	CS := verifLetter("callsecret")
	kind := verifChoose("kind", 3) // 0 inputs, 1 secrets, 2 jobs.<J>.outputs.<O>
	shape := verifChoose("events", 3) // 0 call only, 1 dispatch only, 2 both
	var expr string
	switch kind {
	case 0:
		expr = "${{ inputs." + N + " }}"
	case 1:
		expr = "${{ secrets." + N + " }}"
	case 2:
		expr = "${{ jobs." + N + ".outputs.o }}"
	}
	ref := s("echo " + expr)
	on := []*yaml.Node{}
	var outRef *yaml.Node
	if shape != 1 {
		call := []*yaml.Node{s("inputs"), yMap(s(CI), yMap(s("type"), s("string"))), s("secrets"), yMap(s(CS), yMap(s("required"), yTagged("!!bool", "false")))}
		if kind == 2 {
			outRef = s(expr)
			call = append(call, s("outputs"), yMap(s("res"), yMap(s("value"), outRef)))
		}
		on = append(on, s("workflow_call"), yMap(call...))
	}
	// the dispatch event declares one input, or none (no `inputs:` at all, an empty mapping)
	dispatchDecl := 0
	if shape != 0 {
		dispatchDecl = verifChoose("dispatchdecl", 3)
		switch dispatchDecl {
		case 0:
			on = append(on, s("workflow_dispatch"), yMap(s("inputs"), yMap(s(DI), yMap(s("type"), s("string")))))
		case 1:
			on = append(on, s("workflow_dispatch"), yTagged("!!null", ""))
		default:
			on = append(on, s("workflow_dispatch"), yMap(s("inputs"), yMap()))
		}
	}
	if kind == 2 && shape == 1 {
		return // jobs context only exists in workflow_call outputs
	}
	run := ref
	if kind == 2 {
		run = s("echo")
	}
	doc := yDoc(yMap(s("on"), yMap(on...), s("jobs"), yMap(s("j"), yMap(
		s("runs-on"), s("ubuntu-latest"), s("outputs"), yMap(s("o"), s("v")),
		s("steps"), ySeq(yMap(s("run"), run)),
	))))
	verifPlace(doc, 1, 0)
	errs := verifLintNode(doc, verifExprRuleOnly())
	target := ref
	if kind == 2 {
		target = outRef
	}
	got := verifUndefinedAt(errs, target)
	defined := false
	switch kind {
	case 0:
		if shape != 1 {
			defined = verifOr(defined, verifFoldEq(N, CI))
		}
		if shape != 0 && dispatchDecl == 0 {
			defined = verifOr(defined, verifFoldEq(N, DI))
		}
	case 1:
		if shape == 1 {
			defined = true // no declared secrets: any secret may exist
		} else {
			defined = verifFoldEq(N, CS) // single letters never equal github_token / actions_*_debug
		}
	case 2:
		defined = verifFoldEq(N, "j")
	}
	if got >= 1 {
		verifReach("reported")
		verifCheck(verifNot(defined), "declared-name-reported-as-undefined")
	} else {
		verifReach("accepted")
		verifCheck(defined, "undeclared-name-accepted")
	}
}

// HarnessC05MatrixJobs: the matrix of one job is not in scope in another job.
// Job A (an ordinary job or a reusable-workflow call) has a matrix row with a
// symbolic key; job B — written before or after A — has no strategy or a
// matrix row of its own and refers to matrix.<K>. The reference is in scope
// iff B's own matrix defines K.
func HarnessC05MatrixJobs() {
	s := yScalar
	K := verifLetter("ref")
	RA := verifLetter("rowA")
	RB := verifLetter("rowB")
	ref := s("echo ${{ matrix." + K + " }}")
	a := []*yaml.Node{s("strategy"), yMap(s("matrix"), yMap(s(RA), ySeq(s("1"))))}
	if verifChoose("kindA", 2) == 1 {
		a = append(a, s("uses"), s("owner/repo/.github/workflows/w.yml@v1"))
	} else {
		a = append(a, s("runs-on"), s("ubuntu-latest"), s("steps"), ySeq(yMap(s("run"), s("echo"))))
	}
	b := []*yaml.Node{s("runs-on"), s("ubuntu-latest"), s("steps"), ySeq(yMap(s("run"), ref))}
	own := verifChoose("ownMatrix", 2) == 1
	if own {
		b = append(b, s("strategy"), yMap(s("matrix"), yMap(s(RB), ySeq(s("2")))))
	}
	jobs := []*yaml.Node{s("ja"), yMap(a...), s("jb"), yMap(b...)}
	if verifChoose("order", 2) == 1 {
		jobs = []*yaml.Node{s("jb"), yMap(b...), s("ja"), yMap(a...)}
	}
	doc := yDoc(yMap(s("on"), s("push"), s("jobs"), yMap(jobs...)))
	verifPlace(doc, 1, 0)
	errs := verifLintNode(doc, verifExprRuleOnly())
	got := verifUndefinedAt(errs, ref)
	defined := verifAnd(own, verifFoldEq(K, RB))
	if got >= 1 {
		verifReach("reported")
		verifCheck(verifNot(defined), "matrix-key-in-scope-reported")
	} else {
		verifReach("accepted")
		verifCheck(defined, "matrix-key-of-another-job-accepted")
	}
}
