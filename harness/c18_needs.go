//go:build verif

package actionlint

import "strings"

var verifJobIDs = []string{"a", "b", "c", "d", "e"}

// HarnessC18Needs: n jobs; the needs adjacency matrix is symbolic (every edge
// set, self loops included), each needs list is written forwards or backwards,
// one optional extra entry (dangling id, duplicate or upper-case spelling) sits
// at a chosen job, and the iteration order of the rule's node map is symbolic.
func HarnessC18Needs(n int, extras bool, narrow bool) {
	adj := make([][]bool, n)
	jobs := make([]*Job, n)
	dangling := make([]int, n)
	for i := 0; i < n; i++ {
		adj[i] = make([]bool, n)
		for j := 0; j < n; j++ {
			adj[i][j] = verifSymBool("e" + verifJobIDs[i] + verifJobIDs[j])
		}
	}
	extraJob, extraKind := -1, 0
	if extras {
		extraKind = verifChoose("extra", 6) // 0 none, 1 dangling, 2 duplicate spelling in other case, 3 upper-case reference, 4 the same dangling id from two jobs, 5 the job's own id written in upper case
		if extraKind != 0 {
			extraJob = verifChoose("extraJob", n)
		}
	}
	for i := 0; i < n; i++ {
		pos := &Pos{10 * (i + 1), 3}
		var needs []*String
		add := func(id string) { needs = append(needs, &String{id, false, &Pos{10*(i+1) + 1 + len(needs), 5}}) }
		rev := !narrow && verifChoose("rev"+verifJobIDs[i], 2) == 1
		for k := 0; k < n; k++ {
			j := k
			if rev {
				j = n - 1 - k
			}
			if adj[i][j] {
				if i == extraJob && extraKind == 3 {
					add(strings.ToUpper(verifJobIDs[j]))
				} else {
					add(verifJobIDs[j])
				}
			}
		}
		if i == extraJob {
			switch extraKind {
			case 1, 4:
				add("zz")
				dangling[i]++
			case 2:
				if len(needs) > 0 {
					add(strings.ToUpper(needs[0].Value))
				}
			}
		}
		if extraKind == 4 && i == (extraJob+1)%n && i != extraJob {
			add("ZZ") // a second job refers to the same missing id in another letter case
			dangling[i]++
		}
		idText := verifJobIDs[i]
		if i == extraJob && extraKind == 5 {
			idText = strings.ToUpper(idText) // job ids are case-insensitive: `A:` is the job that `needs: [a]` refers to
		}
		jobs[i] = &Job{ID: &String{idText, false, pos}, Pos: pos, Needs: needs}
	}
	rule := NewRuleJobNeeds()
	if narrow {
		verifMapOrder(true, "detectFirstCycle") // DFS entry point only
	} else {
		verifMapOrder(true)
	}
	for _, j := range jobs {
		rule.VisitJobPre(j)
	}
	rule.VisitWorkflowPost(&Workflow{})
	verifMapOrder(false)

	// reference: transitive closure
	reach := make([][]bool, n)
	for i := range reach {
		reach[i] = make([]bool, n)
		copy(reach[i], adj[i])
	}
	for k := 0; k < n; k++ {
		for i := 0; i < n; i++ {
			for j := 0; j < n; j++ {
				reach[i][j] = verifOr(reach[i][j], verifAnd(reach[i][k], reach[k][j]))
			}
		}
	}
	cyclic := false
	for i := 0; i < n; i++ {
		cyclic = verifOr(cyclic, reach[i][i])
	}

	nCycle, nDangling := 0, 0
	danglingAt := make([]int, n)
	var cycleMsg string
	for _, e := range rule.Errs() {
		// the two kinds of diagnostic are told apart by structure, not by wording: a cycle report
		// lists quoted job ids joined by " -> "; a dangling report quotes the id that names no job
		switch {
		case strings.Contains(e.Message, "\" -> \""):
			nCycle++
			cycleMsg = e.Message
		case strings.Contains(strings.ToLower(e.Message), "\"zz\""): // the only id that names no job
			nDangling++
			for i := 0; i < n; i++ {
				if e.Line == jobs[i].Pos.Line {
					danglingAt[i]++
				}
			}
		}
	}
	totalDangling := 0
	for i := 0; i < n; i++ {
		totalDangling += dangling[i]
		verifCheck(danglingAt[i] == dangling[i], "dangling-reference-not-reported-at-referring-job")
	}
	verifCheck(nDangling == totalDangling, "spurious-dangling-report")
	if totalDangling > 0 {
		verifReach("dangling")
		verifCheck(nCycle == 0, "cycle-reported-with-unresolved-reference")
		return
	}
	if nCycle == 0 {
		verifReach("no-cycle-reported")
		verifCheck(verifNot(cyclic), "cycle-not-reported")
		return
	}
	verifReach("cycle-reported")
	verifCheck(nCycle == 1, "more-than-one-cycle-diagnostic")
	verifCheck(cyclic, "cycle-reported-for-acyclic-graph")
	// the printed path must be a closed walk along existing edges
	k := strings.Index(cycleMsg, "\" -> \"")
	start := strings.LastIndex(cycleMsg[:k], "\"")
	chain := cycleMsg[start:]
	if e := strings.LastIndex(chain, "\""); e >= 0 {
		chain = chain[:e+1] // text after the last quoted id, if any, is not part of the cycle
	}
	path := strings.Split(chain, " -> ")
	verifCheck(len(path) >= 2 && path[0] == path[len(path)-1], "printed-cycle-not-closed")
	idx := func(q string) int {
		for i := 0; i < n; i++ {
			if q == "\""+verifJobIDs[i]+"\"" {
				return i
			}
		}
		return -1
	}
	for s := 0; s+1 < len(path); s++ {
		a, b := idx(path[s]), idx(path[s+1])
		verifCheck(a >= 0 && b >= 0, "printed-cycle-names-unknown-job")
		if a >= 0 && b >= 0 {
			verifCheck(adj[a][b], "printed-cycle-uses-non-existent-edge")
		}
	}
}
