//go:build verif

package actionlint

import (
	"os"
	"sort"
	"strconv"
	"strings"

	"gopkg.in/yaml.v3"
)

// C14 / C02: the interface of a local reusable workflow is obtained by two
// routes — decoded from the callee's file (parseReusableWorkflowMetadata,
// reflection-driven yaml decoding + the UnmarshalYAML methods) when a caller is
// checked first, or written from the callee's parsed syntax tree
// (WriteWorkflowCallEvent) when the callee is checked first. Which one is used
// depends on the order in which files are linted, so both must describe the
// same interface for every declaration.

func verifMetaDigest(m *ReusableWorkflowMetadata) string {
	if m == nil {
		return "<nil>"
	}
	var parts []string
	for k, in := range m.Inputs {
		parts = append(parts, "in "+k+"="+in.Name+" required="+strconv.FormatBool(in.Required)+" type="+in.Type.String())
	}
	for k, s := range m.Secrets {
		parts = append(parts, "secret "+k+"="+s.Name+" required="+strconv.FormatBool(s.Required))
	}
	for k, o := range m.Outputs {
		parts = append(parts, "out "+k+"="+o.Name)
	}
	sort.Strings(parts)
	out := ""
	for _, p := range parts {
		out += p + "; "
	}
	return out
}

func HarnessC14Routes() {
	req := []string{"", "        required: true\n", "        required: false\n", "        required: True\n", "        required: FALSE\n"}
	def := []string{"", "        default: ''\n", "        default: x\n", "        default: 1\n", "        default: true\n", "        default: null\n", "        default: ~\n"}
	typ := []string{"", "        type: string\n", "        type: number\n", "        type: boolean\n", "        type: choice\n"}
	name := []string{"in1", "In1", "IN-1"}[verifChoose("name", 3)]
	r, d, t := verifChoose("required", len(req)), verifChoose("default", len(def)), verifChoose("type", len(typ))
	sr := verifChoose("secretrequired", len(req))
	body := req[r] + def[d] + typ[t]
	if body == "" {
		body = "        description: d\n"
	}
	sbody := req[sr]
	if sbody == "" {
		sbody = "        description: d\n"
	}
	src := "on:\n  workflow_call:\n    inputs:\n      " + name + ":\n" + body +
		"    secrets:\n      Sec1:\n" + sbody +
		"    outputs:\n      Out1:\n        value: v\n" +
		"jobs:\n  j:\n    runs-on: ubuntu-latest\n    steps:\n      - run: echo\n"
	// route 1: decoded from the file
	m1, err := parseReusableWorkflowMetadata([]byte(src))
	verifCheck(err == nil, "callee-file-does-not-decode")
	// route 2: written from the syntax tree
	w, perrs := Parse([]byte(src))
	info := strconv.Itoa(len(perrs)) + " errs; " + verifErrTextConc(perrs)
	verifCheck(w != nil, "callee-file-does-not-parse")
	if w == nil || err != nil {
		return
	}
	var ev *WorkflowCallEvent
	for _, e := range w.On {
		if c, ok := e.(*WorkflowCallEvent); ok {
			ev = c
		}
	}
	verifCheckf(ev != nil, "no-workflow-call-event", info+" on="+strconv.Itoa(len(w.On)))
	if ev == nil {
		return
	}
	proj := &Project{root: "/r"}
	c := NewLocalReusableWorkflowCache(proj, "/r", nil)
	c.WriteWorkflowCallEvent("/r/.github/workflows/callee.yml", ev)
	m2, ok := c.readCache("./.github/workflows/callee.yml")
	verifCheck(ok && m2 != nil, "syntax-tree-route-wrote-nothing")
	verifReach("compared")
	d1, d2 := verifMetaDigest(m1), verifMetaDigest(m2)
	verifCheckf(d1 == d2, "interface-from-file-differs-from-interface-from-syntax-tree", "file: "+d1+" | tree: "+d2)
}

// ---- local action interface decoded from action.yml ----

var verifC14ActionYAML string

func verifC14ReadAction(name string) ([]byte, error) {
	if name == "/r/act/action.yml" || name == "/r/broken/action.yml" {
		return []byte(verifC14ActionYAML), nil
	}
	return nil, &verifC10Err{"no such file " + name}
}

func verifC14Stat(name string) (os.FileInfo, error) {
	if name == "/r/act/index.js" || name == "/r/broken/index.js" {
		return nil, nil
	}
	return nil, &verifC10Err{"no such file " + name}
}

// HarnessC14ActionFile: a local action whose action.yml declares one input
// (declared name in one of three spellings, `required` absent / true / false,
// `default` absent / '' / text / null) and one output; the call site supplies
// the input under one of three spellings, another key, or nothing, and reads
// an output. The metadata is decoded from the file text by the repository's
// own UnmarshalYAML methods; the diagnostics must be: missing input iff
// required: true and no default (null = none) and not supplied; undeclared
// input iff a supplied key matches no declared name after folding; the output
// reference accepted iff it names the declared output after folding.
func HarnessC14ActionFile() {
	req := []string{"", "    required: true\n", "    required: false\n"}
	def := []string{"", "    default: ''\n", "    default: x\n", "    default: null\n"}
	decl := []string{"token", "Token", "TOKEN"}[verifChoose("declared", 3)]
	r, d := verifChoose("required", len(req)), verifChoose("default", len(def))
	verifC14ActionYAML = "name: act\ndescription: d\ninputs:\n  " + decl + ":\n    description: d\n" + req[r] + def[d] +
		"outputs:\n  Result:\n    description: d\nruns:\n  using: node20\n  main: index.js\n"
	supplied := []string{"", "token", "TOKEN", "Token", "other"}[verifChoose("supplied", 5)]
	outRef := []string{"result", "RESULT", "nope"}[verifChoose("output", 3)]
	s := yScalar
	step := []*yaml.Node{s("id"), s("a"), s("uses"), s("./act")}
	var withKey *yaml.Node
	if supplied != "" {
		withKey = s(supplied)
		step = append(step, s("with"), yMap(withKey, s("v")))
	}
	ref := s("echo ${{ steps.a.outputs." + outRef + " }}")
	doc := yDoc(yMap(s("on"), s("push"), s("jobs"), yMap(s("j"), yMap(
		s("runs-on"), s("ubuntu-latest"),
		s("steps"), ySeq(yMap(step...), yMap(s("run"), ref)),
	))))
	verifPlace(doc, 1, 0)
	if !verifIsNative() {
		verifOverride("os.ReadFile", verifC14ReadAction)
		verifOverride("os.Stat", verifC14Stat)
	} else {
		verifC14NativeActionDir()
	}
	proj := &Project{root: verifC14Root()}
	cache := NewLocalActionsCache(proj, nil)
	rules := []Rule{NewRuleAction(cache), NewRuleExpression(cache, NewLocalReusableWorkflowCache(proj, verifC14Root(), nil))}
	errs := verifLintNode(doc, rules)
	verifReach("checked")
	missing, undeclared, badOut := 0, 0, 0
	for _, e := range errs {
		switch {
		case strings.Contains(e.Message, "missing input"):
			missing++
		case strings.Contains(e.Message, "is not defined in action"):
			undeclared++
		case strings.Contains(e.Message, "is not defined in object type"):
			badOut++
		default:
			verifCheckf(false, "unexpected-diagnostic", e.Message)
		}
	}
	suppliesIt := supplied != "" && supplied != "other"
	wantMissing := r == 1 && (d == 0 || d == 3) && !suppliesIt
	verifCheck((missing == 1) == wantMissing && missing <= 1, "missing-required-input-verdict-differs-from-the-declaration")
	verifCheck((undeclared == 1) == (supplied == "other") && undeclared <= 1, "undeclared-input-verdict-differs-from-the-declaration")
	verifCheck((badOut >= 1) == (outRef == "nope"), "output-verdict-differs-from-the-declaration")
}
