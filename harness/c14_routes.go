//go:build verif

package actionlint

import (
	"os"
	"sort"
	"strconv"
	"strings"

	"gopkg.in/yaml.v3"
)

// C14 / C02: the interface of a local reusable workflow is obtained by two
// routes — decoded from the callee's file (parseReusableWorkflowMetadata,
// reflection-driven yaml decoding + the UnmarshalYAML methods) when a caller is
// checked first, or written from the callee's parsed syntax tree
// (WriteWorkflowCallEvent) when the callee is checked first. Which one is used
// depends on the order in which files are linted, so both must describe the
// same interface for every declaration.

func verifMetaDigest(m *ReusableWorkflowMetadata) string {
	if m == nil {
		return "<nil>"
	}
	var parts []string
	for k, in := range m.Inputs {
		parts = append(parts, "in "+k+"="+in.Name+" required="+strconv.FormatBool(in.Required)+" type="+in.Type.String())
	}
	for k, s := range m.Secrets {
		parts = append(parts, "secret "+k+"="+s.Name+" required="+strconv.FormatBool(s.Required))
	}
	for k, o := range m.Outputs {
		parts = append(parts, "out "+k+"="+o.Name)
	}
	sort.Strings(parts)
	out := ""
	for _, p := range parts {
		out += p + "; "
	}
	return out
}

func HarnessC14Routes() {
	req := []string{"", "        required: true\n", "        required: false\n", "        required: True\n", "        required: FALSE\n"}
	def := []string{"", "        default: ''\n", "        default: x\n", "        default: 1\n", "        default: true\n", "        default: null\n", "        default: ~\n"}
	typ := []string{"", "        type: string\n", "        type: number\n", "        type: boolean\n", "        type: choice\n"}
	name := []string{"in1", "In1", "IN-1"}[verifChoose("name", 3)]
	r, d, t := verifChoose("required", len(req)), verifChoose("default", len(def)), verifChoose("type", len(typ))
	sr := verifChoose("secretrequired", len(req))
	body := req[r] + def[d] + typ[t]
	if body == "" {
		body = "        description: d\n"
	}
	sbody := req[sr]
	if sbody == "" {
		sbody = "        description: d\n"
	}
	// the whole declaration of the input: a mapping (above), nothing, `~`, an alias
	// of an anchored null, an alias of an anchored mapping
	decl := name + ":\n" + body
	switch verifChoose("shape", 5) {
	case 1:
		decl = name + ":\n"
	case 2:
		decl = name + ": ~\n"
	case 3:
		decl = "zero: &nothing\n      " + name + ": *nothing\n"
	case 4:
		decl = "zero: &m\n" + body + "      " + name + ": *m\n"
	}
	src := "on:\n  workflow_call:\n    inputs:\n      " + decl +
		"    secrets:\n      Sec1:\n" + sbody +
		[]string{"    outputs:\n      Out1:\n        value: v\n", ""}[verifChoose("nooutputs", 2)] +
		"jobs:\n  j:\n    runs-on: ubuntu-latest\n    steps:\n      - run: echo\n"
	// route 1: decoded from the file
	m1, err := parseReusableWorkflowMetadata([]byte(src))
	verifCheck(err == nil, "callee-file-does-not-decode")
	// route 2: written from the syntax tree
	w, perrs := Parse([]byte(src))
	info := strconv.Itoa(len(perrs)) + " errs; " + verifErrTextConc(perrs)
	verifCheck(w != nil, "callee-file-does-not-parse")
	if w == nil || err != nil {
		return
	}
	{
		// a caller that passes every declared input is checked against the interface from the file
		pc := NewLocalReusableWorkflowCache(&Project{root: "/r"}, "/r", nil)
		pc.cache["./.github/workflows/callee.yml"] = m1
		caller := "on: push\njobs:\n  c:\n    uses: ./.github/workflows/callee.yml\n    with:\n      " + name + ": v\n      zero: w\n    secrets:\n      Sec1: s\n"
		verifLintNode(verifParseYAML(caller), []Rule{NewRuleWorkflowCall("/r/.github/workflows/w.yml", pc), NewRuleExpression(NewLocalActionsCache(nil, nil), pc)})
		verifReach("caller-checked")
	}
	if len(perrs) > 0 {
		// actionlint itself rejects this callee (aliases are not accepted in workflow files):
		// only the file route is exercised — it must still produce a complete interface
		_ = verifMetaDigest(m1)
		verifReach("rejected-callee")
		return
	}
	var ev *WorkflowCallEvent
	for _, e := range w.On {
		if c, ok := e.(*WorkflowCallEvent); ok {
			ev = c
		}
	}
	verifCheckf(ev != nil, "no-workflow-call-event", info+" on="+strconv.Itoa(len(w.On)))
	if ev == nil {
		return
	}
	proj := &Project{root: "/r"}
	c := NewLocalReusableWorkflowCache(proj, "/r", nil)
	c.WriteWorkflowCallEvent("/r/.github/workflows/callee.yml", ev)
	m2, ok := c.readCache("./.github/workflows/callee.yml")
	verifCheck(ok && m2 != nil, "syntax-tree-route-wrote-nothing")
	verifReach("compared")
	d1, d2 := verifMetaDigest(m1), verifMetaDigest(m2)
	verifCheckf(d1 == d2, "interface-from-file-differs-from-interface-from-syntax-tree", "file: "+d1+" | tree: "+d2)
	// a caller and a job that reads an undeclared output of the call get the same diagnostics with either interface
	use := func(m *ReusableWorkflowMetadata) string {
		pc := NewLocalReusableWorkflowCache(&Project{root: "/r"}, "/r", nil)
		pc.cache["./.github/workflows/callee.yml"] = m
		caller := "on: push\njobs:\n  c:\n    uses: ./.github/workflows/callee.yml\n    with:\n      " + name + ": v\n    secrets:\n      Sec1: s\n  r:\n    needs: [c]\n    runs-on: ubuntu-latest\n    steps:\n      - run: echo ${{ needs.c.outputs.out1 }} ${{ needs.c.outputs.nope }}\n"
		return verifErrTextConc(verifLintNode(verifParseYAML(caller), []Rule{NewRuleWorkflowCall("/r/.github/workflows/w.yml", pc), NewRuleExpression(NewLocalActionsCache(nil, nil), pc)}))
	}
	u1, u2 := use(m1), use(m2)
	verifCheckf(u1 == u2, "caller-diagnostics-depend-on-the-route-of-the-interface", "file: "+u1+" | tree: "+u2)
}

// ---- local action interface decoded from action.yml ----

var verifC14ActionYAML string

func verifC14ReadAction(name string) ([]byte, error) {
	if name == "/r/act/action.yml" || name == "/r/broken/action.yml" || name == "/r/action.yml" {
		return []byte(verifC14ActionYAML), nil
	}
	return nil, &verifC10Err{"no such file " + name}
}

func verifC14Stat(name string) (os.FileInfo, error) {
	if name == "/r/act/index.js" || name == "/r/broken/index.js" || name == "/r/index.js" {
		return nil, nil
	}
	return nil, &verifC10Err{"no such file " + name}
}

// HarnessC14ActionFile: a local action whose action.yml declares one input
// (declared name in one of three spellings, `required` absent / true / false,
// `default` absent / '' / text / null) and one output; the call site supplies
// the input under one of three spellings, another key, or nothing, and reads
// an output. The metadata is decoded from the file text by the repository's
// own UnmarshalYAML methods; the diagnostics must be: missing input iff
// required: true and no default (null = none) and not supplied; undeclared
// input iff a supplied key matches no declared name after folding; the output
// reference accepted iff it names the declared output after folding.
func HarnessC14ActionFile() {
	req := []string{"", "    required: true\n", "    required: false\n"}
	def := []string{"", "    default: ''\n", "    default: x\n", "    default: null\n"}
	decl := []string{"token", "Token", "TOKEN"}[verifChoose("declared", 3)]
	r, d := verifChoose("required", len(req)), verifChoose("default", len(def))
	// the whole declaration: a mapping, nothing, `~`, an alias of an anchored null
	// (the last three declare an optional input without default)
	shape := verifChoose("shape", 4)
	declText := decl + ":\n    description: d\n" + req[r] + def[d]
	switch shape {
	case 1:
		declText = decl + ":\n"
	case 2:
		declText = decl + ": ~\n"
	case 3:
		declText = "zero: &nothing\n  " + decl + ": *nothing\n"
	}
	verifC14ActionYAML = "name: act\ndescription: d\ninputs:\n  " + declText +
		"outputs:\n  Result:\n    description: d\nruns:\n  using: node20\n  main: index.js\n"
	supplied := []string{"", "token", "TOKEN", "Token", "other"}[verifChoose("supplied", 5)]
	outRef := []string{"result", "RESULT", "nope"}[verifChoose("output", 3)]
	s := yScalar
	// the action lives in a sub-directory or at the repository root
	spec := []string{"./act", "./", "./act/"}[verifChoose("spec", 3)]
	step := []*yaml.Node{s("id"), s("a"), s("uses"), s(spec)}
	var withKey *yaml.Node
	if supplied != "" {
		withKey = s(supplied)
		if verifChoose("withfirst", 2) == 1 {
			step = []*yaml.Node{s("with"), yMap(withKey, s("v")), s("id"), s("a"), s("uses"), s(spec)}
		} else {
			step = append(step, s("with"), yMap(withKey, s("v")))
		}
	}
	ref := s("echo ${{ steps.a.outputs." + outRef + " }}")
	doc := yDoc(yMap(s("on"), s("push"), s("jobs"), yMap(s("j"), yMap(
		s("runs-on"), s("ubuntu-latest"),
		s("steps"), ySeq(yMap(step...), yMap(s("run"), ref)),
	))))
	verifPlace(doc, 1, 0)
	if !verifIsNative() {
		verifOverride("os.ReadFile", verifC14ReadAction)
		verifOverride("os.Stat", verifC14Stat)
	} else {
		verifC14NativeActionDir()
	}
	proj := &Project{root: verifC14Root()}
	cache := NewLocalActionsCache(proj, nil)
	rules := []Rule{NewRuleAction(cache), NewRuleExpression(cache, NewLocalReusableWorkflowCache(proj, verifC14Root(), nil))}
	errs := verifLintNode(doc, rules)
	verifReach("checked")
	missing, undeclared, badOut := 0, 0, 0
	for _, e := range errs {
		switch {
		case strings.Contains(e.Message, "missing input"):
			missing++
		case strings.Contains(e.Message, "is not defined in action"):
			undeclared++
		case strings.Contains(e.Message, "is not defined in object type"):
			badOut++
		default:
			verifCheckf(false, "unexpected-diagnostic", e.Message)
		}
	}
	suppliesIt := supplied != "" && supplied != "other"
	wantMissing := shape == 0 && r == 1 && (d == 0 || d == 3) && !suppliesIt
	verifCheck((missing == 1) == wantMissing && missing <= 1, "missing-required-input-verdict-differs-from-the-declaration")
	verifCheck((undeclared == 1) == (supplied == "other") && undeclared <= 1, "undeclared-input-verdict-differs-from-the-declaration")
	verifCheck((badOut >= 1) == (outRef == "nope"), "output-verdict-differs-from-the-declaration")
}
