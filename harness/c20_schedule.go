//go:build verif

package actionlint

import (
	"os/exec"
	"strconv"
	"strings"
)

// C20, scheduling: Linter.LintFiles with the shellcheck integration enabled on
// F files with S run: steps each, on a virtual file system, the tool replaced
// by a stub that only marks where a process is alive. The interpreter records
// one event list per goroutine (errgroup.Go, semaphore, wait group, mutex,
// process start / end, the point where LintFiles returns); the schedule is then
// a vector of symbolic goroutine ids and the monitors are decided by the solver
// for every interleaving (interp/sched.go).

func verifC20SchedOutput(c *exec.Cmd) ([]byte, error) {
	verifTraceEvent("proc-start")
	verifTraceEvent("proc-end")
	if strings.HasSuffix(c.Path, "pyflakes") {
		return []byte(""), nil
	}
	return []byte("[]"), nil
}

func verifC20Resolve(exe string) (string, []string, error) { return "/bin/" + exe, nil, nil }

func verifC20SchedWorkflow(steps int) string {
	src := "on: push\njobs:\n  j:\n    runs-on: ubuntu-latest\n    steps:\n"
	for k := 0; k < steps; k++ {
		src += "      - run: echo " + strconv.Itoa(k) + "\n"
		if k%2 == 1 {
			src += "        shell: python\n" // odd steps go to pyflakes
		}
	}
	return src
}

// enc = 0: partial-order encoding (time stamps per atomic block); enc = 1: step-indexed
// encoding (one symbolic goroutine id per step) — the two are diffed on the small instance.
// fail = 1: every shellcheck run prints something that is not JSON, so the rule returns a fatal
// error and LintFiles returns it: even then no tool goroutine may be unfinished at the return.
func HarnessC20Schedule(files, steps, cpus, enc, fail int) {
	if verifIsNative() {
		verifC20NativeSchedule(fail == 1, files)
		return
	}
	verifSetNumCPU(cpus)
	verifSetCwd("/r")
	verifC10Files = map[string]string{}
	var args []string
	for f := 0; f < files; f++ {
		p := "/r/.github/workflows/w" + strconv.Itoa(f) + ".yml"
		verifC10Files[p] = verifC20SchedWorkflow(steps)
		args = append(args, p)
	}
	verifC10Cfg = map[string]*Config{}
	verifOverride("os.ReadFile", verifC10ReadFile)
	verifOverride("findProject", verifC10FindProject)
	verifOverride("findProjectRoot", verifC10FindProjectRoot)
	verifOverride("loadRepoConfig", verifC10RepoConfig)
	verifOverride("resolveExternalCommand", verifC20Resolve)
	verifOverride("os/exec.Command", verifC20Command)
	verifOverride("(*os/exec.Cmd).StdinPipe", verifC20StdinPipe)
	verifOverride("io.WriteString", verifC20WriteString)
	verifOverride("(*os/exec.Cmd).Output", verifC20SchedOutput)
	verifOverride("(*os/exec.Cmd).CombinedOutput", verifC20SchedOutput)
	verifC20 = verifC20Cmd{}
	verifC20JSON.fail, verifC20JSON.n = fail == 1, 0
	verifOverride("encoding/json.Unmarshal", verifC20Unmarshal)
	l := verifLinter("/r", "shellcheck", "pyflakes")
	verifTraceStart()
	var errs []*Error
	var err error
	if files == 0 {
		// files = 0: the route for one file given as bytes (stdin, library users): Linter.Lint
		verifC10Tree = map[string]int{"/r/.github/workflows/w0.yml": 2}
		verifOverride("os.Stat", verifC10StatTree)
		errs, err = l.Lint("/r/.github/workflows/w0.yml", []byte(verifC20SchedWorkflow(steps)), nil)
	} else {
		errs, err = l.LintFiles(args, nil)
	}
	verifTraceEvent("return")
	if fail == 1 {
		verifCheck(err != nil, "tool-failure-or-garbage-silently-dropped")
	} else {
		verifCheck(err == nil, "lint-failed")
		verifCheck(len(errs) == 0, "unexpected-diagnostics")
	}
	verifReach("linted")
	verifScheduleCheck(cpus, enc)
}

// HarnessC10Races: the same run with every memory access recorded per
// goroutine: two accesses to one cell by different goroutines, one of them a
// write, not under a common mutex, must be ordered by the synchronisation in
// every schedule (decided by the solver on the schedule model with the two
// accesses inserted). Two CPUs, so that no semaphore degenerates into a lock.
func HarnessC10Races(files, steps int) {
	if verifIsNative() {
		verifC10NativeRaces()
		return
	}
	cpus := 2
	verifSetNumCPU(cpus)
	verifSetCwd("/r")
	verifC10Files = map[string]string{}
	var args []string
	for f := 0; f < files; f++ {
		p := "/r/.github/workflows/w" + strconv.Itoa(f) + ".yml"
		verifC10Files[p] = verifC20SchedWorkflow(steps)
		args = append(args, p)
	}
	verifC10Cfg = map[string]*Config{"/r": {ConfigVariables: []string{"zeta", "alpha"}}}
	verifOverride("os.ReadFile", verifC10ReadFile)
	verifOverride("findProject", verifC10FindProject)
	verifOverride("findProjectRoot", verifC10FindProjectRoot)
	verifOverride("loadRepoConfig", verifC10RepoConfig)
	verifOverride("resolveExternalCommand", verifC20Resolve)
	verifOverride("os/exec.Command", verifC20Command)
	verifOverride("(*os/exec.Cmd).StdinPipe", verifC20StdinPipe)
	verifOverride("io.WriteString", verifC20WriteString)
	verifOverride("(*os/exec.Cmd).Output", verifC20SchedOutput)
	verifOverride("(*os/exec.Cmd).CombinedOutput", verifC20SchedOutput)
	verifC20 = verifC20Cmd{}
	verifC20JSON.fail, verifC20JSON.n = false, 1 // every shellcheck run reports one issue: the callbacks append to the rule's diagnostics
	verifOverride("encoding/json.Unmarshal", verifC20Unmarshal)
	l := verifLinter("/r", "shellcheck", "pyflakes")
	verifTraceStart()
	verifTraceAccesses(true)
	errs, err := l.LintFiles(args, nil)
	verifTraceAccesses(false)
	verifTraceEvent("return")
	verifCheck(err == nil, "lint-failed")
	_ = errs
	verifReach("linted")
	verifRaceCheck()
}
