//go:build verif

package actionlint

import (
	"strings"

	"gopkg.in/yaml.v3"
)

// C08 — names are matched case-insensitively. A clean workflow is written as a
// template whose name occurrences (definitions and uses) are numbered; one
// occurrence (free choice) is spelled with a symbolic letter case (all 2^n
// spellings in one path), every other occurrence in lower case. The variant
// must lint exactly as clean as the all-lower-case baseline.

type verifC08Builder struct {
	target    int // occurrence that gets the symbolic case
	target2   int // second occurrence with a symbolic case of its own (0 = none; occurrence 0 is never a second one)
	n         int // occurrences seen so far
	hit       string
	jsonUpper bool // spell the keys of the JSON literals in mixed case (a definition-site case change)
}

func (b *verifC08Builder) jk(lower, mixed string) string {
	if b.jsonUpper {
		return mixed
	}
	return lower
}

// nm spells one occurrence of a name. The user-chosen names all contain the letters a and z, the
// two ends of the range that case folding has to cover.
func (b *verifC08Builder) nm(base string) string {
	k := b.n
	b.n++
	if k == b.target {
		b.hit = base
		return verifCased("case", base)
	}
	if b.target2 > 0 && k == b.target2 {
		b.hit += " + " + base
		return verifCased("case2", base)
	}
	return base
}

func (b *verifC08Builder) build() *yaml.Node {
	s := yScalar
	step := func(kv ...*yaml.Node) *yaml.Node { return yMap(kv...) }
	wfCall := yMap(
		s("inputs"), yMap(s(b.nm("inaz")), yMap(s("type"), s("string"))),
		s("secrets"), yMap(s(b.nm("secaz")), yMap(s("required"), yTagged("!!bool", "false"))),
		s("outputs"), yMap(s(b.nm("outaz")), yMap(s("value"), s("${{ "+b.nm("jobs")+"."+b.nm("jobaz")+".outputs."+b.nm("jzout")+" }}"))),
	)
	job1 := yMap(
		s("runs-on"), s("ubuntu-latest"),
		s("outputs"), yMap(s(b.nm("jzout")), s("${{ "+b.nm("steps")+"."+b.nm("sidz")+".outputs.x }}")),
		s("strategy"), yMap(s("matrix"), yMap(
			s(b.nm("mzrow")), ySeq(yTagged("!!int", "1"), yTagged("!!int", "2")),
			s(b.nm("mzobj")), ySeq(yMap(s(b.nm("ozkey")), s("p"), s("other"), s("q")), yMap(s(b.nm("ozkey")), s("r"), s("other"), s("q"))),
			s("include"), ySeq(yMap(s(b.nm("mzinc")), yTagged("!!int", "3"))),
			s("exclude"), ySeq(yMap(s(b.nm("mzobj")), yMap(s(b.nm("ozkey")), s("p")))),
		)),
		s("steps"), ySeq(
			step(s("id"), s(b.nm("sidz")), s("run"), s("echo ${{ "+b.nm("inputs")+"."+b.nm("inaz")+" }} ${{ "+b.nm("secrets")+"."+b.nm("secaz")+" }} ${{ "+b.nm("matrix")+"."+b.nm("mzrow")+" }} ${{ matrix."+b.nm("mzinc")+" }} ${{ inputs."+b.nm("dinaz")+" }}")),
			step(s("run"), s("echo ${{ steps."+b.nm("sidz")+".outputs.x }} ${{ "+b.nm("env")+"."+b.nm("envzkey")+" }}"), s("env"), yMap(s(b.nm("envzkey")), s("v"))),
			step(s("run"), s("echo ${{ "+b.nm("github")+"."+b.nm("sha")+" }} ${{ github['"+b.nm("ref")+"'] }} ${{ "+b.nm("contains")+"('a', 'b') }} ${{ "+b.nm("tojson")+"(github."+b.nm("event")+"."+b.nm("repository")+"['"+b.nm("name")+"']) }}")),
			step(s("run"), s("echo ${{ fromJSON('{\""+b.jk("foo", "Foo")+"\": {\""+b.jk("bar", "BAR")+"\": 1}}')."+b.nm("foo")+"."+b.nm("bar")+" }} ${{ fromJSON('{\""+b.jk("foo", "Foo")+"\": 1}')['"+b.nm("foo")+"'] }}")),
			step(s("uses"), s("actions/checkout@v4"), s("with"), yMap(s(b.nm("ref")), s("x"))),
			step(s("run"), s("echo ${{ matrix."+b.nm("mzobj")+"."+b.nm("ozkey")+" }} ${{ matrix.mzobj['"+b.nm("ozkey")+"'] }}")),
		),
	)
	job2 := yMap(
		s("needs"), ySeq(s(b.nm("jobaz"))),
		s("runs-on"), s("ubuntu-latest"),
		s("steps"), ySeq(step(s("run"), s("echo ${{ "+b.nm("needs")+"."+b.nm("jobaz")+".outputs."+b.nm("jzout")+" }}"))),
	)
	return yDoc(yMap(
		s("on"), yMap(s("workflow_call"), wfCall, s("workflow_dispatch"), yMap(s("inputs"), yMap(s(b.nm("dinaz")), yMap(s("type"), s("string"))))),
		s("jobs"), yMap(s(b.nm("jobaz")), job1, s("jobtwo"), job2),
	))
}

func verifC08Occurrences() int {
	b := &verifC08Builder{target: -1}
	b.build()
	return b.n
}

func verifSamePositions(x, y []*Error) bool {
	if len(x) != len(y) {
		return false
	}
	for i := range x {
		// both lists are sorted by position (stable), so equal multisets are equal sequences
		if x[i].Line != y[i].Line || x[i].Column != y[i].Column || x[i].Kind != y[i].Kind {
			return false
		}
	}
	return true
}

// HarnessC08Case: the all-lower-case spelling is linted first; then occurrence
// k gets a symbolic letter case (or, for k = total, the keys of the JSON
// literals are written in mixed case); the diagnostics must sit at the same
// positions with the same kinds.
func HarnessC08Case() {
	total := verifC08Occurrences()
	base := (&verifC08Builder{target: -1}).build()
	verifPlace(base, 1, 0)
	e0 := verifLintNode(base, verifRulesNoDeprecated())
	k := verifChoose("occurrence", total+1)
	b := &verifC08Builder{target: k}
	if k == total {
		b.target, b.jsonUpper, b.hit = -1, true, "JSON literal keys"
	}
	doc := b.build()
	verifPlace(doc, 1, 0)
	errs := verifLintNode(doc, verifRulesNoDeprecated())
	verifReach("variant")
	verifCheckf(len(e0) == 0, "baseline-not-clean", verifErrTextConc(e0))
	verifCheckf(verifSamePositions(e0, errs), "case-change-changes-diagnostics", b.hit+": "+verifFirstKind(errs))
}

func verifFirstKind(errs []*Error) string {
	if len(errs) == 0 {
		return ""
	}
	return errs[0].Kind
}

func verifErrTextConc(errs []*Error) string {
	var sb strings.Builder
	for _, e := range errs {
		sb.WriteString(e.Kind + ": " + e.Message + " | ")
	}
	return sb.String()
}

// HarnessC08Keywords: true / false / null and string-literal contents stay
// case-sensitive: a keyword spelled with any upper-case letter is not the
// keyword (it is an undefined variable), and string comparison operands keep
// their case.
func HarnessC08Keywords() {
	kw := []string{"true", "false", "null"}[verifChoose("keyword", 3)]
	name := verifCased("case", kw)
	verifAssume(name != kw)
	src := name + "}}"
	tree, err := NewExprParser().Parse(NewExprLexer(src))
	verifCheck(err == nil, "parse-failed")
	_, isVar := tree.(*VariableNode)
	verifReach("keyword-variant")
	verifCheck(isVar, "upper-case-keyword-treated-as-literal")
	lit := verifCased("lit", "abc")
	tree2, err2 := NewExprParser().Parse(NewExprLexer("'" + lit + "'}}"))
	verifCheck(err2 == nil, "parse-failed")
	if sn, ok := tree2.(*StringNode); ok {
		verifCheck(sn.Value == lit, "string-literal-case-changed")
	} else {
		verifCheck(false, "string-literal-not-a-string-node")
	}
}

// HarnessC08Diagnosed: a workflow whose lower-case spelling has diagnostics
// that depend on names being matched (a wrongly typed input and an unknown
// secret of a local reusable workflow call, a wrongly typed dispatch-input
// default, an undeclared action input next to a declared one): spelling the
// call-site names with a symbolic letter case must keep every diagnostic where
// it was.
func HarnessC08Diagnosed() {
	proj := &Project{root: "/r"}
	mk := func(cased bool) []*Error {
		nm := func(tag, base string) string {
			if cased {
				return verifCased(tag, base)
			}
			return base
		}
		cache := NewLocalReusableWorkflowCache(proj, "/r", nil)
		cache.cache["./.github/workflows/callee.yml"] = &ReusableWorkflowMetadata{
			Inputs: ReusableWorkflowMetadataInputs{
				"retry_count": {Name: "retry_count", Required: true, Type: NumberType{}},
				"flag":        {Name: "flag", Required: false, Type: BoolType{}},
			},
			Secrets: ReusableWorkflowMetadataSecrets{"token": {Name: "token", Required: true}},
			Outputs: ReusableWorkflowMetadataOutputs{"result": {Name: "result"}},
		}
		s := yScalar
		doc := yDoc(yMap(s("on"), s("push"), s("jobs"), yMap(
			s("call"), yMap(s("uses"), s("./.github/workflows/callee.yml"),
				s("with"), yMap(s(nm("k1", "retry_count")), s("${{ 'three' }}"), s(nm("k2", "flag")), s("${{ 'x' }}")),
				s("secrets"), yMap(s(nm("k3", "token")), s("v"))),
			s(nm("k6", "loop")), yMap(s("needs"), ySeq(s("loop")), s("runs-on"), s("ubuntu-latest"), s("steps"), ySeq(yMap(s("run"), s("echo ${{ needs.loop.result }}")))),
			s("use"), yMap(s("needs"), ySeq(s("call")), s("runs-on"), s("ubuntu-latest"), s("steps"), ySeq(
				yMap(s("run"), s("echo ${{ needs.call.outputs."+nm("k4", "result")+" }} ${{ needs.call.outputs.nope }}")),
				yMap(s("uses"), s("actions/checkout@v4"), s("with"), yMap(s(nm("k5", "ref")), s("x"), s("nope"), s("y"), s(nm("k12", "args")), s("z"), s(nm("k13", "entrypoint")), s("e"))),
				yMap(s("run"), s("echo ${{ github.event.issue['"+nm("k14", "title")+"'] }} ${{ github['"+nm("k15", "head_ref")+"'] }}")),
				yMap(s("id"), s(nm("k10", "get_tag")), s("run"), s("echo")),
				yMap(s("id"), s(nm("k11", "get_tag")), s("run"), s("echo")),
				yMap(s("run"), s("echo ${{ "+nm("k7", "startswith")+"(github.event.pull_request.title, 'x') }} ${{ "+nm("k8", "contains")+"(github.event.issue.body, 'y') }} ${{ github.event.issue.title }}")),
			)),
			s("lab"), yMap(s("runs-on"), s("${{ matrix.os }}"), s("strategy"), yMap(s("matrix"), yMap(s("include"), ySeq(yMap(s(nm("k9", "os")), s("ubuntu-oldest"))))),
				s("steps"), ySeq(yMap(s("run"), s("echo")))),
		)))
		verifPlace(doc, 1, 0)
		la := NewLocalActionsCache(nil, nil)
		return verifLintNode(doc, []Rule{NewRuleWorkflowCall("/r/.github/workflows/w.yml", cache), NewRuleExpression(la, cache), NewRuleAction(la), NewRuleJobNeeds(), NewRuleRunnerLabel(), NewRuleID()})
	}
	e0 := mk(false)
	errs := mk(true)
	verifReach("variant")
	verifCheckf(len(e0) >= 3, "baseline-lost-its-diagnostics", verifErrTextConc(e0))
	verifCheckf(verifSamePositions(e0, errs), "case-change-changes-diagnostics", verifErrTextConc(errs))
}

// HarnessC08CasePairs: as HarnessC08Case with two occurrences (every pair
// k1 < k2 of the template's name occurrences) spelled with independent
// symbolic letter cases, e.g. a definition and one of its uses in different
// mixed spellings.
func HarnessC08CasePairs() {
	total := verifC08Occurrences()
	base := (&verifC08Builder{target: -1}).build()
	verifPlace(base, 1, 0)
	e0 := verifLintNode(base, verifRulesNoDeprecated())
	k1 := verifChoose("first", total-1)
	k2 := k1 + 1 + verifChoose("second", total-1)
	if k2 >= total {
		verifReach("variant")
		return
	}
	b := &verifC08Builder{target: k1, target2: k2}
	doc := b.build()
	verifPlace(doc, 1, 0)
	errs := verifLintNode(doc, verifRulesNoDeprecated())
	verifReach("variant")
	verifCheckf(len(e0) == 0, "baseline-not-clean", verifErrTextConc(e0))
	verifCheckf(verifSamePositions(e0, errs), "case-change-changes-diagnostics", b.hit+": "+verifFirstKind(errs))
}

// verifUpperExprs upper-cases everything inside the ${{ }} placeholders of s
// except string literals and the keywords true / false / null.
func verifUpperExprs(s string) string {
	out := []byte{}
	i := 0
	for i < len(s) {
		k := strings.Index(s[i:], "${{")
		if k < 0 {
			out = append(out, s[i:]...)
			break
		}
		out = append(out, s[i:i+k+3]...)
		i += k + 3
		// inside a placeholder up to the closing }} (quotes may hide one)
		for i < len(s) {
			c := s[i]
			if c == '\'' {
				j := i + 1
				for j < len(s) {
					if s[j] == '\'' {
						if j+1 < len(s) && s[j+1] == '\'' {
							j += 2
							continue
						}
						break
					}
					j++
				}
				if j >= len(s) {
					j = len(s) - 1
				}
				out = append(out, s[i:j+1]...)
				i = j + 1
				continue
			}
			if c == '}' && i+1 < len(s) && s[i+1] == '}' {
				out = append(out, '}', '}')
				i += 2
				break
			}
			if c >= 'a' && c <= 'z' || c >= 'A' && c <= 'Z' || c == '_' {
				j := i
				for j < len(s) && (s[j] >= 'a' && s[j] <= 'z' || s[j] >= 'A' && s[j] <= 'Z' || s[j] >= '0' && s[j] <= '9' || s[j] == '_' || s[j] == '-') {
					j++
				}
				w := s[i:j]
				if w != "true" && w != "false" && w != "null" {
					w = strings.ToUpper(w)
				}
				out = append(out, w...)
				i = j
				continue
			}
			if c >= '0' && c <= '9' {
				j := i
				for j < len(s) && (s[j] >= '0' && s[j] <= '9' || s[j] >= 'a' && s[j] <= 'z' || s[j] >= 'A' && s[j] <= 'Z' || s[j] == '.' || s[j] == '+' || s[j] == '-') {
					j++
				}
				out = append(out, s[i:j]...) // number literals stay as written
				i = j
				continue
			}
			out = append(out, c)
			i++
		}
	}
	return string(out)
}

func verifUpperExprsIn(n *yaml.Node) int {
	c := 0
	if n.Kind == yaml.ScalarNode && strings.Contains(n.Value, "${{") {
		v := verifUpperExprs(n.Value)
		if v != n.Value {
			n.Value = v
			c++
		}
	}
	for _, ch := range n.Content {
		c += verifUpperExprsIn(ch)
	}
	return c
}

// HarnessC08Testdata: every clean workflow of the repository's testdata
// (compiled in at run time) with all names inside all ${{ }} placeholders
// — contexts, properties, functions — written in upper case (string literals,
// number literals and true / false / null untouched) still lints clean.
func HarnessC08Testdata() {
	src := verifCorpusFiles[verifChoose("file", len(verifCorpusFiles))]
	if len(verifLintNode(verifParseYAML(src), verifRulesNoDeprecated())) > 0 {
		verifReach("not-clean")
		return
	}
	doc := verifParseYAML(src)
	if verifUpperExprsIn(doc) == 0 {
		verifReach("no-placeholder")
		return
	}
	errs := verifLintNode(doc, verifRulesNoDeprecated())
	verifReach("variant")
	verifCheckf(len(errs) == 0, "case-change-changes-diagnostics", verifErrTextConc(errs))
}
