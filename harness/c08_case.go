//go:build verif

package actionlint

import (
	"strings"

	"gopkg.in/yaml.v3"
)

// C08 — names are matched case-insensitively. A clean workflow is written as a
// template whose name occurrences (definitions and uses) are numbered; one
// occurrence (free choice) is spelled with a symbolic letter case (all 2^n
// spellings in one path), every other occurrence in lower case. The variant
// must lint exactly as clean as the all-lower-case baseline.

type verifC08Builder struct {
	target    int // occurrence that gets the symbolic case
	n         int // occurrences seen so far
	hit       string
	jsonUpper bool // spell the keys of the JSON literals in mixed case (a definition-site case change)
}

func (b *verifC08Builder) jk(lower, mixed string) string {
	if b.jsonUpper {
		return mixed
	}
	return lower
}

// nm spells one occurrence of a name.
func (b *verifC08Builder) nm(base string) string {
	k := b.n
	b.n++
	if k == b.target {
		b.hit = base
		return verifCased("case", base)
	}
	return base
}

func (b *verifC08Builder) build() *yaml.Node {
	s := yScalar
	step := func(kv ...*yaml.Node) *yaml.Node { return yMap(kv...) }
	wfCall := yMap(
		s("inputs"), yMap(s(b.nm("inone")), yMap(s("type"), s("string"))),
		s("secrets"), yMap(s(b.nm("secone")), yMap(s("required"), yTagged("!!bool", "false"))),
		s("outputs"), yMap(s(b.nm("outone")), yMap(s("value"), s("${{ "+b.nm("jobs")+"."+b.nm("jobone")+".outputs."+b.nm("jout")+" }}"))),
	)
	job1 := yMap(
		s("runs-on"), s("ubuntu-latest"),
		s("outputs"), yMap(s(b.nm("jout")), s("${{ "+b.nm("steps")+"."+b.nm("sid")+".outputs.x }}")),
		s("strategy"), yMap(s("matrix"), yMap(
			s(b.nm("mrow")), ySeq(yTagged("!!int", "1"), yTagged("!!int", "2")),
			s(b.nm("mobj")), ySeq(yMap(s(b.nm("okey")), s("p"), s("other"), s("q")), yMap(s(b.nm("okey")), s("r"), s("other"), s("q"))),
			s("include"), ySeq(yMap(s(b.nm("minc")), yTagged("!!int", "3"))),
			s("exclude"), ySeq(yMap(s(b.nm("mobj")), yMap(s(b.nm("okey")), s("p")))),
		)),
		s("steps"), ySeq(
			step(s("id"), s(b.nm("sid")), s("run"), s("echo ${{ "+b.nm("inputs")+"."+b.nm("inone")+" }} ${{ "+b.nm("secrets")+"."+b.nm("secone")+" }} ${{ "+b.nm("matrix")+"."+b.nm("mrow")+" }} ${{ matrix."+b.nm("minc")+" }} ${{ inputs."+b.nm("dinone")+" }}")),
			step(s("run"), s("echo ${{ steps."+b.nm("sid")+".outputs.x }} ${{ "+b.nm("env")+"."+b.nm("envkey")+" }}"), s("env"), yMap(s(b.nm("envkey")), s("v"))),
			step(s("run"), s("echo ${{ "+b.nm("github")+"."+b.nm("sha")+" }} ${{ github['"+b.nm("ref")+"'] }} ${{ "+b.nm("contains")+"('a', 'b') }} ${{ "+b.nm("tojson")+"(github."+b.nm("event")+"."+b.nm("repository")+"['"+b.nm("name")+"']) }}")),
			step(s("run"), s("echo ${{ fromJSON('{\""+b.jk("foo", "Foo")+"\": {\""+b.jk("bar", "BAR")+"\": 1}}')."+b.nm("foo")+"."+b.nm("bar")+" }} ${{ fromJSON('{\""+b.jk("foo", "Foo")+"\": 1}')['"+b.nm("foo")+"'] }}")),
			step(s("uses"), s("actions/checkout@v4"), s("with"), yMap(s(b.nm("ref")), s("x"))),
			step(s("run"), s("echo ${{ matrix."+b.nm("mobj")+"."+b.nm("okey")+" }} ${{ matrix.mobj['"+b.nm("okey")+"'] }}")),
		),
	)
	job2 := yMap(
		s("needs"), ySeq(s(b.nm("jobone"))),
		s("runs-on"), s("ubuntu-latest"),
		s("steps"), ySeq(step(s("run"), s("echo ${{ "+b.nm("needs")+"."+b.nm("jobone")+".outputs."+b.nm("jout")+" }}"))),
	)
	return yDoc(yMap(
		s("on"), yMap(s("workflow_call"), wfCall, s("workflow_dispatch"), yMap(s("inputs"), yMap(s(b.nm("dinone")), yMap(s("type"), s("string"))))),
		s("jobs"), yMap(s(b.nm("jobone")), job1, s("jobtwo"), job2),
	))
}

func verifC08Occurrences() int {
	b := &verifC08Builder{target: -1}
	b.build()
	return b.n
}

func verifSamePositions(x, y []*Error) bool {
	if len(x) != len(y) {
		return false
	}
	for i := range x {
		// both lists are sorted by position (stable), so equal multisets are equal sequences
		if x[i].Line != y[i].Line || x[i].Column != y[i].Column || x[i].Kind != y[i].Kind {
			return false
		}
	}
	return true
}

// HarnessC08Case: the all-lower-case spelling is linted first; then occurrence
// k gets a symbolic letter case (or, for k = total, the keys of the JSON
// literals are written in mixed case); the diagnostics must sit at the same
// positions with the same kinds.
func HarnessC08Case() {
	total := verifC08Occurrences()
	base := (&verifC08Builder{target: -1}).build()
	verifPlace(base, 1, 0)
	e0 := verifLintNode(base, verifRulesNoDeprecated())
	k := verifChoose("occurrence", total+1)
	b := &verifC08Builder{target: k}
	if k == total {
		b.target, b.jsonUpper, b.hit = -1, true, "JSON literal keys"
	}
	doc := b.build()
	verifPlace(doc, 1, 0)
	errs := verifLintNode(doc, verifRulesNoDeprecated())
	verifReach("variant")
	verifCheckf(len(e0) == 0, "baseline-not-clean", verifErrTextConc(e0))
	verifCheckf(verifSamePositions(e0, errs), "case-change-changes-diagnostics", b.hit+": "+verifFirstKind(errs))
}

func verifFirstKind(errs []*Error) string {
	if len(errs) == 0 {
		return ""
	}
	return errs[0].Kind
}

func verifErrTextConc(errs []*Error) string {
	var sb strings.Builder
	for _, e := range errs {
		sb.WriteString(e.Kind + ": " + e.Message + " | ")
	}
	return sb.String()
}

// HarnessC08Keywords: true / false / null and string-literal contents stay
// case-sensitive: a keyword spelled with any upper-case letter is not the
// keyword (it is an undefined variable), and string comparison operands keep
// their case.
func HarnessC08Keywords() {
	kw := []string{"true", "false", "null"}[verifChoose("keyword", 3)]
	name := verifCased("case", kw)
	verifAssume(name != kw)
	src := name + "}}"
	tree, err := NewExprParser().Parse(NewExprLexer(src))
	verifCheck(err == nil, "parse-failed")
	_, isVar := tree.(*VariableNode)
	verifReach("keyword-variant")
	verifCheck(isVar, "upper-case-keyword-treated-as-literal")
	lit := verifCased("lit", "abc")
	tree2, err2 := NewExprParser().Parse(NewExprLexer("'" + lit + "'}}"))
	verifCheck(err2 == nil, "parse-failed")
	if sn, ok := tree2.(*StringNode); ok {
		verifCheck(sn.Value == lit, "string-literal-case-changed")
	} else {
		verifCheck(false, "string-literal-not-a-string-node")
	}
}

// HarnessC08Diagnosed: a workflow whose lower-case spelling has diagnostics
// that depend on names being matched (a wrongly typed input and an unknown
// secret of a local reusable workflow call, a wrongly typed dispatch-input
// default, an undeclared action input next to a declared one): spelling the
// call-site names with a symbolic letter case must keep every diagnostic where
// it was.
func HarnessC08Diagnosed() {
	proj := &Project{root: "/r"}
	mk := func(cased bool) []*Error {
		nm := func(tag, base string) string {
			if cased {
				return verifCased(tag, base)
			}
			return base
		}
		cache := NewLocalReusableWorkflowCache(proj, "/r", nil)
		cache.cache["./.github/workflows/callee.yml"] = &ReusableWorkflowMetadata{
			Inputs: ReusableWorkflowMetadataInputs{
				"retry_count": {Name: "retry_count", Required: true, Type: NumberType{}},
				"flag":        {Name: "flag", Required: false, Type: BoolType{}},
			},
			Secrets: ReusableWorkflowMetadataSecrets{"token": {Name: "token", Required: true}},
			Outputs: ReusableWorkflowMetadataOutputs{"result": {Name: "result"}},
		}
		s := yScalar
		doc := yDoc(yMap(s("on"), s("push"), s("jobs"), yMap(
			s("call"), yMap(s("uses"), s("./.github/workflows/callee.yml"),
				s("with"), yMap(s(nm("k1", "retry_count")), s("${{ 'three' }}"), s(nm("k2", "flag")), s("${{ 'x' }}")),
				s("secrets"), yMap(s(nm("k3", "token")), s("v"))),
			s(nm("k6", "loop")), yMap(s("needs"), ySeq(s("loop")), s("runs-on"), s("ubuntu-latest"), s("steps"), ySeq(yMap(s("run"), s("echo ${{ needs.loop.result }}")))),
			s("use"), yMap(s("needs"), ySeq(s("call")), s("runs-on"), s("ubuntu-latest"), s("steps"), ySeq(
				yMap(s("run"), s("echo ${{ needs.call.outputs."+nm("k4", "result")+" }} ${{ needs.call.outputs.nope }}")),
				yMap(s("uses"), s("actions/checkout@v4"), s("with"), yMap(s(nm("k5", "ref")), s("x"), s("nope"), s("y"))),
				yMap(s("run"), s("echo ${{ "+nm("k7", "startswith")+"(github.event.pull_request.title, 'x') }} ${{ "+nm("k8", "contains")+"(github.event.issue.body, 'y') }} ${{ github.event.issue.title }}")),
			)),
			s("lab"), yMap(s("runs-on"), s("${{ matrix.os }}"), s("strategy"), yMap(s("matrix"), yMap(s("include"), ySeq(yMap(s(nm("k9", "os")), s("ubuntu-oldest"))))),
				s("steps"), ySeq(yMap(s("run"), s("echo")))),
		)))
		verifPlace(doc, 1, 0)
		la := NewLocalActionsCache(nil, nil)
		return verifLintNode(doc, []Rule{NewRuleWorkflowCall("/r/.github/workflows/w.yml", cache), NewRuleExpression(la, cache), NewRuleAction(la), NewRuleJobNeeds(), NewRuleRunnerLabel()})
	}
	e0 := mk(false)
	errs := mk(true)
	verifReach("variant")
	verifCheckf(len(e0) >= 3, "baseline-lost-its-diagnostics", verifErrTextConc(e0))
	verifCheckf(verifSamePositions(e0, errs), "case-change-changes-diagnostics", verifErrTextConc(errs))
}
