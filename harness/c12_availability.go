//go:build verif

package actionlint

import "strings"

var verifAllContexts = []string{"github", "env", "vars", "job", "jobs", "steps", "runner", "secrets", "strategy", "matrix", "needs", "inputs"}
var verifSpecialFuncs = []string{"always", "cancelled", "failure", "success", "hashfiles"}

func verifSameSet(got []string, want []string) bool {
	if len(got) != len(want) {
		return false
	}
	for _, w := range want {
		found := false
		for _, g := range got {
			if g == w {
				found = true
			}
		}
		if !found {
			return false
		}
	}
	return true
}

// HarnessC12Table: WorkflowKeyAvailability on a fully symbolic key of length L
// agrees with the committed copy of the documentation table; any other string
// yields no contexts and no functions.
func HarnessC12Table(maxL int) {
	L := 1 + verifChoose("len", maxL)
	K := verifSymString("key", L)
	ctxs, fns := WorkflowKeyAvailability(K)
	for _, row := range verifAvailTable {
		if len(row.key) == L && K == row.key {
			verifReach("table-key")
			verifCheck(verifSameSet(ctxs, row.ctxs), "contexts-differ-from-table")
			verifCheck(verifSameSet(fns, row.fns), "special-functions-differ-from-table")
			return
		}
	}
	verifReach("other-key")
	verifCheck(len(ctxs) == 0 && len(fns) == 0, "non-table-key-has-availability")
}

// verifTableRowFor: longest prefix of the generalised syntax path that is a
// workflow key of the documentation table (nil: the position is absent).
func verifTableRowFor(path string) *verifAvailRow {
	var best *verifAvailRow
	for i := range verifAvailTable {
		r := &verifAvailTable[i]
		if path == r.key || strings.HasPrefix(path, r.key+".") {
			if best == nil || len(r.key) > len(best.key) {
				best = r
			}
		}
	}
	return best
}

func verifIn(set []string, s string) bool {
	for _, x := range set {
		if x == s {
			return true
		}
	}
	return false
}

// verifCased spells base with a symbolic letter case per letter.
func verifCased(tag string, base string) string {
	mask := verifSymString(tag, len(base))
	b := make([]byte, len(base))
	for i := 0; i < len(base); i++ {
		c := base[i]
		up := verifAnd(mask[i]&1 == 1, verifAnd('a' <= c, c <= 'z'))
		b[i] = verifIteByte(up, c-0x20, c)
	}
	return string(b)
}

func verifEmbed(how int, x string) string {
	switch how {
	case 0:
		return "${{ " + x + " }}"
	case 1:
		return "${{ !" + x + " }}"
	case 2:
		return "${{ " + x + " == 1 }}"
	case 3:
		return "${{ format('{0}', " + x + ") }}"
	case 4:
		return "pre ${{ 1 }} mid ${{ fromJSON('[1]')[" + x + "] }} post"
	case 5:
		return "${{ " + x + " && 'a' || 'b' }}"
	case 6:
		return "${{ (" + x + " || 'a') && 'b' }}"
	default:
		return "${{ !(" + x + " && 'a') && 'b' }}"
	}
}

func verifCountMsg(errs []*Error, n int, needle string, line int) int {
	c := 0
	for _, e := range errs {
		if e.Line == line && strings.Contains(e.Message, needle) {
			c++
		}
	}
	return c
}

// HarnessC12Site: at every scalar value position of the skeleton, every
// context name (symbolic letter case, five embeddings) and every special
// function is reported as not allowed iff the documentation table does not
// list it for the workflow key of that position.
func HarnessC12Site(funcs bool) {
	doc, sites := verifFullSkeletonSites()
	site := sites.scalars[verifChoose("scalar", len(sites.scalars))]
	if verifExempt(site.ctx, site.key) || site.ctx == cxOn {
		return // not an expression template
	}
	row := verifTableRowFor(site.path)
	if !funcs {
		base := verifAllContexts[verifChoose("context", len(verifAllContexts))]
		name := verifCased("case", base)
		site.node.Tag, site.node.Style = "!!str", 0
		site.node.Value = verifEmbed(verifChoose("embedding", 8), name+".x")
		verifPlace(doc, 1, 0)
		errs := verifLintNode(doc, verifRulesNoDeprecated())
		for _, e := range errs {
			if e.Kind == "syntax-check" {
				verifReach("embedding-rejected-by-parser") // e.g. text around ${{ }} at a bool/number position
				return
			}
		}
		n := verifCountMsg(errs, 0, "is not allowed here", site.node.Line)
		// `jobs` only exists in on.workflow_call.outputs.<id>.value; elsewhere it is
		// reported as an undefined variable, which also names it at this position
		undef := verifCountMsg(errs, 0, "undefined variable", site.node.Line)
		allowed := row != nil && verifIn(row.ctxs, base)
		if allowed {
			verifReach("context-allowed")
			verifCheckf(n == 0, "allowed-context-reported", site.path+": "+base)
		} else {
			verifReach("context-not-allowed")
			verifCheckf(n >= 1 || (base == "jobs" && undef >= 1), "disallowed-context-not-reported", site.path+": "+base)
		}
		return
	}
	base := verifSpecialFuncs[verifChoose("function", len(verifSpecialFuncs))]
	name := verifCased("case", base)
	arg := ""
	if base == "hashfiles" {
		arg = "'x'"
	}
	site.node.Tag, site.node.Style = "!!str", 0
	site.node.Value = verifEmbed([]int{0, 1, 2, 3, 5, 6, 7}[verifChoose("embedding", 7)], name+"("+arg+")")
	verifPlace(doc, 1, 0)
	errs := verifLintNode(doc, verifRulesNoDeprecated())
	n := verifCountMsg(errs, 0, "calling function", site.node.Line)
	allowed := row != nil && verifIn(row.fns, base)
	if allowed {
		verifReach("function-allowed")
		verifCheckf(n == 0, "allowed-function-reported", site.path+": "+base)
	} else {
		verifReach("function-not-allowed")
		verifCheckf(n >= 1, "disallowed-function-not-reported", site.path+": "+base)
	}
}

// HarnessC12Testdata: HarnessC12Site over the repository's own clean example
// workflows (compiled in from testdata at run time): at every scalar value of
// every such file, `${{ <context>.x }}` / `${{ <function>() }}` is reported as
// not allowed iff the table does not list it for that position's workflow key.
func HarnessC12Testdata(funcs bool) {
	src := verifCorpusFiles[verifChoose("file", len(verifCorpusFiles))]
	if len(verifLintNode(verifParseYAML(src), verifRulesNoDeprecated())) > 0 {
		verifReach("not-clean")
		return
	}
	doc, sites := verifSkeletonSitesOf(src)
	if len(sites.scalars) == 0 {
		return
	}
	site := sites.scalars[verifChoose("scalar", len(sites.scalars))]
	if site.node.Tag == "!!null" || verifExempt(site.ctx, site.key) || site.ctx == cxOn {
		return // not an expression template
	}
	row := verifTableRowFor(site.path)
	site.node.Tag, site.node.Style = "!!str", 0
	if !funcs {
		base := verifAllContexts[verifChoose("context", len(verifAllContexts))]
		site.node.Value = "${{ " + base + ".x }}"
		errs := verifLintNode(doc, verifRulesNoDeprecated())
		for _, e := range errs {
			if e.Kind == "syntax-check" {
				verifReach("embedding-rejected-by-parser")
				return
			}
		}
		n := verifCountMsg(errs, 0, "is not allowed here", site.node.Line)
		undef := verifCountMsg(errs, 0, "undefined variable", site.node.Line)
		if row != nil && verifIn(row.ctxs, base) {
			verifReach("context-allowed")
			verifCheckf(n == 0, "allowed-context-reported", site.path+": "+base)
		} else {
			verifReach("context-not-allowed")
			verifCheckf(n >= 1 || (base == "jobs" && undef >= 1), "disallowed-context-not-reported", site.path+": "+base)
		}
		return
	}
	base := verifSpecialFuncs[verifChoose("function", len(verifSpecialFuncs))]
	arg := ""
	if base == "hashfiles" {
		arg = "'x'"
	}
	site.node.Value = "${{ " + base + "(" + arg + ") }}"
	errs := verifLintNode(doc, verifRulesNoDeprecated())
	n := verifCountMsg(errs, 0, "calling function", site.node.Line)
	if row != nil && verifIn(row.fns, base) {
		verifReach("function-allowed")
		verifCheckf(n == 0, "allowed-function-reported", site.path+": "+base)
	} else {
		verifReach("function-not-allowed")
		verifCheckf(n >= 1, "disallowed-function-not-reported", site.path+": "+base)
	}
}
