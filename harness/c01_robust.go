//go:build verif

package actionlint

// C01 H1: lexer + parser + semantic checker on arbitrary bytes: no panic, no
// hang, (tree, nil) xor (nil, err), error offset within the input.
func HarnessC01Expr(L int, sema bool) {
	src := verifSymString("src", L) + "}}"
	lex := NewExprLexer(src)
	p := NewExprParser()
	tree, err := p.Parse(lex)
	verifCheck((tree == nil) != (err == nil), "tree-xor-error")
	if err != nil {
		verifReach("reject")
		verifCheck(0 <= err.Offset && err.Offset <= L+2, "error-offset-in-input")
		verifCheck(err.Line >= 1 && err.Column >= 1, "error-line-col-positive")
		return
	}
	verifReach("accept")
	if sema {
		c := NewExprSemanticsChecker(true, nil)
		_, errs := c.Check(tree)
		for _, e := range errs {
			verifCheck(0 <= e.Offset && e.Offset <= L+2, "sema-error-offset-in-input")
		}
	}
}
