//go:build verif

package actionlint

import (
	"io"

	"gopkg.in/yaml.v3"
)

// C01 H1: lexer + parser + semantic checker on arbitrary bytes: no panic, no
// hang, (tree, nil) xor (nil, err), error offset within the input.
func HarnessC01Expr(L int, sema bool) {
	src := verifSymString("src", L) + "}}"
	lex := NewExprLexer(src)
	p := NewExprParser()
	tree, err := p.Parse(lex)
	verifCheck((tree == nil) != (err == nil), "tree-xor-error")
	if err != nil {
		verifReach("reject")
		verifCheck(0 <= err.Offset && err.Offset <= L+2, "error-offset-in-input")
		verifCheck(err.Line >= 1 && err.Column >= 1, "error-line-col-positive")
		return
	}
	verifReach("accept")
	if sema {
		c := NewExprSemanticsChecker(true, nil)
		_, errs := c.Check(tree)
		for _, e := range errs {
			verifCheck(0 <= e.Offset && e.Offset <= L+2, "sema-error-offset-in-input")
		}
	}
}

// HarnessC01ExprOpen: the same on text that does not end in "}}" - what the lexer is handed for
// a placeholder that is never closed (`${{ '`) and for an `if:` condition written without ${{ }}:
// the input ends inside whatever token was being read.
func HarnessC01ExprOpen(L int) {
	src := verifSymString("src", L)
	lex := NewExprLexer(src)
	p := NewExprParser()
	tree, err := p.Parse(lex)
	verifCheck((tree == nil) != (err == nil), "tree-xor-error")
	if err != nil {
		verifReach("reject")
		verifCheck(0 <= err.Offset && err.Offset <= L, "error-offset-in-input")
		verifCheck(err.Line >= 1 && err.Column >= 1, "error-line-col-positive")
		return
	}
	verifReach("accept")
}

// ---- H3: scalar / section decoders on one arbitrary YAML node ----

var verifTagLens = []int{5, 6, 7, 0, 8, 11}

// verifSymNode builds a node of symbolic kind (one of the five kinds yaml.v3
// produces inside a document), symbolic tag text (every tag of the lengths of
// the standard tags), symbolic style bits and symbolic scalar text.
func verifSymNode(prefix string, vlen int, depth int) *yaml.Node {
	k := verifSymInt(prefix + "kind")
	verifAssume(verifOr(verifOr(k == int(yaml.SequenceNode), k == int(yaml.MappingNode)), verifOr(k == int(yaml.ScalarNode), verifOr(k == int(yaml.AliasNode), k == int(yaml.DocumentNode)))))
	tl := verifTagLens[verifChoose(prefix+"taglen", len(verifTagLens))]
	n := &yaml.Node{Kind: yaml.Kind(k), Tag: verifSymString(prefix+"tag", tl), Value: verifSymString(prefix+"val", vlen),
		Style: yaml.Style(verifSymByte(prefix + "style")), Line: 3, Column: 5}
	if depth > 0 {
		nc := verifChoose(prefix+"children", 3)
		if nc > 0 {
			verifAssumeNote(verifAnd(k != int(yaml.ScalarNode), k != int(yaml.AliasNode)), "scalar and alias nodes have no children (yaml.v3 invariant)")
		}
		if nc == 1 {
			// yaml.v3 only builds mapping nodes with key/value pairs
			verifAssumeNote(k != int(yaml.MappingNode), "mapping nodes have an even number of children (yaml.v3 invariant)")
		}
		for c := 0; c < nc; c++ {
			n.Content = append(n.Content, verifSymNode(prefix+"c"+string(rune('0'+c)), vlen, depth-1))
		}
	}
	return n
}

// HarnessC01Decoders: every scalar/section decoder of the workflow parser on
// one arbitrary node: no panic, and a nil result only together with a diagnostic
// where the decoder promises one.
func HarnessC01Decoders(which int, vlen int) {
	n := verifSymNode("n", vlen, 1)
	p := &parser{}
	pos := &Pos{1, 1}
	switch which {
	case 0:
		p.parseBool(n)
	case 1:
		p.parseInt(n)
	case 2:
		p.parseFloat(n)
	case 3:
		p.parseTimeoutMinutes(n)
	case 4:
		p.parseMaxParallel(n)
	case 5:
		p.parseString(n, false)
	case 6:
		p.parseExpression(n, "x")
		p.mayParseExpression(n)
	case 7:
		p.parseStringSequence("s", n, false, false)
		p.parseStringOrStringSequence("s", n, true, true)
	case 8:
		p.parseMapping("m", n, false, false)
		p.parseMapping("m", n, true, true)
	case 9:
		p.parseRawYAMLValue(n)
	case 10:
		p.parseEnv(n)
		p.parsePermissions(pos, n)
	case 11:
		p.parseConcurrency(pos, n)
		p.parseEnvironment(pos, n)
	case 12:
		p.parseRunsOn(n)
	case 13:
		p.parseEvents(pos, n)
	case 14:
		p.parseMatrix(pos, n)
	case 15:
		p.parseContainer("container", pos, n)
		p.parseServices(n)
	case 16:
		p.parseStep(n)
	case 17:
		p.parseJob(&String{"j", false, pos}, n)
	case 18:
		p.parse(n)
	}
	verifReach("returned")
	for _, e := range p.errors {
		verifCheck(e.Line >= 1 && e.Column >= 1, "diagnostic-position-positive")
	}
}

const verifNumDecoders = 19

// ---- H4: one node of the full skeleton replaced by an arbitrary node ----

func verifAllNodes(n *yaml.Node, out *[]*yaml.Node) {
	*out = append(*out, n)
	for _, c := range n.Content {
		verifAllNodes(c, out)
	}
}

// HarnessC01Sweep: at every node position of the full skeleton (keys, values,
// sequence elements, sections) a node of symbolic kind/tag with representative
// text replaces the original; parser and (with rules) every in-process rule
// must not panic.
func HarnessC01Sweep(rules bool, deep bool) { verifC01Sweep(rules, deep, false) }

// HarnessC01SweepMatrix: the same with all rules, restricted to the node
// positions below strategy.matrix (raw values: nested sequences and mappings).
func HarnessC01SweepMatrix() { verifC01Sweep(true, false, true) }

func verifFindKey(n *yaml.Node, key string) *yaml.Node {
	if n.Kind == yaml.MappingNode {
		for k := 0; k+1 < len(n.Content); k += 2 {
			if n.Content[k].Value == key {
				return n.Content[k+1]
			}
		}
	}
	for _, c := range n.Content {
		if r := verifFindKey(c, key); r != nil {
			return r
		}
	}
	return nil
}

func verifC01Sweep(rules bool, deep bool, matrixOnly bool) {
	doc, _ := verifFullSkeletonSites()
	var nodes []*yaml.Node
	if matrixOnly {
		verifAllNodes(verifFindKey(doc.Content[0], "matrix"), &nodes)
	} else {
		verifAllNodes(doc.Content[0], &nodes)
	}
	target := nodes[verifChoose("node", len(nodes))]
	vals := []string{"x", "nan"}
	if deep {
		vals = []string{"x", "nan", "", "${{ x }}", "1", "true", "${{ ]] }}"}
	}
	k := verifSymInt("kind")
	verifAssume(verifOr(verifOr(k == int(yaml.SequenceNode), k == int(yaml.MappingNode)), verifOr(k == int(yaml.ScalarNode), k == int(yaml.AliasNode))))
	ntl := 4
	if deep {
		ntl = len(verifTagLens)
	}
	tl := verifTagLens[verifChoose("taglen", ntl)]
	target.Kind = yaml.Kind(k)
	target.Tag = verifSymString("tag", tl)
	target.Value = vals[verifChoose("value", len(vals))]
	nch := 2
	if deep {
		nch = 4
	}
	switch verifChoose("children", nch) {
	case 0:
		target.Content = nil
	case 1:
		// keep the original children
		if len(target.Content) > 0 {
			verifAssumeNote(verifAnd(k != int(yaml.ScalarNode), k != int(yaml.AliasNode)), "scalar and alias nodes have no children (yaml.v3 invariant)")
		}
		if len(target.Content)%2 == 1 {
			verifAssumeNote(k != int(yaml.MappingNode), "mapping nodes have an even number of children (yaml.v3 invariant)")
		}
	case 2:
		verifAssumeNote(k == int(yaml.SequenceNode), "one child: a sequence")
		target.Content = []*yaml.Node{yScalar("a")}
	case 3:
		verifAssumeNote(verifOr(k == int(yaml.SequenceNode), k == int(yaml.MappingNode)), "two children: sequence or mapping")
		target.Content = []*yaml.Node{yScalar("a"), yScalar("${{ x }}")}
	}
	verifPlace(doc, 1, 0)
	w, perrs := verifParseOnly(doc)
	if rules {
		verifVisit(w, perrs, verifRules())
	}
	verifReach("returned")
}

// ---- H5: rendering a diagnostic with arbitrary position against arbitrary source ----

func HarnessC01Render(L int) {
	src := []byte(verifSymString("source", L))
	e := &Error{Message: "m", Filepath: "f", Line: verifSymInt("line"), Column: verifSymInt("col"), Kind: "k"}
	f := e.GetTemplateFields(src)
	verifReach("fields")
	verifCheck(f.Line == e.Line && f.Column == e.Column, "fields-keep-position")
	e.PrettyPrint(io.Discard, src)
	verifReach("printed")
}

// HarnessC17Smoke (H2): the glob validators on arbitrary bytes: no panic, no
// hang, columns within the pattern.
func HarnessC17Smoke(L int, isRef bool) {
	pat := verifSymString("pat", L)
	var errs []InvalidGlobPattern
	if isRef {
		errs = ValidateRefGlob(pat)
	} else {
		errs = ValidatePathGlob(pat)
	}
	verifReach("returned")
	for _, e := range errs {
		verifCheck(0 <= e.Column && e.Column <= L, "column-in-pattern")
	}
}

var verifDeprecatedTemplates = []string{"::set-output name=foo::bar", "::save-state name=foo::bar", "::set-env name=foo::bar", "::add-path::/x", "::set-output name=a::b ::add-path::c"}

// HarnessC01RunScript: run: scripts that use the workflow-command syntax in
// every letter-case spelling (symbolic case on every letter), through all
// in-process rules including deprecated-commands: no panic.
func HarnessC01RunScript() {
	t := verifDeprecatedTemplates[verifChoose("template", len(verifDeprecatedTemplates))]
	script := "echo \"" + verifCased("case", t) + "\""
	s := yScalar
	doc := yDoc(yMap(s("on"), s("push"), s("jobs"), yMap(s("j"), yMap(s("runs-on"), s("ubuntu-latest"), s("steps"), ySeq(yMap(s("run"), s(script)))))))
	verifPlace(doc, 1, 0)
	errs := verifLintNode(doc, verifRules())
	verifReach("returned")
	for _, e := range errs {
		verifCheck(e.Line >= 1 && e.Column >= 1, "diagnostic-position-positive")
	}
}

// HarnessC01Cron: the schedule check (robfig/cron's parser is interpreted from
// source) on a fully symbolic cron specification behind a concrete prefix.
func HarnessC01Cron(L int, prefix int) {
	pre := []string{"", "TZ=", "CRON_TZ=", "@", "@every ", "TZ=U ", "* * * * "}[prefix]
	spec := pre + verifSymString("spec", L)
	rule := NewRuleEvents()
	rule.checkCron(&String{Value: spec, Pos: &Pos{1, 1}})
	for _, e := range rule.Errs() {
		verifReach("reported")
		verifCheck(verifNot(verifMsgHasRawNewline(e.Message)), "raw-line-break-in-message")
	}
	verifReach("checked")
}

// HarnessC01Uses: a step's `uses:` value (job-level `uses:` with job != 0) of L
// arbitrary bytes behind a concrete prefix, through the parser and the action /
// workflow-call rules: the {owner}/{repo}[/{path}]@{ref}, docker:// and ./ splitters
// slice the text at separators found anywhere in it.
func HarnessC01Uses(L int, prefix int, job int) {
	pre := []string{"", "./", "docker://", "a/b", "a@"}[prefix]
	spec := pre + verifSymString("uses", L)
	s := yScalar
	var doc *yaml.Node
	if job != 0 {
		doc = yDoc(yMap(s("on"), s("push"), s("jobs"), yMap(s("j"), yMap(s("uses"), s(spec)))))
	} else {
		doc = yDoc(yMap(s("on"), s("push"), s("jobs"), yMap(s("j"), yMap(s("runs-on"), s("ubuntu-latest"), s("steps"), ySeq(yMap(s("uses"), s(spec)))))))
	}
	verifPlace(doc, 1, 0)
	la := NewLocalActionsCache(nil, nil)
	lw := NewLocalReusableWorkflowCache(nil, "/", nil)
	errs := verifLintNode(doc, []Rule{NewRuleAction(la), NewRuleWorkflowCall("/w.yml", lw)})
	verifReach("returned")
	for _, e := range errs {
		verifCheck(e.Line >= 1 && e.Column >= 1, "diagnostic-position-positive")
	}
}

// HarnessC01NoProject: several files that belong to no repository, one of them
// with a local reusable workflow call (valid or with a ref): LintFiles does not panic.
func HarnessC01NoProject() {
	if verifIsNative() {
		verifReach("returned")
		return // the virtual file system exists only under the interpreter; a panic is reproduced by the stored replay's stack
	}
	uses := []string{"./x.yml@ref", "./x.yml", "./", "./a/../x.yml@v1"}[verifChoose("uses", 4)]
	verifC10Files = map[string]string{
		"/x/a.yml": "on: push\njobs:\n  j:\n    runs-on: ubuntu-latest\n    steps:\n      - run: echo\n",
		"/x/b.yml": "on: push\njobs:\n  j:\n    uses: " + uses + "\n",
	}
	verifC10Cfg = map[string]*Config{}
	verifSetCwd("/x")
	verifOverride("os.ReadFile", verifC10ReadFile)
	verifOverride("findProject", verifC10FindProject)
	verifOverride("findProjectRoot", verifC10FindProjectRoot)
	verifOverride("loadRepoConfig", verifC10RepoConfig)
	l := verifLinter("/x", "", "")
	_, err := l.LintFiles([]string{"/x/a.yml", "/x/b.yml"}, nil)
	verifCheck(err == nil, "lint-failed")
	verifReach("returned")
}

// HarnessC01Config: the configuration channel. An actionlint.yaml whose
// entries have unusual but legal YAML shapes (nothing, `~`, an alias of an
// anchored null, an empty mapping / sequence, a scalar where a mapping is
// expected) is decoded by ParseConfig; when it is accepted, it is used: path
// configurations are looked up for a file and applied to a diagnostic, and the
// rules that read the configuration run on a workflow. Never a panic.
func HarnessC01Config() {
	shapes := []string{"\n    ignore:\n      - x\n", "\n", " ~\n", " *nothing\n", " {}\n", " []\n", " text\n", "\n    ignore:\n", "\n    ignore: ~\n", "\n    ignore: [~]\n"}
	sec := verifChoose("section", 3)
	sh := shapes[verifChoose("shape", len(shapes))]
	src := "self-hosted-runner:\n  labels:\n    - &nothing\n"
	switch sec {
	case 0:
		src = "self-hosted-runner:\n  labels:\n    - lbl\nanchors: &nothing\npaths:\n  \"**/*.yml\":" + sh
	case 1:
		src = "anchors: &nothing\nself-hosted-runner:" + sh
	case 2:
		src = "anchors: &nothing\nconfig-variables:" + sh
	}
	cfg, err := ParseConfig([]byte(src))
	verifReach("parsed")
	if err != nil || cfg == nil {
		return
	}
	verifReach("accepted")
	l := verifLinter("", "", "")
	errs := []*Error{{Message: "x marks", Line: 1, Column: 1, Kind: "k"}}
	l.filterErrors(errs, cfg.PathConfigs("dir/w.yml"))
	doc := verifParseYAML("on: push\njobs:\n  j:\n    runs-on: [self-hosted, lbl, other]\n    steps:\n      - run: echo ${{ vars.V }}\n")
	rules := verifRulesNoDeprecated()
	for _, r := range rules {
		r.SetConfig(cfg)
	}
	verifLintNode(doc, rules)
}
