//go:build verif

package actionlint

import "strconv"

// C04, token level: the real ExprParser runs on a stub lexer that hands out N
// tokens of symbolic kind followed by END. Acceptance is compared with the
// documented grammar (DESIGN.md Appendix A.2) given as a bounded CYK table
// whose entries are circuit-style boolean terms over the same kinds; accepted
// trees are compared with a reference precedence parser modulo
// re-association inside one precedence level.

type verifC04State struct {
	kinds []int
	pos   int
	n     int
}

var verifC04 verifC04State

func verifC04StubNext(lex *ExprLexer) *Token {
	st := &verifC04
	if st.pos >= st.n {
		return &Token{Kind: TokenKindEnd, Value: "", Offset: st.n, Line: 1, Column: st.n + 1}
	}
	i := st.pos
	st.pos++
	k := st.kinds[i]
	// the token text depends on the kind without a branch: equally long texts
	// selected byte-wise (a fork here would split every token five ways)
	isInt, isFloat, isStr := k == int(TokenKindInt), k == int(TokenKindFloat), k == int(TokenKindString)
	pick := func(a, b, c, d byte) byte {
		return verifIteByte(isInt, a, verifIteByte(isFloat, b, verifIteByte(isStr, c, d)))
	}
	v := string([]byte{pick('1', '1', '\'', 'a'), pick('2', '.', 's', 'b'), pick('3', '5', '\'', 'c')})
	return &Token{Kind: TokenKind(k), Value: v, Offset: i, Line: 1, Column: i + 1}
}

func verifC04KindName(k TokenKind) string { return "tok" }

// verifC04Source renders token kinds as source text (one space between tokens).
func verifC04Source(ks []int) string {
	s := ""
	for _, k := range ks {
		switch TokenKind(k) {
		case TokenKindIdent:
			s += "abc "
		case TokenKindInt:
			s += "123 "
		case TokenKindFloat:
			s += "1.5 "
		case TokenKindString:
			s += "'s' "
		default:
			s += TokenKind(k).String() + " "
		}
	}
	return s
}

func verifIsOneOf(k int, ks ...TokenKind) bool {
	r := false
	for _, x := range ks {
		r = verifOr(r, k == int(x))
	}
	return r
}

// verifCYK returns D[Or][0][n] for the token kinds ks.
func verifCYK(ks []int) bool {
	n := len(ks)
	mk := func() [][]bool {
		t := make([][]bool, n+1)
		for i := range t {
			t[i] = make([]bool, n+1)
		}
		return t
	}
	prim, args, post, un, cmp, and, or := mk(), mk(), mk(), mk(), mk(), mk(), mk()
	isCmpOp := func(k int) bool {
		return verifIsOneOf(k, TokenKindLess, TokenKindLessEq, TokenKindGreater, TokenKindGreaterEq, TokenKindEq, TokenKindNotEq)
	}
	for l := 1; l <= n; l++ {
		for i := 0; i+l <= n; i++ {
			j := i + l
			// Primary
			p := false
			if l == 1 {
				p = verifIsOneOf(ks[i], TokenKindIdent, TokenKindInt, TokenKindFloat, TokenKindString)
			}
			if l >= 3 {
				p = verifOr(p, verifAnd(verifAnd(ks[i] == int(TokenKindLeftParen), ks[j-1] == int(TokenKindRightParen)), or[i+1][j-1]))
				call := verifAnd(verifAnd(ks[i] == int(TokenKindIdent), ks[i+1] == int(TokenKindLeftParen)), ks[j-1] == int(TokenKindRightParen))
				if l == 3 {
					p = verifOr(p, call)
				} else {
					p = verifOr(p, verifAnd(call, args[i+2][j-1]))
				}
			}
			prim[i][j] = p
			// Postfix
			q := p
			for m := i + 1; m < j; m++ {
				suf := false
				if j == m+2 {
					suf = verifAnd(ks[m] == int(TokenKindDot), verifIsOneOf(ks[m+1], TokenKindIdent, TokenKindStar))
				}
				if j-m >= 3 {
					suf = verifOr(suf, verifAnd(verifAnd(ks[m] == int(TokenKindLeftBracket), ks[j-1] == int(TokenKindRightBracket)), or[m+1][j-1]))
				}
				q = verifOr(q, verifAnd(post[i][m], suf))
			}
			post[i][j] = q
			// Unary
			u := q
			if l >= 2 {
				u = verifOr(u, verifAnd(ks[i] == int(TokenKindNot), un[i+1][j]))
			}
			un[i][j] = u
			// Cmp
			c := u
			for m := i + 1; m+1 < j; m++ {
				c = verifOr(c, verifAnd(verifAnd(un[i][m], isCmpOp(ks[m])), cmp[m+1][j]))
			}
			cmp[i][j] = c
			// And
			a := c
			for m := i + 1; m+1 < j; m++ {
				a = verifOr(a, verifAnd(verifAnd(cmp[i][m], ks[m] == int(TokenKindAnd)), and[m+1][j]))
			}
			and[i][j] = a
			// Or
			o := a
			for m := i + 1; m+1 < j; m++ {
				o = verifOr(o, verifAnd(verifAnd(and[i][m], ks[m] == int(TokenKindOr)), or[m+1][j]))
			}
			or[i][j] = o
			// Args
			g := o
			for m := i + 1; m+1 < j; m++ {
				g = verifOr(g, verifAnd(verifAnd(or[i][m], ks[m] == int(TokenKindComma)), args[m+1][j]))
			}
			args[i][j] = g
		}
	}
	if n == 0 {
		return false
	}
	return or[0][n]
}

// ---- canonical forms (n-ary per precedence level) ----

func verifCanonNode(n ExprNode) string {
	switch x := n.(type) {
	case *VariableNode:
		return "id"
	case *NullNode:
		return "id"
	case *BoolNode:
		return "id"
	case *IntNode:
		return "int"
	case *FloatNode:
		return "float"
	case *StringNode:
		return "str"
	case *ObjectDerefNode:
		return "dot(" + verifCanonNode(x.Receiver) + ")"
	case *ArrayDerefNode:
		return "star(" + verifCanonNode(x.Receiver) + ")"
	case *IndexAccessNode:
		return "idx(" + verifCanonNode(x.Operand) + "," + verifCanonNode(x.Index) + ")"
	case *NotOpNode:
		return "not(" + verifCanonNode(x.Operand) + ")"
	case *FuncCallNode:
		s := "call("
		for i, a := range x.Args {
			if i > 0 {
				s += ","
			}
			s += verifCanonNode(a)
		}
		return s + ")"
	case *CompareOpNode:
		// flatten the right spine (parenthesised right operands are flattened too: the
		// statement fixes precedence, not associativity)
		s := "cmp(" + verifCanonNode(x.Left)
		var r ExprNode = x
		for {
			c, ok := r.(*CompareOpNode)
			if !ok {
				break
			}
			if c != x {
				s += "," + verifCanonNode(c.Left)
			}
			s += "," + c.Kind.String()
			r = c.Right
		}
		return s + "," + verifCanonNode(r) + ")"
	case *LogicalOpNode:
		tag := "and("
		if x.Kind == LogicalOpNodeKindOr {
			tag = "or("
		}
		s := tag
		var r ExprNode = x
		first := true
		for {
			c, ok := r.(*LogicalOpNode)
			if !ok || c.Kind != x.Kind {
				break
			}
			if !first {
				s += ","
			}
			first = false
			s += verifCanonNode(c.Left)
			r = c.Right
		}
		return s + "," + verifCanonNode(r) + ")"
	}
	return "?"
}

// reference precedence parser over (by now pinned) token kinds; it trusts the
// CYK verdict that the sequence is a sentence and only builds the shape.
type verifRefParser struct {
	ks  []int
	pos int
}

func (p *verifRefParser) peek() int {
	if p.pos < len(p.ks) {
		return p.ks[p.pos]
	}
	return int(TokenKindEnd)
}

func (p *verifRefParser) is(k TokenKind) bool { return p.peek() == int(k) }

func (p *verifRefParser) or() string {
	s := p.and()
	if !p.is(TokenKindOr) {
		return s
	}
	out := "or(" + s
	for p.is(TokenKindOr) {
		p.pos++
		out += "," + p.and()
	}
	return out + ")"
}

func (p *verifRefParser) and() string {
	s := p.cmp()
	if !p.is(TokenKindAnd) {
		return s
	}
	out := "and(" + s
	for p.is(TokenKindAnd) {
		p.pos++
		out += "," + p.cmp()
	}
	return out + ")"
}

func (p *verifRefParser) cmpName() string {
	switch {
	case p.is(TokenKindLess):
		return "<"
	case p.is(TokenKindLessEq):
		return "<="
	case p.is(TokenKindGreater):
		return ">"
	case p.is(TokenKindGreaterEq):
		return ">="
	case p.is(TokenKindEq):
		return "=="
	case p.is(TokenKindNotEq):
		return "!="
	}
	return ""
}

func (p *verifRefParser) cmp() string {
	s := p.unary()
	op := p.cmpName()
	if op == "" {
		return s
	}
	out := "cmp(" + s
	for op != "" {
		p.pos++
		out += "," + op + "," + p.unary()
		op = p.cmpName()
	}
	return out + ")"
}

func (p *verifRefParser) unary() string {
	if p.is(TokenKindNot) {
		p.pos++
		return "not(" + p.unary() + ")"
	}
	return p.postfix()
}

func (p *verifRefParser) postfix() string {
	s := p.primary()
	for {
		switch {
		case p.is(TokenKindDot):
			p.pos++
			if p.is(TokenKindStar) {
				s = "star(" + s + ")"
			} else {
				s = "dot(" + s + ")"
			}
			p.pos++
		case p.is(TokenKindLeftBracket):
			p.pos++
			idx := p.or()
			p.pos++ // ]
			s = "idx(" + s + "," + idx + ")"
		default:
			return s
		}
	}
}

func (p *verifRefParser) primary() string {
	switch {
	case p.is(TokenKindInt):
		p.pos++
		return "int"
	case p.is(TokenKindFloat):
		p.pos++
		return "float"
	case p.is(TokenKindString):
		p.pos++
		return "str"
	case p.is(TokenKindLeftParen):
		p.pos++
		s := p.or()
		p.pos++ // )
		return s
	case p.is(TokenKindIdent):
		p.pos++
		if !p.is(TokenKindLeftParen) {
			return "id"
		}
		p.pos++
		s := "call("
		first := true
		for !p.is(TokenKindRightParen) && p.pos < len(p.ks) {
			if !first {
				p.pos++ // ,
				s += ","
			}
			first = false
			s += p.or()
		}
		p.pos++ // )
		return s + ")"
	}
	p.pos++
	return "?"
}

// HarnessC04Parse: N tokens of symbolic kind.
func HarnessC04Parse(N int) { verifC04Parse(nil, N, nil) }

// verifC04Contexts: concrete token sequences around N symbolic tokens.
var verifC04Contexts = [][2][]TokenKind{
	{{TokenKindIdent, TokenKindLeftBracket}, {TokenKindRightBracket}},                                                              // a[ _ ]
	{{TokenKindIdent, TokenKindLeftParen}, {TokenKindRightParen}},                                                                  // f( _ )
	{{TokenKindIdent, TokenKindLeftParen, TokenKindIdent, TokenKindComma}, {TokenKindRightParen}},                                  // f(a, _ )
	{{TokenKindLeftParen}, {TokenKindRightParen, TokenKindDot, TokenKindIdent}},                                                    // ( _ ).a
	{{TokenKindIdent, TokenKindEq}, {TokenKindAnd, TokenKindIdent}},                                                                // a == _ && b
	{{TokenKindNot}, {TokenKindOr, TokenKindIdent}},                                                                                // ! _ || b
	{{TokenKindIdent, TokenKindDot, TokenKindStar, TokenKindLeftBracket}, {TokenKindRightBracket}},                                 // a.*[ _ ]
	{{TokenKindIdent, TokenKindLeftBracket, TokenKindIdent, TokenKindLeftBracket}, {TokenKindRightBracket, TokenKindRightBracket}}, // a[b[ _ ]]
}

// HarnessC04ParseIn: N symbolic tokens inside one of 8 concrete contexts (longer sentences than
// the fully symbolic runs reach: index operands, call arguments, nesting).
func HarnessC04ParseIn(ctx, N int) {
	c := verifC04Contexts[ctx]
	verifC04Parse(c[0], N, c[1])
}

func verifC04Parse(pre []TokenKind, nsym int, post []TokenKind) {
	N := len(pre) + nsym + len(post)
	st := &verifC04
	st.kinds = make([]int, N)
	st.pos, st.n = 0, N
	for i := range st.kinds {
		switch {
		case i < len(pre):
			st.kinds[i] = int(pre[i])
		case i >= len(pre)+nsym:
			st.kinds[i] = int(post[i-len(pre)-nsym])
		default:
			k := verifSymInt("k" + strconv.Itoa(i-len(pre)))
			verifAssume(verifAnd(int(TokenKindIdent) <= k, k <= int(TokenKindComma)))
			st.kinds[i] = k
		}
	}
	var lex *ExprLexer
	if verifIsNative() {
		// native replay goes through the public API: the kinds are rendered to
		// source text and lexed by the real lexer
		lex = NewExprLexer(verifC04Source(st.kinds) + "}}")
	} else {
		verifOverride("(*ExprLexer).Next", verifC04StubNext)
		// message formatting is not the subject here: naming the kinds of the remaining
		// tokens would fork 20 ways per token
		verifOverride("(TokenKind).String", verifC04KindName)
		lex = NewExprLexer("")
	}
	p := NewExprParser()
	tree, err := p.Parse(lex)
	inLang := verifCYK(st.kinds)
	verifCheck((tree == nil) != (err == nil), "tree-xor-error")
	if err != nil {
		verifReach("reject")
		verifCheck(verifNot(inLang), "sentence-of-the-grammar-rejected")
		if !verifIsNative() {
			verifCheck(0 <= err.Offset && err.Offset <= N, "error-offset-within-input")
		}
		return
	}
	verifReach("accept")
	verifCheck(inLang, "non-sentence-accepted")
	ref := &verifRefParser{ks: st.kinds}
	want := ref.or()
	got := verifCanonNode(tree)
	verifCheckf(got == want, "tree-shape-differs-from-precedence", got+" vs "+want)
}
