//go:build verif

package actionlint

import (
	"errors"
	"io"
	"os"
	"os/exec"
	"strconv"
	"strings"
)

// ---- (a) sanitizeExpressionsInScript ----

// HarnessC20Sanitize: the sanitised script has the same length, bytes outside
// ${{ }} spans are unchanged, bytes inside are '_'; a span runs from the
// leftmost ${{ to the next }} after it.
func HarnessC20Sanitize(L int) {
	verifC20CheckSanitized(verifSymString("script", L))
}

// HarnessC20SanitizeIn: a placeholder whose inside is L arbitrary bytes (line
// breaks included), with text before and after it and a second placeholder.
func HarnessC20SanitizeIn(L int) {
	verifC20CheckSanitized("a ${{" + verifSymString("inside", L) + "}} b ${{ c }}\n")
}

func verifC20CheckSanitized(src string) {
	L := len(src)
	out := sanitizeExpressionsInScript(src)
	verifCheck(len(out) == L, "sanitised-script-length-differs")
	if len(out) != L {
		return
	}
	// nextClose[i]: index of the first "}}" starting at or after i (L if none)
	nextClose := make([]int, L+2)
	nextClose[L], nextClose[L+1] = L, L
	for i := L - 1; i >= 0; i-- {
		nextClose[i] = nextClose[i+1]
		if i+1 < L {
			nextClose[i] = verifIteInt(verifAnd(src[i] == '}', src[i+1] == '}'), i, nextClose[i+1])
		}
	}
	until := 0 // end (exclusive) of the current span
	for i := 0; i < L; i++ {
		inside := i < until
		if i+2 < L {
			opens := verifAnd(verifAnd(src[i] == '$', src[i+1] == '{'), src[i+2] == '{')
			start := verifAnd(verifNot(inside), verifAnd(opens, nextClose[i] < L))
			until = verifIteInt(start, nextClose[i]+2, until)
			inside = verifOr(inside, start)
		}
		verifCheck(out[i] == verifIteByte(inside, '_', src[i]), "sanitised-byte-differs-from-specification")
	}
	verifReach("checked")
}

// ---- (b) cmdExecution.run fault matrix ----

type verifC20Cmd struct {
	pipeErr, writeErr bool
	class             int // 0 ok, 1 *exec.ExitError, 2 other error
	code              int
	stdoutLen         int
	combined          bool
	calledOutput      int
	calledCombined    int
	pipeUsed          bool // the code under test asked for a stdin pipe
	pipeCap           int  // bytes the pipe buffers while nobody reads
}

var verifC20 verifC20Cmd

type verifC20Pipe struct{}

func (verifC20Pipe) Write(p []byte) (int, error) {
	// a write to a pipe whose reader (the tool) is not running yet blocks once the buffer is full
	if verifC20.calledOutput+verifC20.calledCombined == 0 && len(p) > verifC20.pipeCap {
		verifCheck(false, "tool-never-started-because-the-stdin-pipe-is-full")
	}
	if verifC20.writeErr {
		return 0, errors.New("broken pipe")
	}
	return len(p), nil
}
func (verifC20Pipe) Close() error { return nil }

func verifC20Command(name string, arg ...string) *exec.Cmd { return &exec.Cmd{Path: name} }

func verifC20StdinPipe(c *exec.Cmd) (io.WriteCloser, error) {
	verifC20.pipeUsed = true
	if verifC20.pipeErr {
		return nil, errors.New("pipe failed")
	}
	return verifC20Pipe{}, nil
}

func verifC20WriteString(w io.Writer, s string) (int, error) { return w.Write([]byte(s)) }

func verifC20Result() ([]byte, error) {
	out := []byte("xyz")[:verifC20.stdoutLen]
	switch verifC20.class {
	case 1:
		return out, &exec.ExitError{Stderr: []byte("e")}
	case 2:
		return nil, errors.New("exec: not started")
	}
	return out, nil
}

func verifC20Output(c *exec.Cmd) ([]byte, error) {
	verifC20.calledOutput++
	return verifC20Result()
}

func verifC20Combined(c *exec.Cmd) ([]byte, error) {
	verifC20.calledCombined++
	return verifC20Result()
}

func verifC20ExitCode(p *os.ProcessState) int { return verifC20.code }

// HarnessC20Run: cmdExecution.run with the process replaced by a stub whose
// outcome is symbolic: pipe / write failure, result class, 64-bit exit code,
// stdout length, combined-output mode.
func HarnessC20Run() {
	st := &verifC20
	*st = verifC20Cmd{}
	st.pipeErr, st.writeErr = verifSymBool("pipeErr"), verifSymBool("writeErr")
	st.class = verifChoose("class", 3)
	st.code = verifSymInt("code")
	st.stdoutLen = verifChoose("stdoutLen", 3)
	st.combined = verifSymBool("combined")
	st.pipeCap = []int{65536, 4}[verifChoose("pipecap", 2)] // the script below has 6 bytes
	var out []byte
	var err error
	if verifIsNative() {
		verifAssume(!st.pipeErr && !st.writeErr) // cannot be forced on a real pipe
		if st.class == 1 && st.code >= 0 {
			verifAssume(st.code%256 != 0) // a real exit status is 1..255
		}
		out, err = verifC20NativeRun(st)
	} else {
		verifOverride("os/exec.Command", verifC20Command)
		verifOverride("(*os/exec.Cmd).StdinPipe", verifC20StdinPipe)
		verifOverride("io.WriteString", verifC20WriteString)
		verifOverride("(*os/exec.Cmd).Output", verifC20Output)
		verifOverride("(*os/exec.Cmd).CombinedOutput", verifC20Combined)
		verifOverride("(*os.ProcessState).ExitCode", verifC20ExitCode)
		e := &cmdExecution{cmd: "tool", args: nil, stdin: "script", combineOutput: st.combined}
		out, err = e.run()
	}
	verifReach("returned")
	started := verifOr(!st.pipeUsed, verifAnd(verifNot(st.pipeErr), verifNot(st.writeErr))) // pipe faults only matter if a pipe is used
	fail := verifNot(started)
	if st.class == 2 {
		fail = true
	}
	if st.class == 1 {
		fail = verifOr(fail, verifOr(st.code < 0, st.stdoutLen == 0))
	}
	if err != nil {
		verifReach("error")
		verifCheck(fail, "usable-tool-result-turned-into-error")
		verifCheck(out == nil, "output-returned-together-with-error")
	} else {
		verifReach("ok")
		verifCheck(verifNot(fail), "tool-failure-not-reported-as-error")
		verifCheck(len(out) == st.stdoutLen, "stdout-not-returned-unchanged")
	}
	if !verifIsNative() && verifAnd(started, true) && err == nil {
		verifCheck(st.calledOutput+st.calledCombined == 1, "process-not-run-exactly-once")
	}
}

// ---- (c) callbacks ----

type verifC20Rec struct {
	scripts   []string
	callbacks []func([]byte, error) error
}

var verifC20R verifC20Rec

func verifC20RecRun(cmd *externalCommand, args []string, stdin string, cb func([]byte, error) error) {
	verifC20R.scripts = append(verifC20R.scripts, stdin)
	verifC20R.callbacks = append(verifC20R.callbacks, cb)
}

var verifC20JSON struct {
	fail bool
	n    int
}

func verifC20Unmarshal(data []byte, v interface{}) error {
	if verifC20JSON.fail {
		return errors.New("invalid character")
	}
	p := v.(*[]shellcheckError)
	for k := 0; k < verifC20JSON.n; k++ {
		*p = append(*p, shellcheckError{Line: verifSymInt("line" + strconv.Itoa(k)), Column: verifSymInt("col" + strconv.Itoa(k)), Level: "warning", Code: 2000 + k, Message: "msg."})
	}
	return nil
}

// HarnessC20Shellcheck: the callback of the shellcheck rule on every tool
// outcome: a tool error or non-JSON output is a fatal error; otherwise exactly
// one diagnostic per issue, at the step's run: key.
func HarnessC20Shellcheck() {
	if verifIsNative() {
		verifC20ShellcheckNative()
		return
	}
	verifC20R = verifC20Rec{}
	verifOverride("(*externalCommand).run", verifC20RecRun)
	verifOverride("encoding/json.Unmarshal", verifC20Unmarshal)
	rule := newRuleShellcheck(&externalCommand{exe: "shellcheck"})
	pos := &Pos{7, 9}
	rule.runShellcheck("echo ${{ x }}", "bash", pos)
	verifCheck(len(verifC20R.callbacks) == 1, "script-not-passed-to-the-tool-exactly-once")
	if len(verifC20R.callbacks) != 1 {
		return
	}
	verifCheck(verifC20R.scripts[0] == "set -eo pipefail\necho ________\n", "script-not-sanitised-as-documented")
	toolErr := verifSymBool("toolErr")
	verifC20JSON.fail = verifSymBool("garbage")
	verifC20JSON.n = verifChoose("issues", 4)
	var e error
	if toolErr {
		e = errors.New("exit status 2")
	}
	err := verifC20R.callbacks[0]([]byte("[]"), e)
	verifReach("callback")
	if err != nil {
		verifReach("fatal")
		verifCheck(verifOr(toolErr, verifC20JSON.fail), "valid-tool-output-turned-into-fatal-error")
		verifCheck(len(rule.Errs()) == 0, "diagnostics-emitted-on-fatal-error")
		return
	}
	verifCheck(verifNot(verifOr(toolErr, verifC20JSON.fail)), "tool-failure-or-garbage-silently-dropped")
	verifCheck(len(rule.Errs()) == verifC20JSON.n, "issue-count-differs-from-diagnostic-count")
	for _, d := range rule.Errs() {
		verifCheck(d.Line == pos.Line && d.Column == pos.Col, "diagnostic-not-at-run-key")
		verifCheck(verifNot(verifMsgHasRawNewline(d.Message)), "raw-line-break-in-message")
	}
}

// verifC20ShellcheckNative: the same obligations through a real process that
// prints the chosen output and exits with the chosen status.
func verifC20ShellcheckNative() {
	toolErr := verifSymBool("toolErr")
	garbage := verifSymBool("garbage")
	n := verifChoose("issues", 4)
	stdout := "["
	for k := 0; k < n; k++ {
		if k > 0 {
			stdout += ","
		}
		stdout += "{\"line\":" + strconv.Itoa(verifSymInt("line"+strconv.Itoa(k))%1000) + ",\"column\":" + strconv.Itoa(verifSymInt("col"+strconv.Itoa(k))%1000) + ",\"level\":\"warning\",\"code\":" + strconv.Itoa(2000+k) + ",\"message\":\"msg.\"}"
	}
	stdout += "]"
	exit := 0
	if garbage {
		stdout = "this is not JSON"
	}
	if toolErr {
		stdout, exit = "", 2 // non-zero exit without output: the tool could not run
	}
	cmd, done := verifC20NativeTool(stdout, exit)
	rule := newRuleShellcheck(cmd)
	pos := &Pos{7, 9}
	rule.runShellcheck("echo ${{ x }}", "bash", pos)
	err := cmd.wait()
	cmd.proc.wait()
	calls, log := done()
	verifCheck(calls == 1, "script-not-passed-to-the-tool-exactly-once")
	verifCheck(strings.HasPrefix(log, "set -eo pipefail\necho ________\n"), "script-not-sanitised-as-documented")
	verifReach("callback")
	if err != nil {
		verifReach("fatal")
		verifCheck(toolErr || garbage, "valid-tool-output-turned-into-fatal-error")
		verifCheck(len(rule.Errs()) == 0, "diagnostics-emitted-on-fatal-error")
		return
	}
	verifCheck(!(toolErr || garbage), "tool-failure-or-garbage-silently-dropped")
	verifCheck(len(rule.Errs()) == n, "issue-count-differs-from-diagnostic-count")
	for _, d := range rule.Errs() {
		verifCheck(d.Line == pos.Line && d.Column == pos.Col, "diagnostic-not-at-run-key")
		verifCheck(verifNot(verifMsgHasRawNewline(d.Message)), "raw-line-break-in-message")
	}
}

// HarnessC20Pyflakes: pyflakes output = up to 3 records "<stdin>:" + text +
// end-of-line, with symbolic text bytes, symbolic line terminators (LF, CRLF,
// none) and optional junk lines in between.
func HarnessC20Pyflakes(n int) {
	native := verifIsNative()
	var rule *RulePyflakes
	pos := &Pos{7, 9}
	if !native {
		verifC20R = verifC20Rec{}
		verifOverride("(*externalCommand).run", verifC20RecRun)
		rule = newRulePyflakes(&externalCommand{exe: "pyflakes"})
		rule.runPyflakes("print(${{ x }})", pos)
		verifCheck(len(verifC20R.callbacks) == 1, "script-not-passed-to-the-tool-exactly-once")
		if len(verifC20R.callbacks) != 1 {
			return
		}
		verifCheck(verifC20R.scripts[0] == "print(________)", "script-not-sanitised-as-documented")
	}
	out := ""
	records, unterminated := 0, false
	for k := 0; k < n; k++ {
		if verifChoose("junk"+strconv.Itoa(k), 2) == 1 {
			out += "  ^\n"
		}
		t := verifSymString("text"+strconv.Itoa(k), 2)
		for i := 0; i < len(t); i++ {
			verifAssumeNote(verifAnd(t[i] != '\n', verifAnd(t[i] != '\r', verifAnd(t[i] != '<', t[i] < 0x80))), "C20 pyflakes: message text is ASCII without line breaks and '<'")
		}
		out += "<stdin>:" + t
		switch verifChoose("eol"+strconv.Itoa(k), 3) {
		case 0:
			out += "\n"
			records++
		case 1:
			out += "\r\n"
			records++
		case 2:
			if k == n-1 {
				unterminated = true
			} else {
				out += "\n"
				records++
			}
		}
	}
	var err error
	if native {
		for i := 0; i < len(out); i++ {
			verifAssume(out[i] != '\'' && out[i] != '%' && out[i] != '\\' && out[i] != 0) // printable through printf in the stand-in tool
		}
		cmd, done := verifC20NativeTool(out, 1)
		cmd.combineOutput = true
		rule = newRulePyflakes(cmd)
		rule.runPyflakes("print(${{ x }})", pos)
		err = cmd.wait()
		cmd.proc.wait()
		calls, log := done()
		verifCheck(calls == 1, "script-not-passed-to-the-tool-exactly-once")
		verifCheck(strings.HasPrefix(log, "print(________)"), "script-not-sanitised-as-documented")
	} else {
		err = verifC20R.callbacks[0]([]byte(out), nil)
	}
	verifReach("callback")
	if unterminated {
		verifReach("unterminated")
		verifCheck(err != nil, "missing-newline-not-a-fatal-error")
		return
	}
	verifCheck(err == nil, "well-formed-output-turned-into-fatal-error")
	verifCheck(len(rule.Errs()) == records, "issue-count-differs-from-diagnostic-count")
	for _, d := range rule.Errs() {
		verifCheck(d.Line == pos.Line && d.Column == pos.Col, "diagnostic-not-at-run-key")
	}
}

// ---- (d) effective shell ----

var verifShells = []string{"", "bash", "sh", "pwsh", "python", "bash -e {0}", "cmd"}

// HarnessC20Shell: shell at step / job default / workflow default each absent or
// one of six spellings, runner Linux or Windows: the script is passed to
// shellcheck exactly once iff the effective shell is bash/sh, to pyflakes iff
// it is python.
func HarnessC20Shell() {
	native := verifIsNative()
	if !native {
		verifC20R = verifC20Rec{}
		verifOverride("(*externalCommand).run", verifC20RecRun)
	}
	ss := verifShells[verifChoose("step", len(verifShells))]
	js := verifShells[verifChoose("job", len(verifShells))]
	ws := verifShells[verifChoose("workflow", len(verifShells))]
	windows := verifChoose("runner", 2) == 1
	src := "on: push\n"
	if ws != "" {
		src += "defaults:\n  run:\n    shell: " + ws + "\n"
	}
	src += "jobs:\n  j:\n    runs-on: "
	if windows {
		src += "windows-latest\n"
	} else {
		src += "ubuntu-latest\n"
	}
	if js != "" {
		src += "    defaults:\n      run:\n        shell: " + js + "\n"
	} else if verifChoose("jobdefaults", 2) == 1 {
		// a job-level defaults.run that says nothing about the shell: the workflow default still applies
		src += "    defaults:\n      run:\n        working-directory: src\n"
	}
	src += "    steps:\n      - run: echo ${{ github.sha }}\n"
	if ss != "" {
		src += "        shell: " + ss + "\n"
	}
	var nSC, nPy int
	var scripts []string
	if native {
		c1, d1 := verifC20NativeTool("[]", 0)
		verifLintNode(verifParseYAML(src), []Rule{newRuleShellcheck(c1)})
		c1.proc.wait()
		var l1, l2 string
		nSC, l1 = d1()
		c2, d2 := verifC20NativeTool("", 0)
		c2.combineOutput = true
		verifLintNode(verifParseYAML(src), []Rule{newRulePyflakes(c2)})
		c2.proc.wait()
		nPy, l2 = d2()
		for _, l := range []string{l1, l2} {
			if l != "" {
				scripts = append(scripts, l)
			}
		}
	} else {
		sc := newRuleShellcheck(&externalCommand{exe: "shellcheck"})
		py := newRulePyflakes(&externalCommand{exe: "pyflakes"})
		// separate recorders: run each rule on its own
		verifLintNode(verifParseYAML(src), []Rule{sc})
		nSC = len(verifC20R.scripts)
		verifLintNode(verifParseYAML(src), []Rule{py})
		nPy = len(verifC20R.scripts) - nSC
		scripts = verifC20R.scripts
	}
	eff := ss
	if eff == "" {
		eff = js
	}
	if eff == "" {
		eff = ws
	}
	if eff == "" {
		if windows {
			eff = "pwsh"
		} else {
			eff = "bash"
		}
	}
	isSh := eff == "bash" || eff == "sh" || strings.HasPrefix(eff, "bash ") || strings.HasPrefix(eff, "sh ")
	isPy := eff == "python" || strings.HasPrefix(eff, "python ")
	verifReach("linted")
	wantSC, wantPy := 0, 0
	if isSh {
		wantSC = 1
	}
	if isPy {
		wantPy = 1
	}
	verifCheckf(nSC == wantSC, "shellcheck-invocations-differ-from-effective-shell", src)
	verifCheckf(nPy == wantPy, "pyflakes-invocations-differ-from-effective-shell", src)
	for _, s := range scripts {
		verifCheck(strings.Contains(s, "echo _________________") && !strings.Contains(s, "${{"), "script-passed-without-sanitising")
	}
}

// HarnessC20TwoJobs: two jobs with their own runner (Linux / Windows) and
// optional job default shell, visited in either order: each job's script goes
// to shellcheck iff that job's own effective shell is bash / sh — nothing
// carries over from the job visited before.
func HarnessC20TwoJobs() {
	native := verifIsNative()
	shells := []string{"", "bash", "pwsh"}
	want := 0
	src := "on: push\njobs:\n"
	for _, id := range []string{"a", "b"} {
		windows := verifChoose("runner-"+id, 2) == 1
		js := shells[verifChoose("shell-"+id, len(shells))]
		src += "  " + id + ":\n    runs-on: "
		if windows {
			src += "windows-latest\n"
		} else {
			src += "ubuntu-latest\n"
		}
		if js != "" {
			src += "    defaults:\n      run:\n        shell: " + js + "\n"
		}
		src += "    steps:\n      - run: echo " + id + "\n"
		eff := js
		if eff == "" {
			eff = "bash"
			if windows {
				eff = "pwsh"
			}
		}
		if eff == "bash" {
			want++
		}
	}
	reps := 1
	if native {
		reps = 40 // Go's own random job order
	}
	for r := 0; r < reps; r++ {
		n := 0
		if native {
			c1, d1 := verifC20NativeTool("[]", 0)
			verifLintNode(verifParseYAML(src), []Rule{newRuleShellcheck(c1)})
			c1.proc.wait()
			n, _ = d1()
		} else {
			verifC20R = verifC20Rec{}
			verifOverride("(*externalCommand).run", verifC20RecRun)
			verifMapOrder(true, "Visit", "visitJobs")
			verifLintNode(verifParseYAML(src), []Rule{newRuleShellcheck(&externalCommand{exe: "shellcheck"})})
			verifMapOrder(false)
			n = len(verifC20R.scripts)
		}
		verifCheckf(n == want, "shellcheck-invocations-differ-from-effective-shell", src)
	}
	verifReach("linted")
}

// HarnessC20RunKey: the step's keys in three orders (run first, shell first,
// shell between name and run), bash or python: the issue the tool reports
// becomes a diagnostic at the position of the step's `run:` key.
func HarnessC20RunKey() {
	if verifIsNative() {
		verifC20RunKeyNative()
		return
	}
	py := verifChoose("python", 2) == 1
	src, runLine := verifC20RunKeySource(verifChoose("order", 3), py)
	verifC20R = verifC20Rec{}
	verifOverride("(*externalCommand).run", verifC20RecRun)
	verifOverride("encoding/json.Unmarshal", verifC20Unmarshal)
	var rule Rule
	if py {
		rule = newRulePyflakes(&externalCommand{exe: "pyflakes"})
	} else {
		rule = newRuleShellcheck(&externalCommand{exe: "shellcheck"})
	}
	verifLintNode(verifParseYAML(src), []Rule{rule})
	verifCheck(len(verifC20R.callbacks) == 1, "script-not-passed-to-the-tool-exactly-once")
	if len(verifC20R.callbacks) != 1 {
		return
	}
	verifC20JSON.fail, verifC20JSON.n = false, 1
	out := []byte("[]")
	if py {
		out = []byte("<stdin>:1:1 msg\n")
	}
	err := verifC20R.callbacks[0](out, nil)
	verifReach("callback")
	verifCheck(err == nil, "valid-tool-output-turned-into-fatal-error")
	verifCheck(len(rule.Errs()) == 1, "issue-count-differs-from-diagnostic-count")
	for _, d := range rule.Errs() {
		verifCheck(d.Line == runLine && d.Column == 9, "diagnostic-not-at-run-key")
	}
}

func verifC20RunKeySource(order int, py bool) (string, int) {
	sh := "bash"
	script := "echo $FOO"
	if py {
		sh, script = "python", "import os"
	}
	head := "on: push\njobs:\n  j:\n    runs-on: ubuntu-latest\n    steps:\n"
	switch order {
	case 0:
		return head + "      - run: " + script + "\n        shell: " + sh + "\n", 6
	case 1:
		return head + "      - shell: " + sh + "\n        run: " + script + "\n", 7
	}
	return head + "      - name: n\n        shell: " + sh + "\n        run: " + script + "\n", 8
}
