//go:build verif

package actionlint

// C04, byte level: the real lexer against the documented lexical grammar
// (DESIGN.md Appendix A.1) written as a byte-at-a-time automaton in circuit
// style: state, token start and the per-position token table are registers
// updated with verifIte*, so that the whole specification is one SMT formula
// over the input bytes.

const (
	lxS = iota
	lxID
	lxNEG
	lxZERO
	lxINT
	lxFRAC0
	lxFRAC
	lxEXP0
	lxEXPNEG
	lxEXPZERO
	lxEXP
	lxHEX0
	lxHEXZERO
	lxHEX
	lxSTR
	lxSTRQ
	lxLT
	lxGT
	lxEQ1
	lxBANG
	lxAMP
	lxPIPE
	lxRB
	lxDONE
	lxERR
)

func lxIn(c byte, lo, hi byte) bool { return verifAnd(lo <= c, c <= hi) }

// verifLexSpec runs the reference automaton over src (which ends with "}}").
// It returns ok (the input lexes) and, per byte position, whether a token
// starts there and its kind.
func verifLexSpec(src string) (ok bool) {
	n := len(src)
	var state byte = lxS
	for p := 0; p < n; p++ {
		c := src[p]
		isDigit := lxIn(c, '0', '9')
		isNZ := lxIn(c, '1', '9')
		isAlpha := verifOr(lxIn(c, 'a', 'z'), lxIn(c, 'A', 'Z'))
		isAlnum := verifOr(isAlpha, isDigit)
		isHex := verifOr(isDigit, verifOr(lxIn(c, 'a', 'f'), lxIn(c, 'A', 'F')))
		isE := verifOr(c == 'e', c == 'E')
		isWS := verifOr(verifOr(c == ' ', c == '\t'), verifOr(c == '\n', c == '\r'))
		identCont := verifOr(isAlnum, verifOr(c == '_', c == '-'))

		is := func(s byte) bool { return state == s }
		// ---- phase A: does the current token end before c, continue, or fail? ----
		ends := false       // token complete before c; c is processed from S
		next := state       // state after consuming c as a continuation
		consumed := false   // c was consumed as part of the current token
		fail := false

		// identifiers
		ends = verifOr(ends, verifAnd(is(lxID), verifNot(identCont)))
		consumed = verifOr(consumed, verifAnd(is(lxID), identCont))
		// numbers
		numInt := verifOr(verifOr(is(lxZERO), is(lxINT)), verifOr(is(lxHEXZERO), is(lxHEX)))
		numFloat := verifOr(is(lxFRAC), verifOr(is(lxEXPZERO), is(lxEXP)))
		step := func(from byte, cond bool, to byte) {
			hit := verifAnd(is(from), cond)
			next = verifIteByte(hit, to, next)
			consumed = verifOr(consumed, hit)
		}
		step(lxZERO, c == 'x', lxHEX0)
		step(lxZERO, c == '.', lxFRAC0)
		step(lxZERO, isE, lxEXP0)
		step(lxINT, isDigit, lxINT)
		step(lxINT, c == '.', lxFRAC0)
		step(lxINT, isE, lxEXP0)
		step(lxFRAC, isDigit, lxFRAC)
		step(lxFRAC, isE, lxEXP0)
		step(lxEXP, isDigit, lxEXP)
		step(lxHEX, isHex, lxHEX)
		step(lxNEG, c == '0', lxZERO)
		step(lxNEG, isNZ, lxINT)
		step(lxFRAC0, isDigit, lxFRAC)
		step(lxEXP0, c == '-', lxEXPNEG)
		step(lxEXP0, c == '0', lxEXPZERO)
		step(lxEXP0, isNZ, lxEXP)
		step(lxEXPNEG, c == '0', lxEXPZERO)
		step(lxEXPNEG, isNZ, lxEXP)
		step(lxHEX0, c == '0', lxHEXZERO)
		step(lxHEX0, verifAnd(isHex, c != '0'), lxHEX)
		inNumEnd := verifOr(numInt, numFloat)
		// a complete number followed by a letter or digit that does not continue it: error
		fail = verifOr(fail, verifAnd(inNumEnd, verifAnd(verifNot(consumed), isAlnum)))
		ends = verifOr(ends, verifAnd(inNumEnd, verifAnd(verifNot(consumed), verifNot(isAlnum))))
		mustCont := verifOr(verifOr(is(lxNEG), is(lxFRAC0)), verifOr(verifOr(is(lxEXP0), is(lxEXPNEG)), is(lxHEX0)))
		fail = verifOr(fail, verifAnd(mustCont, verifNot(consumed)))
		// strings
		step(lxSTR, c == '\'', lxSTRQ)
		step(lxSTR, c != '\'', lxSTR)
		step(lxSTRQ, c == '\'', lxSTR)
		ends = verifOr(ends, verifAnd(is(lxSTRQ), c != '\''))
		// operators
		twoChar := func(from byte, second byte, kind TokenKind, single TokenKind, hasSingle bool) {
			hit := verifAnd(is(from), c == second)
			next = verifIteByte(hit, lxS, next)
			consumed = verifOr(consumed, hit)
			if hasSingle {
				ends = verifOr(ends, verifAnd(is(from), c != second))
			} else {
				fail = verifOr(fail, verifAnd(is(from), c != second))
			}
		}
		twoChar(lxLT, '=', TokenKindLessEq, TokenKindLess, true)
		twoChar(lxGT, '=', TokenKindGreaterEq, TokenKindGreater, true)
		twoChar(lxBANG, '=', TokenKindNotEq, TokenKindNot, true)
		twoChar(lxEQ1, '=', TokenKindEq, 0, false)
		twoChar(lxAMP, '&', TokenKindAnd, 0, false)
		twoChar(lxPIPE, '|', TokenKindOr, 0, false)
		// end marker
		{
			hit := verifAnd(is(lxRB), c == '}')
			next = verifIteByte(hit, lxDONE, next)
			consumed = verifOr(consumed, hit)
			fail = verifOr(fail, verifAnd(is(lxRB), c != '}'))
		}

		// ---- phase B: c starts something new (state S, or the token just ended) ----
		fresh := verifAnd(verifOr(is(lxS), ends), verifNot(fail))
		isSingle := verifOr(verifOr(verifOr(c == '(', c == ')'), verifOr(c == '[', c == ']')), verifOr(c == '.', verifOr(c == '*', c == ',')))
		var b byte = lxERR
		b = verifIteByte(isWS, lxS, b)
		b = verifIteByte(verifOr(isAlpha, c == '_'), lxID, b)
		b = verifIteByte(c == '0', lxZERO, b)
		b = verifIteByte(isNZ, lxINT, b)
		b = verifIteByte(c == '-', lxNEG, b)
		b = verifIteByte(c == '\'', lxSTR, b)
		b = verifIteByte(c == '<', lxLT, b)
		b = verifIteByte(c == '>', lxGT, b)
		b = verifIteByte(c == '=', lxEQ1, b)
		b = verifIteByte(c == '!', lxBANG, b)
		b = verifIteByte(c == '&', lxAMP, b)
		b = verifIteByte(c == '|', lxPIPE, b)
		b = verifIteByte(c == '}', lxRB, b)
		b = verifIteByte(isSingle, lxS, b)
		dead := verifOr(is(lxDONE), is(lxERR))
		ns := next
		ns = verifIteByte(fresh, b, ns)
		ns = verifIteByte(fail, lxERR, ns)
		ns = verifIteByte(dead, state, ns)
		state = ns
	}
	return state == lxDONE
}

// ---- per-token reference predicates (maximal munch) ----

func lxDigit(c byte) bool { return lxIn(c, '0', '9') }
func lxAlpha(c byte) bool { return verifOr(lxIn(c, 'a', 'z'), lxIn(c, 'A', 'Z')) }
func lxAlnum(c byte) bool { return verifOr(lxAlpha(c), lxDigit(c)) }
func lxHex(c byte) bool {
	return verifOr(lxDigit(c), verifOr(lxIn(c, 'a', 'f'), lxIn(c, 'A', 'F')))
}

// lxDecimal: t is 0 | [1-9][0-9]*
func lxDecimal(t string) bool {
	if len(t) == 0 {
		return false
	}
	if len(t) == 1 {
		return lxDigit(t[0])
	}
	r := lxIn(t[0], '1', '9')
	for i := 1; i < len(t); i++ {
		r = verifAnd(r, lxDigit(t[i]))
	}
	return r
}

func lxAllDigits(t string) bool {
	if len(t) == 0 {
		return false
	}
	r := true
	for i := 0; i < len(t); i++ {
		r = verifAnd(r, lxDigit(t[i]))
	}
	return r
}

// lxIsInt: -?(0|[1-9][0-9]*) | -?0x(0|[1-9a-fA-F][0-9a-fA-F]*)
func lxIsInt(t string) bool {
	res := lxDecimal(t)
	if len(t) >= 2 {
		res = verifOr(res, verifAnd(t[0] == '-', lxIsIntNoSign(t[1:])))
	}
	return verifOr(res, lxIsIntNoSign(t))
}

func lxIsIntNoSign(t string) bool {
	res := lxDecimal(t)
	if len(t) >= 3 {
		h := t[2:]
		hex := false
		if len(h) == 1 {
			hex = lxHex(h[0])
		} else {
			hex = verifAnd(lxHex(h[0]), h[0] != '0')
			for i := 1; i < len(h); i++ {
				hex = verifAnd(hex, lxHex(h[i]))
			}
		}
		res = verifOr(res, verifAnd(verifAnd(t[0] == '0', t[1] == 'x'), hex))
	}
	return res
}

// lxIsFloat: -?DEC(.DIGITS)?([eE]-?DEC)? with a fraction or an exponent
func lxIsFloat(t string) bool {
	res := lxIsFloatNoSign(t)
	if len(t) >= 2 {
		res = verifOr(res, verifAnd(t[0] == '-', lxIsFloatNoSign(t[1:])))
	}
	return res
}

func lxIsFloatNoSign(t string) bool {
	res := false
	n := len(t)
	// split points: integer part t[:a], optional fraction t[a+1:b] after '.', optional exponent after e/E
	for a := 1; a <= n; a++ {
		ip := lxDecimal(t[:a])
		// fraction only
		if a < n {
			frac := verifAnd(t[a] == '.', lxAllDigits(t[a+1:]))
			res = verifOr(res, verifAnd(ip, frac))
			// exponent directly after the integer part
			res = verifOr(res, verifAnd(ip, lxExp(t[a:])))
			// fraction then exponent
			for b := a + 2; b < n; b++ {
				res = verifOr(res, verifAnd(ip, verifAnd(verifAnd(t[a] == '.', lxAllDigits(t[a+1:b])), lxExp(t[b:]))))
			}
		}
	}
	return res
}

// lxExp: [eE]-?DEC
func lxExp(t string) bool {
	if len(t) < 2 {
		return false
	}
	e := verifOr(t[0] == 'e', t[0] == 'E')
	r := lxDecimal(t[1:])
	if len(t) >= 3 {
		r = verifOr(r, verifAnd(t[1] == '-', lxDecimal(t[2:])))
	}
	return verifAnd(e, r)
}

// lxIsString: ' ( [^'] | '' )* '
func lxIsString(t string) bool {
	n := len(t)
	if n < 2 {
		return false
	}
	// inside t[1:n-1] quotes come in pairs: track "pending quote" as a register
	pending := false
	bad := false
	for i := 1; i < n-1; i++ {
		q := t[i] == '\''
		// a quote completes a pending one, or opens a new pending one
		np := verifAnd(q, verifNot(pending))
		bad = verifOr(bad, verifAnd(pending, verifNot(q)))
		pending = np
	}
	return verifAnd(verifAnd(t[0] == '\'', t[n-1] == '\''), verifAnd(verifNot(bad), verifNot(pending)))
}

func lxIsIdent(t string) bool {
	if len(t) == 0 {
		return false
	}
	r := verifOr(lxAlpha(t[0]), t[0] == '_')
	for i := 1; i < len(t); i++ {
		r = verifAnd(r, verifOr(lxAlnum(t[i]), verifOr(t[i] == '_', t[i] == '-')))
	}
	return r
}

var lxOpText = map[TokenKind]string{
	TokenKindLeftParen: "(", TokenKindRightParen: ")", TokenKindLeftBracket: "[", TokenKindRightBracket: "]", TokenKindDot: ".",
	TokenKindNot: "!", TokenKindLess: "<", TokenKindLessEq: "<=", TokenKindGreater: ">", TokenKindGreaterEq: ">=", TokenKindEq: "==",
	TokenKindNotEq: "!=", TokenKindAnd: "&&", TokenKindOr: "||", TokenKindStar: "*", TokenKindComma: ",", TokenKindEnd: "}}",
}

// verifTokenOK: text is a token of this kind and cannot be extended by next.
func verifTokenOK(kind TokenKind, text string, hasNext bool, next byte) bool {
	notCont := func(f func(byte) bool) bool {
		if !hasNext {
			return true
		}
		return verifNot(f(next))
	}
	switch kind {
	case TokenKindIdent:
		return verifAnd(lxIsIdent(text), notCont(func(c byte) bool { return verifOr(lxAlnum(c), verifOr(c == '_', c == '-')) }))
	case TokenKindInt:
		return verifAnd(lxIsInt(text), notCont(lxAlnum))
	case TokenKindFloat:
		return verifAnd(lxIsFloat(text), notCont(lxAlnum))
	case TokenKindString:
		return verifAnd(lxIsString(text), notCont(func(c byte) bool { return c == '\'' }))
	case TokenKindLess, TokenKindGreater, TokenKindNot:
		return verifAnd(text == lxOpText[kind], notCont(func(c byte) bool { return c == '=' }))
	}
	if t, ok := lxOpText[kind]; ok {
		return text == t
	}
	return false
}

// HarnessC04Lex: the real lexer on all byte strings of length L (+ "}}").
// Rejected text must be rejected by the reference automaton; accepted text must
// be accepted by it and every token must be a maximal-munch token of its kind
// with only whitespace in between.
func HarnessC04Lex(L int) { verifC04Lex(L, "") }

// HarnessC04LexNum: longer inputs over the characters that matter to number
// literals (and their neighbours).
func HarnessC04LexNum(L int) { verifC04Lex(L, "019eE-.xaf ") }

var verifC04Prefixes = []string{"1e-", "1e", "0x", "1.", "-", "1.5e-", "1.5E", "0", "'a'", "a.b", "a-", "<", "1e-0", "0x0", "1.0"}

// HarnessC04LexAfter: L arbitrary bytes after a concrete beginning of a token.
func HarnessC04LexAfter(prefix, L int) { verifC04LexIn(verifC04Prefixes[prefix], L, "") }

func verifC04Lex(L int, alphabet string) { verifC04LexIn("", L, alphabet) }

func verifC04LexIn(pre string, L int, alphabet string) {
	in := pre + verifSymString("src", L)
	L = len(in)
	if alphabet != "" {
		for i := 0; i < L; i++ {
			ok := false
			for k := 0; k < len(alphabet); k++ {
				ok = verifOr(ok, in[i] == alphabet[k])
			}
			verifAssumeNote(ok, "C04 number alphabet: bytes are among 0 1 9 e E - . x a f space")
		}
	}
	src := in + "}}"
	specified := true
	for i := 0; i < L; i++ {
		specified = verifAnd(specified, verifAnd(in[i] != 0, in[i] < 0x80))
	}
	toks, _, err := LexExpression(src)
	ok := verifLexSpec(src)
	if err != nil {
		verifReach("reject")
		verifCheck(verifImplies(specified, verifNot(ok)), "lexically-valid-text-rejected")
		verifCheck(0 <= err.Offset && err.Offset <= L+2, "error-offset-within-input")
		return
	}
	verifReach("accept")
	all := ok
	prevEnd := 0
	for _, t := range toks {
		text := t.Value
		if t.Kind == TokenKindEnd {
			text = "}}"
			verifCheck(t.Offset+2 <= len(src) && src[t.Offset:t.Offset+2] == "}}", "end-token-is-not-the-end-marker")
		} else {
			verifCheck(t.Value == src[t.Offset:t.Offset+len(t.Value)], "token-text-is-not-the-source-slice")
		}
		for i := prevEnd; i < t.Offset; i++ {
			c := src[i]
			all = verifAnd(all, verifOr(verifOr(c == ' ', c == '\t'), verifOr(c == '\n', c == '\r')))
		}
		end := t.Offset + len(text)
		hasNext := end < len(src)
		var next byte
		if hasNext {
			next = src[end]
		}
		all = verifAnd(all, verifTokenOK(t.Kind, text, hasNext, next))
		prevEnd = end
	}
	verifCheck(verifImplies(specified, all), "accepted-text-or-its-tokens-differ-from-lexical-grammar")
}

// HarnessC04If: an `if:` condition written without ${{ }}: the text "true" +
// L arbitrary bytes (no quote characters) is accepted without a diagnostic only
// if it contains no `}` — a `}}` ends lexing early and a single `}` is no token.
func HarnessC04If(L int) {
	tail := verifSymString("tail", L)
	hasBrace := false
	for i := 0; i < L; i++ {
		verifAssumeNote(verifAnd(tail[i] != '\'', verifAnd(tail[i] != 0, tail[i] < 0x80)), "C04 if: no quote characters, ASCII")
		hasBrace = verifOr(hasBrace, tail[i] == '}')
	}
	rule := NewRuleExpression(NewLocalActionsCache(nil, nil), NewLocalReusableWorkflowCache(nil, "/", nil))
	rule.checkIfCondition(&String{Value: "true" + tail, Pos: &Pos{1, 1}}, "jobs.<job_id>.if")
	verifReach("checked")
	if len(rule.Errs()) == 0 {
		verifReach("accept")
		verifCheck(verifNot(hasBrace), "non-sentence-accepted")
	}
}
