//go:build verif

package actionlint

import (
	"regexp"
	"strconv"
	"strings"

	"github.com/mattn/go-runewidth"
	"gopkg.in/yaml.v3"
)

// HarnessC16Echo: one scalar value of the full skeleton is replaced by L
// arbitrary bytes (optionally behind a concrete prefix that steers it into a
// particular checker); whatever diagnostics result, no message may contain a
// raw line break.
func HarnessC16Echo(L int, prefix int) {
	doc, sites := verifFullSkeletonSites()
	site := sites.scalars[verifChoose("scalar", len(sites.scalars))]
	pre := []string{"", "@", "${{ ", "a/b@", "docker://", "./"}[prefix]
	site.node.Tag, site.node.Style = "!!str", 0
	site.node.Value = pre + verifSymString("text", L)
	verifPlace(doc, 1, 0)
	errs := verifLintNode(doc, verifRulesNoDeprecated())
	for _, e := range errs {
		verifReach("diagnostic")
		verifDebug("diag", site.path+" "+e.Error())
		verifCheck(verifNot(verifMsgHasRawNewline(e.Message)), "raw-line-break-in-message")
	}
	verifReach("linted")
}

// HarnessC16Key: the same for a symbolic mapping key (keys are echoed by the
// unknown-key / duplicate-key diagnostics and by several rules).
func HarnessC16Key(L int) {
	doc, sites := verifSkeletonSites()
	site := sites.maps[verifChoose("mapping", len(sites.maps))]
	K := verifSymString("key", L)
	site.node.Content = append(site.node.Content, yScalar(K), verifValueFor(site.ctx))
	verifPlace(doc, 1, 0)
	errs := verifLintNode(doc, verifRulesNoDeprecated())
	for _, e := range errs {
		verifReach("diagnostic")
		verifCheck(verifNot(verifMsgHasRawNewline(e.Message)), "raw-line-break-in-message")
	}
	verifReach("linted")
}

// HarnessC16Snippet: if the position is inside the source, the snippet's first
// line is the referenced source line and the caret sits under the column.
func HarnessC16Snippet(L int) {
	src := verifSymString("source", L)
	for i := 0; i < L; i++ {
		// printable ASCII or newline: display width equals byte count
		verifAssumeNote(verifOr(verifOr(src[i] == '\n', src[i] == '\r'), verifAnd(0x20 <= src[i], src[i] <= 0x7e)), "C16 snippet: source is printable ASCII, CR and LF")
	}
	for i := 0; i < L; i++ {
		// a CR only as part of a CRLF line end (a lone CR has no display width and is not a line end here)
		next := false
		if i+1 < L {
			next = src[i+1] == '\n'
		}
		verifAssumeNote(verifImplies(src[i] == '\r', next), "C16 snippet: CR only directly before LF")
	}
	line, col := verifSymInt("line"), verifSymInt("col")
	e := &Error{Message: "m", Filepath: "f", Line: line, Column: col, Kind: "k"}
	f := e.GetTemplateFields([]byte(src))
	// reference: split into lines the way a line scanner does
	lines := strings.Split(src, "\n")
	if len(lines) > 0 && lines[len(lines)-1] == "" {
		lines = lines[:len(lines)-1]
	}
	for n := range lines {
		if line == n+1 {
			ln := lines[n]
			if len(ln) > 0 && ln[len(ln)-1] == '\r' {
				ln = ln[:len(ln)-1] // CRLF line end
			}
			verifReach("line-found")
			if col >= 1 && col-1 <= len(ln) {
				parts := strings.SplitN(f.Snippet, "\n", 2)
				verifCheck(parts[0] == ln, "snippet-is-not-the-source-line")
				if len(parts) == 2 {
					verifReach("caret")
					verifCheck(strings.Index(parts[1], "^") == col-1, "caret-not-under-column")
				}
			}
		}
	}
	verifCheck(f.Line == line && f.Column == col, "fields-keep-position")
	h := e.Error()
	verifCheck(verifNot(verifMsgHasRawNewline(h)), "header-has-line-break")
}

const verifC16GlobAlphabet = "[]-\\!*?ab\n\r /"

// HarnessC16Glob: the messages of the filter-pattern validators for a fully
// symbolic pattern (all byte values for small = false, the 13 characters that
// matter plus both line breaks for small = true) never contain a raw line break.
func HarnessC16Glob(L int, small bool) {
	pat := verifSymString("pat", L)
	if small {
		for i := 0; i < L; i++ {
			in := false
			for k := 0; k < len(verifC16GlobAlphabet); k++ {
				in = verifOr(in, pat[i] == verifC16GlobAlphabet[k])
			}
			verifAssumeNote(in, "C16 glob small alphabet: pattern bytes are among [ ] - \\ ! * ? a b LF CR space /")
		}
	}
	for _, e := range ValidatePathGlob(pat) {
		verifReach("diagnostic")
		verifCheck(verifNot(verifMsgHasRawNewline(e.Message)), "raw-line-break-in-message")
	}
	for _, e := range ValidateRefGlob(pat) {
		verifReach("diagnostic")
		verifCheck(verifNot(verifMsgHasRawNewline(e.Message)), "raw-line-break-in-message")
	}
	verifReach("linted")
}

var verifC16Units = []string{"a", " ", "\t", "\u200b", "\u3042", "\u00e9", "\u0301"}

// HarnessC16SnippetWide: a source line of L units drawn from narrow, blank,
// zero-width, wide and combining characters; the column is a symbolic 64-bit
// value. The snippet is produced without a panic, its first line is the source
// line, and — with the library's display widths taken as given — the caret is
// preceded by width(prefix) blanks and followed by max(0, width(word) - 1) tildes.
func HarnessC16SnippetWide(L int) {
	src := ""
	for i := 0; i < L; i++ {
		src += verifC16Units[verifChoose("unit"+string(rune('0'+i)), len(verifC16Units))]
	}
	col := verifSymInt("col")
	e := &Error{Message: "m", Filepath: "f", Line: 1, Column: col, Kind: "k"}
	f := e.GetTemplateFields([]byte(src + "\n"))
	verifReach("rendered")
	parts := strings.SplitN(f.Snippet, "\n", 2)
	verifCheck(parts[0] == src, "snippet-is-not-the-source-line")
	if len(parts) == 2 && col >= 1 && col-1 <= len(src) {
		verifReach("caret")
		start := col - 1
		sw := runewidth.StringWidth(src[:start])
		word := src[start:]
		if k := strings.IndexAny(word, " \t"); k >= 0 {
			word = word[:k]
		}
		uw := 0
		for _, c := range word {
			uw += runewidth.RuneWidth(c)
		}
		if uw > 0 {
			uw--
		}
		verifCheck(parts[1] == strings.Repeat(" ", sw)+"^"+strings.Repeat("~", uw), "indicator-differs-from-display-widths")
	}
}

// HarnessC16TypeNames: names chosen by the user end up in the object types that
// "is not defined in object type {...}" messages print: a matrix row key, a
// matrix include key, a workflow_dispatch / workflow_call input name, a secret
// name, a job output name — each a symbolic byte string — with a reference to
// an undefined sibling next to it. No message may contain a raw line break.
func HarnessC16TypeNames(L int) {
	K := verifSymString("name", L)
	s := yScalar
	site := verifChoose("site", 6)
	on := s("push")
	var onNode *yaml.Node = on
	matrix := yMap(s("r"), ySeq(s("1")))
	jobOutputs := yMap(s("o"), s("v"))
	ref := "matrix.nope"
	switch site {
	case 0:
		matrix = yMap(s(K), ySeq(s("1")))
	case 1:
		matrix = yMap(s("r"), ySeq(s("1")), s("include"), ySeq(yMap(s(K), s("2"))))
	case 2:
		onNode = yMap(s("workflow_dispatch"), yMap(s("inputs"), yMap(s(K), yMap(s("type"), s("string")))))
		ref = "inputs.nope"
	case 3:
		onNode = yMap(s("workflow_call"), yMap(s("inputs"), yMap(s(K), yMap(s("type"), s("string")))))
		ref = "inputs.nope"
	case 4:
		onNode = yMap(s("workflow_call"), yMap(s("secrets"), yMap(s(K), yMap(s("required"), yTagged("!!bool", "false")))))
		ref = "secrets.nope"
	case 5:
		jobOutputs = yMap(s(K), s("v"))
		ref = "needs.j.outputs.nope"
	}
	doc := yDoc(yMap(s("on"), onNode, s("jobs"), yMap(
		s("j"), yMap(s("runs-on"), s("ubuntu-latest"), s("strategy"), yMap(s("matrix"), matrix), s("outputs"), jobOutputs,
			s("steps"), ySeq(yMap(s("run"), s("echo ${{ matrix.nope }} ${{ inputs.nope }} ${{ secrets.nope }}")))),
		s("k"), yMap(s("needs"), ySeq(s("j")), s("runs-on"), s("ubuntu-latest"), s("steps"), ySeq(yMap(s("run"), s("echo ${{ needs.j.outputs.nope }}")))),
	)))
	_ = ref
	verifPlace(doc, 1, 0)
	errs := verifLintNode(doc, verifRulesNoDeprecated())
	for _, e := range errs {
		verifReach("diagnostic")
		if e.Kind == "expression" {
			verifReach("type-printed")
		}
		verifCheck(verifNot(verifMsgHasRawNewline(e.Message)), "raw-line-break-in-message")
	}
	verifReach("linted")
}

// HarnessC16Docker: `uses: docker://` + L arbitrary bytes (image, optional tag).
func HarnessC16Docker(L int) {
	s := yScalar
	uses := s("docker://" + verifSymString("image", L))
	doc := yDoc(yMap(s("on"), s("push"), s("jobs"), yMap(s("j"), yMap(s("runs-on"), s("ubuntu-latest"), s("steps"), ySeq(yMap(s("uses"), uses))))))
	verifPlace(doc, 1, 0)
	errs := verifLintNode(doc, verifRulesNoDeprecated())
	for _, e := range errs {
		verifReach("diagnostic")
		verifCheck(verifNot(verifMsgHasRawNewline(e.Message)), "raw-line-break-in-message")
	}
	verifReach("linted")
}

// HarnessC16Matcher: the one-line header of a diagnostic that echoes user text
// (an unknown key of L printable ASCII bytes, quoted by the message) is parsed
// back by the shipped problem-matcher pattern (.github/actionlint-matcher.json)
// to the same file, line, column, message and kind.
func HarnessC16Matcher(L int) {
	K := verifSymString("key", L)
	for i := 0; i < L; i++ {
		verifAssumeNote(verifAnd(0x20 <= K[i], K[i] <= 0x7e), "C16 matcher: the echoed key is printable ASCII")
	}
	verifAssumeNote(K != "on" && K != "jobs" && K != "name" && K != "env", "C16 matcher: the key is not a known one (short ones listed)")
	s := yScalar
	doc := yDoc(yMap(s("on"), s("push"), s(K), s("v"), s("jobs"), yMap(s("j"), yMap(s("runs-on"), s("ubuntu-latest"), s("steps"), ySeq(yMap(s("run"), s("echo")))))))
	verifPlace(doc, 1, 0)
	p := &parser{}
	p.parse(doc)
	re := regexp.MustCompile(verifMatcherRegexp)
	for _, e := range p.errors {
		e.Filepath = "dir/w.yml"
		header := e.Error()
		m := re.FindStringSubmatch(header)
		verifReach("diagnostic")
		verifCheck(m != nil, "header-not-matched-by-the-problem-matcher")
		if m != nil {
			verifCheck(m[1] == e.Filepath && m[2] == strconv.Itoa(e.Line) && m[3] == strconv.Itoa(e.Column), "problem-matcher-parses-back-another-position")
			verifCheck(m[4] == e.Message && m[5] == e.Kind, "problem-matcher-parses-back-another-message-or-kind")
		}
	}
	verifReach("linted")
}

// HarnessC16MatcherLines: two diagnostics (the first echoes an unknown key of
// L printable bytes) printed by PrettyPrint without source — what -oneline
// writes — with colours off or on (`actionlint -color` is what the usage
// documentation pairs with the problem matcher): every header line is parsed
// back by the shipped pattern to the same file, line, column, message and kind.
func HarnessC16MatcherLines(L int) {
	K := verifSymString("key", L)
	for i := 0; i < L; i++ {
		verifAssumeNote(verifAnd(0x20 <= K[i], K[i] <= 0x7e), "C16 matcher: the echoed key is printable ASCII")
	}
	verifAssumeNote(K != "on" && K != "jobs" && K != "name" && K != "env", "C16 matcher: the key is not a known one (short ones listed)")
	colour := verifChoose("colour", 2) == 1
	s := yScalar
	doc := yDoc(yMap(s("on"), s("push"), s(K), s("v"), s("jobs"), yMap(s("j"), yMap(s("runs-on"), s("ubuntu-latest"), s("nope"), s("x"), s("steps"), ySeq(yMap(s("run"), s("echo")))))))
	verifPlace(doc, 1, 0)
	p := &parser{}
	p.parse(doc)
	verifCheck(len(p.errors) == 2, "expected-two-diagnostics")
	for _, e := range p.errors {
		e.Filepath = "dir/w.yml"
	}
	lines := verifPrintedLines(p.errors, colour)
	re := regexp.MustCompile(verifMatcherRegexp)
	n := 0
	for _, ln := range lines {
		m := re.FindStringSubmatch(ln)
		if m == nil {
			continue // not a header line (with colours on the very last line is a lone reset sequence)
		}
		verifCheck(n < len(p.errors), "more-header-lines-than-diagnostics")
		if n >= len(p.errors) {
			break
		}
		e := p.errors[n]
		n++
		verifReach("diagnostic")
		verifCheck(m[1] == e.Filepath && m[2] == strconv.Itoa(e.Line) && m[3] == strconv.Itoa(e.Column), "problem-matcher-parses-back-another-position")
		verifCheck(m[4] == e.Message && m[5] == e.Kind, "problem-matcher-parses-back-another-message-or-kind")
	}
	verifCheck(n == len(p.errors), "header-not-matched-by-the-problem-matcher")
	verifReach("linted")
}

func verifC16NoFile(name string) ([]byte, error) {
	return nil, &verifC10Err{"open " + name + ": no such file or directory"}
}

// HarnessC16CallPath: a local reusable workflow call whose path contains L
// arbitrary bytes (the file does not exist; the error of the file system
// echoes the path) inside a project.
func HarnessC16CallPath(L int) {
	if verifIsNative() {
		// needs a project on disk whose file name contains arbitrary bytes; the symbolic run uses a virtual one
		verifAssumeNote(false, "C16 call path: no native route for sampled inputs (violations are replayed through the message check only)")
		return
	}
	path := "./" + verifSymString("path", L) + ".yml"
	verifOverride("os.ReadFile", verifC16NoFile)
	s := yScalar
	doc := yDoc(yMap(s("on"), s("push"), s("jobs"), yMap(s("j"), yMap(s("uses"), s(path)))))
	verifPlace(doc, 1, 0)
	proj := &Project{root: "/r"}
	lw := NewLocalReusableWorkflowCache(proj, "/r", nil)
	la := NewLocalActionsCache(proj, nil)
	errs := verifLintNode(doc, []Rule{NewRuleWorkflowCall("/r/.github/workflows/w.yml", lw), NewRuleExpression(la, lw)})
	for _, e := range errs {
		verifReach("diagnostic")
		verifCheck(verifNot(verifMsgHasRawNewline(e.Message)), "raw-line-break-in-message")
	}
	verifReach("linted")
}

// verifC16BrokenCallees: files of a local reusable workflow / a local action whose decoding
// fails in go-yaml with a type error (the library reports those on several lines, one per error).
var verifC16BrokenWorkflows = []string{
	"on:\n  workflow_call:\n    inputs:\n      foo:\n        type: string\n        required: [a]\njobs:\n  j:\n    runs-on: ubuntu-latest\n    steps:\n      - run: echo\n",
	"on:\n  workflow_call:\n    inputs:\n      foo:\n        type: string\n        required: [a]\n      bar:\n        type: string\n        required: {b: c}\njobs:\n  j:\n    runs-on: ubuntu-latest\n    steps:\n      - run: echo\n",
	"on:\n  workflow_call:\n    secrets:\n      tok:\n        required: [a, b]\njobs:\n  j:\n    runs-on: ubuntu-latest\n    steps:\n      - run: echo\n",
}
var verifC16BrokenActions = []string{
	"name: a\ndescription: d\ninputs:\n  foo:\n    required: [a]\nruns:\n  using: node20\n  main: index.js\n",
	"name: [a]\ndescription: {b: c}\nruns:\n  using: node20\n  main: index.js\n",
	"name: a\ndescription: d\nruns:\n  using: composite\n  steps: {a: b}\n",
}

// HarnessC16CalleeBroken: a workflow that calls a local reusable workflow (kind 0) or uses a
// local action (kind 1) whose file go-yaml rejects with one or two type errors: the caller's
// diagnostic quotes the library's error; it stays on one line.
func HarnessC16CalleeBroken() {
	kind := verifChoose("kind", 2)
	which := verifChoose("which", 3)
	var caller, calleePath, callee string
	if kind == 0 {
		caller = "on: push\njobs:\n  j:\n    uses: ./.github/workflows/callee.yml\n"
		calleePath, callee = ".github/workflows/callee.yml", verifC16BrokenWorkflows[which]
	} else {
		caller = "on: push\njobs:\n  j:\n    runs-on: ubuntu-latest\n    steps:\n      - uses: ./act\n"
		calleePath, callee = "act/action.yml", verifC16BrokenActions[which]
	}
	var errs []*Error
	if verifIsNative() {
		errs = verifC16NativeCalleeBroken(caller, calleePath, callee)
	} else {
		verifC10Files = map[string]string{"/r/.github/workflows/w.yml": caller, "/r/" + calleePath: callee}
		verifC10Tree = map[string]int{"/r/act/index.js": 2}
		verifC10Cfg = map[string]*Config{}
		verifSetCwd("/r")
		verifOverride("os.ReadFile", verifC10ReadFile)
		verifOverride("os.Stat", verifC10StatTree)
		verifOverride("findProject", verifC10FindProject)
		verifOverride("findProjectRoot", verifC10FindProjectRoot)
		verifOverride("loadRepoConfig", verifC10RepoConfig)
		l := verifLinter("/r", "", "")
		var err error
		errs, err = l.LintFile("/r/.github/workflows/w.yml", nil)
		verifCheck(err == nil, "lint-failed")
	}
	verifReach("linted")
	verifCheckf(len(errs) >= 1, "broken-callee-not-reported", verifErrTextConc(errs))
	for _, e := range errs {
		verifReach("diagnostic")
		verifCheckf(verifNot(verifMsgHasRawNewline(e.Message)), "raw-line-break-in-message", e.Message)
	}
}

// HarnessC16Event: an event name of L arbitrary bytes under `on:` with a
// filter below it (unknown events are echoed by several checks).
func HarnessC16Event(L int) {
	K := verifSymString("event", L)
	s := yScalar
	filter := []string{"branches", "tags-ignore", "paths", "types"}[verifChoose("filter", 4)]
	doc := yDoc(yMap(s("on"), yMap(s(K), yMap(s(filter), ySeq(s("main")))), s("jobs"), yMap(s("j"), yMap(s("runs-on"), s("ubuntu-latest"), s("steps"), ySeq(yMap(s("run"), s("echo")))))))
	verifPlace(doc, 1, 0)
	errs := verifLintNode(doc, verifRulesNoDeprecated())
	for _, e := range errs {
		verifReach("diagnostic")
		verifCheck(verifNot(verifMsgHasRawNewline(e.Message)), "raw-line-break-in-message")
	}
	verifReach("linted")
}

// HarnessC16MatrixEcho: matrix diagnostics echo whole values. A row has two
// equal mapping values whose key (or value) is L arbitrary bytes, and an
// exclude entry that matches nothing carries such a mapping too: both the
// duplicate and the exclude diagnostics print the mapping; no raw line break
// may reach the message.
func HarnessC16MatrixEcho(L int) {
	K := verifSymString("text", L)
	s := yScalar
	mk := func() *yaml.Node {
		if verifChoose("where", 2) == 1 {
			return yMap(s("k"), s(K))
		}
		return yMap(s(K), s("v"))
	}
	var matrix *yaml.Node
	if verifChoose("diagnostic", 2) == 1 {
		matrix = yMap(s("os"), ySeq(s("a"), s("b")), s("exclude"), ySeq(yMap(s("os"), mk())))
	} else {
		matrix = yMap(s("os"), ySeq(mk(), mk()))
	}
	doc := yDoc(yMap(s("on"), s("push"), s("jobs"), yMap(s("j"), yMap(s("runs-on"), s("ubuntu-latest"), s("strategy"), yMap(s("matrix"), matrix), s("steps"), ySeq(yMap(s("run"), s("echo")))))))
	verifPlace(doc, 1, 0)
	errs := verifLintNode(doc, []Rule{NewRuleMatrix()})
	for _, e := range errs {
		verifReach("diagnostic")
		verifCheck(verifNot(verifMsgHasRawNewline(e.Message)), "raw-line-break-in-message")
	}
	verifReach("linted")
}

// HarnessC16Gutter: the default output with a snippet: header, an empty gutter
// line, the source line behind "<line> | ", and the indicator line. For line
// numbers around every power of ten (1, 9, 10, 11, 99, 100, 101, 109, 110,
// 999, 1000, 1001, 1099) and a symbolic column, the three bars stand in one
// column and the caret stands under the reported column of the source line.
func HarnessC16Gutter() {
	lines := []int{1, 9, 10, 11, 99, 100, 101, 109, 110, 999, 1000, 1001, 1099}
	ln := lines[verifChoose("line", len(lines))]
	col := 1 + verifChoose("column", 4)
	src := []byte(strings.Repeat("abcdef ghi\n", 1100))
	e := &Error{Message: "m", Filepath: "f.yml", Line: ln, Column: col, Kind: "k"}
	out := verifPrintedWithSource(e, src)
	verifReach("printed")
	verifCheck(len(out) == 4, "snippet-not-printed-as-four-lines")
	if len(out) != 4 {
		return
	}
	digits := len(strconv.Itoa(ln))
	bar := digits + 1
	verifCheck(len(out[1]) == bar+1 && out[1][bar] == '|', "gutter-bars-not-aligned")
	verifCheck(len(out[2]) > bar+2 && out[2][bar] == '|' && out[2][bar+2:] == "abcdef ghi", "source-line-not-behind-the-gutter")
	verifCheck(len(out[3]) > bar+1+col && out[3][bar] == '|' && out[3][bar+1+col] == '^', "caret-not-under-the-reported-column")
}
