//go:build verif

package actionlint

import (
	"strings"
)

// HarnessC16Echo: one scalar value of the full skeleton is replaced by L
// arbitrary bytes (optionally behind a concrete prefix that steers it into a
// particular checker); whatever diagnostics result, no message may contain a
// raw line break.
func HarnessC16Echo(L int, prefix int) {
	doc, sites := verifFullSkeletonSites()
	site := sites.scalars[verifChoose("scalar", len(sites.scalars))]
	pre := []string{"", "@", "${{ ", "a/b@", "docker://", "./"}[prefix]
	site.node.Tag, site.node.Style = "!!str", 0
	site.node.Value = pre + verifSymString("text", L)
	verifPlace(doc, 1, 0)
	errs := verifLintNode(doc, verifRulesNoDeprecated())
	for _, e := range errs {
		verifReach("diagnostic")
		verifDebug("diag", site.path+" "+e.Error())
		verifCheck(verifNot(verifMsgHasRawNewline(e.Message)), "raw-line-break-in-message")
	}
	verifReach("linted")
}

// HarnessC16Key: the same for a symbolic mapping key (keys are echoed by the
// unknown-key / duplicate-key diagnostics and by several rules).
func HarnessC16Key(L int) {
	doc, sites := verifSkeletonSites()
	site := sites.maps[verifChoose("mapping", len(sites.maps))]
	K := verifSymString("key", L)
	site.node.Content = append(site.node.Content, yScalar(K), verifValueFor(site.ctx))
	verifPlace(doc, 1, 0)
	errs := verifLintNode(doc, verifRulesNoDeprecated())
	for _, e := range errs {
		verifReach("diagnostic")
		verifCheck(verifNot(verifMsgHasRawNewline(e.Message)), "raw-line-break-in-message")
	}
	verifReach("linted")
}

// HarnessC16Snippet: if the position is inside the source, the snippet's first
// line is the referenced source line and the caret sits under the column.
func HarnessC16Snippet(L int) {
	src := verifSymString("source", L)
	for i := 0; i < L; i++ {
		// printable ASCII or newline: display width equals byte count
		verifAssumeNote(verifOr(src[i] == '\n', verifAnd(0x20 <= src[i], src[i] <= 0x7e)), "C16 snippet: source is printable ASCII and LF")
	}
	line, col := verifSymInt("line"), verifSymInt("col")
	e := &Error{Message: "m", Filepath: "f", Line: line, Column: col, Kind: "k"}
	f := e.GetTemplateFields([]byte(src))
	// reference: split into lines the way a line scanner does
	lines := strings.Split(src, "\n")
	if len(lines) > 0 && lines[len(lines)-1] == "" {
		lines = lines[:len(lines)-1]
	}
	for n := range lines {
		if line == n+1 {
			ln := lines[n]
			verifReach("line-found")
			if col >= 1 && col-1 <= len(ln) {
				parts := strings.SplitN(f.Snippet, "\n", 2)
				verifCheck(parts[0] == ln, "snippet-is-not-the-source-line")
				if len(parts) == 2 {
					verifReach("caret")
					verifCheck(strings.Index(parts[1], "^") == col-1, "caret-not-under-column")
				}
			}
		}
	}
	verifCheck(f.Line == line && f.Column == col, "fields-keep-position")
	h := e.Error()
	verifCheck(verifNot(verifMsgHasRawNewline(h)), "header-has-line-break")
}
