//go:build verif && !verif_replay

package actionlint

func verifC10NativeMulti(lab string, ord []int) {}

func verifC14NativeActionDir() {}
func verifC14Root() string      { return "/r" }

func verifC02NativeJobOrder(src string) {}

func verifC10NativeFindProject(gs, ws, gr, wr int, want string) {}
func verifC02NativeFormat() {}
