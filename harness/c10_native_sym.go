//go:build verif && !verif_replay

package actionlint

import "strings"

func verifC10NativeMulti(lab string, ord []int) {}

func verifC14NativeActionDir() {}
func verifC14Root() string     { return "/r" }

func verifC02NativeJobOrder(src string) {}

func verifC10NativeFindProject(gs, ws, gr, wr, outerFirst int, want string) {}
func verifC02NativeFormat()                                     {}

// verifPrintedLines: the lines PrettyPrint writes for the diagnostics (no
// source, i.e. what -oneline prints), with colours on or off. The engine's
// fmt / fatih/color models hand over the written pieces; a line break can only
// be inside a piece that the caller keeps free of symbolic line breaks.
func verifPrintedLines(errs []*Error, colour bool) []string {
	verifColorOutput(colour)
	verifCaptureOutput(true)
	for _, e := range errs {
		e.PrettyPrint(nil, nil)
	}
	parts := verifCapturedParts()
	verifCaptureOutput(false)
	verifColorOutput(false)
	var lines []string
	cur := ""
	for _, p := range parts {
		for {
			k := strings.IndexByte(p, '\n')
			if k < 0 {
				break
			}
			lines = append(lines, cur+p[:k])
			cur, p = "", p[k+1:]
		}
		cur += p
	}
	if cur != "" {
		lines = append(lines, cur)
	}
	return lines
}
func verifC02NativeSharedDefect() {}
func verifC02NativeRepeat(wf string) {}
func verifC10NativeSameActionPath(wf string) {}
func verifC02NativeNested() {}
func verifC16NativeCalleeBroken(caller, calleePath, callee string) []*Error { return nil }

// verifPrintedWithSource: what PrettyPrint writes for one diagnostic with its source (colours off).
func verifPrintedWithSource(e *Error, src []byte) []string {
	verifColorOutput(false)
	verifCaptureOutput(true)
	e.PrettyPrint(nil, src)
	parts := verifCapturedParts()
	verifCaptureOutput(false)
	var lines []string
	cur := ""
	for _, p := range parts {
		for {
			k := strings.IndexByte(p, '\n')
			if k < 0 {
				break
			}
			lines = append(lines, cur+p[:k])
			cur, p = "", p[k+1:]
		}
		cur += p
	}
	if cur != "" {
		lines = append(lines, cur)
	}
	return lines
}
