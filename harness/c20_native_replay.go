//go:build verif && verif_replay

package actionlint

import (
	"fmt"
	"io"
	"os"
	"path/filepath"
	"runtime"
	"strconv"
	"strings"
	"time"
)

// verifC20NativeRun realises a symbolic tool outcome with a real /bin/sh process.
func verifC20NativeRun(st *verifC20Cmd) ([]byte, error) {
	script := "cat >/dev/null; printf '" + "xyz"[:st.stdoutLen] + "'"
	exe := "/bin/sh"
	switch st.class {
	case 1:
		if st.code < 0 {
			script += "; kill -9 $$"
		} else {
			c := st.code % 256
			if c == 0 {
				c = 1
			}
			script += fmt.Sprintf("; exit %d", c)
		}
	case 2:
		exe = "/nonexistent/verif-tool"
	}
	e := &cmdExecution{cmd: exe, args: []string{"-c", script}, stdin: "script", combineOutput: st.combined}
	if st.pipeCap < 6 {
		// the small-pipe case of the model: natively a script larger than any pipe buffer
		e.stdin = strings.Repeat("x", 1<<20)
		type res struct {
			out []byte
			err error
		}
		ch := make(chan res, 1)
		go func() {
			out, err := e.run()
			ch <- res{out, err}
		}()
		select {
		case r := <-ch:
			return r.out, r.err
		case <-time.After(10 * time.Second):
			verifCheck(false, "tool-never-started-because-the-stdin-pipe-is-full")
			return nil, fmt.Errorf("hang")
		}
	}
	return e.run()
}

// verifC20NativeTool: an externalCommand that runs /bin/sh, appends its stdin
// to a log, prints stdout and exits with the given status. The returned
// function reports the number of invocations and the logged scripts.
func verifC20NativeTool(stdout string, exit int) (*externalCommand, func() (int, string)) {
	f, err := os.CreateTemp("", "verif-c20-")
	if err != nil {
		panic(err)
	}
	log := f.Name()
	f.Close()
	out, _ := os.CreateTemp("", "verif-c20-out-")
	out.WriteString(stdout)
	out.Close()
	script := fmt.Sprintf("cat >> %s; printf '\\036' >> %s; cat %s; exit %d", log, log, out.Name(), exit)
	cmd := &externalCommand{proc: newConcurrentProcess(2), exe: "/bin/sh", args: []string{"-c", script, "--"}}
	return cmd, func() (int, string) {
		b, _ := os.ReadFile(log)
		os.Remove(log)
		os.Remove(out.Name())
		return strings.Count(string(b), "\036"), string(b)
	}
}

// verifC20NativeSchedule: real LintFiles with a stand-in tool that stays alive
// for a while and counts how many instances are alive at once: 3 files with
// NumCPU run: steps each. Observed: the bound, every process finished before
// LintFiles returns, no hang.
// verifC10NativeRaces: real LintFiles under the race detector (the driver runs this
// case with `go test -race`): 4 files x 8 run steps, a stand-in shellcheck that
// reports one issue per script so that the callbacks append diagnostics.
func verifC10NativeRaces() {
	tmp, err := os.MkdirTemp("", "verif-c10r-")
	if err != nil {
		panic(err)
	}
	defer os.RemoveAll(tmp)
	must := func(err error) {
		if err != nil {
			panic(err)
		}
	}
	must(os.MkdirAll(filepath.Join(tmp, "r", ".github", "workflows"), 0o755))
	must(os.MkdirAll(filepath.Join(tmp, "r", ".git"), 0o755))
	must(os.WriteFile(filepath.Join(tmp, "r", ".github", "actionlint.yaml"), []byte("config-variables:\n  - zeta\n  - alpha\n"), 0o644))
	tool := filepath.Join(tmp, "tool.sh")
	must(os.WriteFile(tool, []byte("#!/bin/sh\ncat >/dev/null\necho '[{\"file\":\"-\",\"line\":1,\"column\":1,\"level\":\"warning\",\"code\":2000,\"message\":\"m\"}]'\n"), 0o755))
	pytool := filepath.Join(tmp, "pytool.sh")
	must(os.WriteFile(pytool, []byte("#!/bin/sh\ncat >/dev/null\necho '<stdin>:1:1 m'\n"), 0o755))
	var args []string
	for f := 0; f < 4; f++ {
		p := filepath.Join(tmp, "r", ".github", "workflows", "w"+strconv.Itoa(f)+".yml")
		must(os.WriteFile(p, []byte(verifC20SchedWorkflow(8)), 0o644))
		args = append(args, p)
	}
	for rep := 0; rep < 5; rep++ {
		l, err := NewLinter(io.Discard, &LinterOptions{Shellcheck: tool, Pyflakes: pytool})
		must(err)
		_, err = l.LintFiles(args, nil)
		verifCheck(err == nil, "lint-failed")
	}
	verifReach("linted")
	verifReach("race-analysis-done")
}

func verifC20NativeSchedule(fail bool, files int) {
	single := files == 0 // Linter.Lint on bytes; files == 1: LintFiles on one path (the LintFile route)
	tmp, err := os.MkdirTemp("", "verif-c20s-")
	if err != nil {
		panic(err)
	}
	defer os.RemoveAll(tmp)
	must := func(err error) {
		if err != nil {
			panic(err)
		}
	}
	state := filepath.Join(tmp, "state")
	must(os.MkdirAll(state, 0o755))
	must(os.MkdirAll(filepath.Join(tmp, "r", ".github", "workflows"), 0o755))
	must(os.MkdirAll(filepath.Join(tmp, "r", ".git"), 0o755))
	tool := filepath.Join(tmp, "tool.sh")
	script := "#!/bin/sh\ncat >/dev/null\nm=" + state + "/alive.$$\n: > $m\nls " + state + " | grep -c '^alive' >> " + state + "/counts\nsleep 0.3\nrm -f $m\necho x >> " + state + "/finished\necho '[]'\n"
	if fail {
		// shellcheck answers quickly with something that is not JSON; pyflakes stays alive for a while
		script = "#!/bin/sh\ncat >/dev/null\nm=" + state + "/alive.$$\n: > $m\nsleep 0.05\nrm -f $m\necho x >> " + state + "/finished\necho 'this is not JSON'\n"
	}
	must(os.WriteFile(tool, []byte(script), 0o755))
	pytool := filepath.Join(tmp, "pytool.sh")
	pyscript := "#!/bin/sh\ncat >/dev/null\nm=" + state + "/alive.$$\n: > $m\nls " + state + " | grep -c '^alive' >> " + state + "/counts\nsleep 0.3\nrm -f $m\necho x >> " + state + "/finished\n"
	must(os.WriteFile(pytool, []byte(pyscript), 0o755))
	cpus := runtime.NumCPU()
	// the bound is the number of CPUs, whatever GOMAXPROCS is set to
	defer runtime.GOMAXPROCS(runtime.GOMAXPROCS(2 * cpus))
	var args []string
	for f := 0; f < 3; f++ {
		p := filepath.Join(tmp, "r", ".github", "workflows", "w"+strconv.Itoa(f)+".yml")
		must(os.WriteFile(p, []byte(verifC20SchedWorkflow(cpus)), 0o644))
		args = append(args, p)
	}
	l, err := NewLinter(io.Discard, &LinterOptions{Shellcheck: tool, Pyflakes: pytool})
	must(err)
	type res struct {
		errs []*Error
		err  error
	}
	ch := make(chan res, 1)
	nfiles := 3
	if single || files == 1 {
		nfiles = 1
		args = args[:1]
	}
	go func() {
		if single {
			src, _ := os.ReadFile(args[0])
			errs, err := l.Lint(args[0], src, nil)
			ch <- res{errs, err}
			return
		}
		errs, err := l.LintFiles(args, nil)
		ch <- res{errs, err}
	}()
	select {
	case r := <-ch:
		if fail {
			verifCheck(r.err != nil, "tool-failure-or-garbage-silently-dropped")
		} else {
			verifCheck(r.err == nil, "lint-failed")
			verifCheck(len(r.errs) == 0, "unexpected-diagnostics")
		}
	case <-time.After(120 * time.Second):
		verifCheck(false, "deadlock")
		return
	}
	verifReach("linted")
	verifReach("complete-schedule-exists") // the run that just finished is one
	ents, _ := os.ReadDir(state)
	alive := 0
	for _, e := range ents {
		if strings.HasPrefix(e.Name(), "alive") {
			alive++
		}
	}
	fin, _ := os.ReadFile(filepath.Join(state, "finished"))
	if fail {
		// some scripts may never have been started; none may be alive
		verifCheck(alive == 0, "results-returned-before-every-tool-goroutine-finished")
	} else {
		verifCheck(alive == 0 && strings.Count(string(fin), "x") == nfiles*cpus, "results-returned-before-every-tool-goroutine-finished")
	}
	cnt, _ := os.ReadFile(filepath.Join(state, "counts"))
	max := 0
	for _, ln := range strings.Fields(string(cnt)) {
		if n, err := strconv.Atoi(ln); err == nil && n > max {
			max = n
		}
	}
	verifCheckf(max <= cpus, "more-tool-processes-at-once-than-cpus", strconv.Itoa(max))
}

// verifC20RunKeyNative: the same through real stand-in tools.
func verifC20RunKeyNative() {
	py := verifChoose("python", 2) == 1
	src, runLine := verifC20RunKeySource(verifChoose("order", 3), py)
	stdout := "[{\"file\":\"-\",\"line\":1,\"column\":1,\"level\":\"warning\",\"code\":2000,\"message\":\"m\"}]"
	if py {
		stdout = "<stdin>:1:1 msg\n"
	}
	cmd, done := verifC20NativeTool(stdout, 0)
	var rule Rule
	if py {
		rule = newRulePyflakes(cmd)
	} else {
		rule = newRuleShellcheck(cmd)
	}
	verifLintNode(verifParseYAML(src), []Rule{rule})
	err := cmd.wait()
	cmd.proc.wait()
	calls, _ := done()
	verifCheck(calls == 1, "script-not-passed-to-the-tool-exactly-once")
	verifReach("callback")
	verifCheck(err == nil, "valid-tool-output-turned-into-fatal-error")
	verifCheck(len(rule.Errs()) == 1, "issue-count-differs-from-diagnostic-count")
	for _, d := range rule.Errs() {
		verifCheck(d.Line == runLine && d.Column == 9, "diagnostic-not-at-run-key")
	}
}
