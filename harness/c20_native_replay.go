//go:build verif && verif_replay

package actionlint

import (
	"fmt"
	"os"
	"strings"
)

// verifC20NativeRun realises a symbolic tool outcome with a real /bin/sh process.
func verifC20NativeRun(st *verifC20Cmd) ([]byte, error) {
	script := "cat >/dev/null; printf '" + "xyz"[:st.stdoutLen] + "'"
	exe := "/bin/sh"
	switch st.class {
	case 1:
		if st.code < 0 {
			script += "; kill -9 $$"
		} else {
			c := st.code % 256
			if c == 0 {
				c = 1
			}
			script += fmt.Sprintf("; exit %d", c)
		}
	case 2:
		exe = "/nonexistent/verif-tool"
	}
	e := &cmdExecution{cmd: exe, args: []string{"-c", script}, stdin: "script", combineOutput: st.combined}
	return e.run()
}

// verifC20NativeTool: an externalCommand that runs /bin/sh, appends its stdin
// to a log, prints stdout and exits with the given status. The returned
// function reports the number of invocations and the logged scripts.
func verifC20NativeTool(stdout string, exit int) (*externalCommand, func() (int, string)) {
	f, err := os.CreateTemp("", "verif-c20-")
	if err != nil {
		panic(err)
	}
	log := f.Name()
	f.Close()
	out, _ := os.CreateTemp("", "verif-c20-out-")
	out.WriteString(stdout)
	out.Close()
	script := fmt.Sprintf("cat >> %s; printf '\\036' >> %s; cat %s; exit %d", log, log, out.Name(), exit)
	cmd := &externalCommand{proc: newConcurrentProcess(2), exe: "/bin/sh", args: []string{"-c", script, "--"}}
	return cmd, func() (int, string) {
		b, _ := os.ReadFile(log)
		os.Remove(log)
		os.Remove(out.Name())
		return strings.Count(string(b), "\036"), string(b)
	}
}
