//go:build verif && !verif_replay

package actionlint

import "gopkg.in/yaml.v3"

// Harness runtime, symbolic variant: every function here is intercepted by
// name by the gosx engine; the bodies only exist so that the package type
// checks. The native replay variant is rt_replay.go.

func verifSymString(name string, n int) string          { return "" }
func verifSymInt(name string) int                       { return 0 }
func verifSymBool(name string) bool                     { return false }
func verifSymByte(name string) byte                     { return 0 }
func verifSymRune(name string) rune                     { return 0 }
func verifChoose(name string, n int) int                { return 0 }
func verifAssume(c bool)                                {}
func verifAssumeNote(c bool, why string)                {}
func verifCheck(c bool, label string)                   {}
func verifCheckf(c bool, label string, info string)     {}
func verifReach(label string)                           {}
func verifMapOrder(on bool, fns ...string)              {}
func verifMonitorGlobals(on bool)                       {}
func verifFreeze(name string, x interface{})            {}
func verifOverride(fn string, repl interface{})         {}
func verifAnd(a, b bool) bool                           { return a && b }
func verifOr(a, b bool) bool                            { return a || b }
func verifImplies(a, b bool) bool                       { return !a || b }
func verifIff(a, b bool) bool                           { return a == b }
func verifNot(a bool) bool                              { return !a }
func verifIteInt(c bool, a, b int) int                  { if c { return a }; return b }
func verifIteBool(c bool, a, b bool) bool               { if c { return a }; return b }
func verifIteByte(c bool, a, b byte) byte               { if c { return a }; return b }
func verifIsSymbolic(x interface{}) bool                { return false }
func verifNote(label string)                            {}
func verifMsgHasRawNewline(msg string) bool             { return false }
func verifNative(name string) int                       { return 0 }
func verifStringOf(s string) string                     { return s }
func verifMsgQuotedRune(msg string) (rune, bool)          { return 0, false }
func verifParseYAML(src string) *yaml.Node               { return nil }
func verifIsNative() bool                              { return false }
func verifDebug(label string, s string)                 {}
func verifSetCwd(dir string)                            {}
func verifRecordMapRangers(on bool)                     {}
func verifMapRangers() []string                         { return nil }
func verifSetNumCPU(n int)                              {}
func verifGoOrder(perm []int)                           {}
func verifMapOrderBudget(n int)                         {}
func verifTraceStart()                                  {}
func verifTraceEvent(kind string)                       {}
func verifScheduleCheck(cpus int, stepEncoding int)                       {}
func verifTraceAccesses(on bool)                        {}
func verifRaceCheck()                                   {}

func verifColorOutput(on bool)     {}
func verifCaptureOutput(on bool)   {}
func verifCapturedParts() []string { return nil }
func verifSetGOMAXPROCS(n int) {}
