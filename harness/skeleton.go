//go:build verif

package actionlint

import "gopkg.in/yaml.v3"

// A clean workflow that has one instance of every fixed-key mapping of the
// workflow syntax (DESIGN.md Appendix B). Harnesses inject symbolic entries
// into its mappings or replace its scalars.
const verifSkeleton = `
name: n
run-name: r
on:
  push:
    branches: [main]
  pull_request:
    types: [opened]
  schedule:
    - cron: '0 0 * * *'
  workflow_dispatch:
    inputs:
      di:
        description: d
        type: choice
        options: [a]
  repository_dispatch:
    types: [t]
  workflow_call:
    inputs:
      ci:
        type: string
    secrets:
      cs:
        description: d
    outputs:
      co:
        value: v
permissions:
  contents: read
env:
  E: v
defaults:
  run:
    shell: bash
concurrency:
  group: g
jobs:
  j1:
    runs-on:
      labels: [self-hosted, linux, x64]
    environment:
      name: e
    concurrency:
      group: g
    defaults:
      run:
        shell: bash
    strategy:
      matrix:
        os: [a]
        include:
          - os: b
        exclude:
          - os: a
    container:
      image: i
      credentials:
        username: u
        password: ${{ secrets.cs }}
    services:
      s1:
        image: i
    outputs:
      o: v
    env:
      E: v
    permissions:
      contents: read
    steps:
      - run: echo
        env:
          E: v
      - uses: actions/checkout@v4
        with:
          ref: x
  j2:
    uses: ./.github/workflows/w.yml
    with:
      a: b
    secrets:
      s: t
`

// A clean workflow that uses every key of the syntax once (positions for C12 /
// C03 / C07); numbers and booleans are given as ${{ }}-capable strings where
// the syntax allows an expression.
const verifSkeletonFull = `
name: n
run-name: r
on:
  push:
    branches: [main]
    tags: [v1]
    paths: [src]
  pull_request:
    types: [opened]
    branches-ignore: [x]
    paths-ignore: [docs]
  workflow_run:
    workflows: [w]
  schedule:
    - cron: '0 0 * * *'
  workflow_dispatch:
    inputs:
      di:
        description: d
        required: true
        default: a
        type: choice
        options: [a]
  repository_dispatch:
    types: [t]
  workflow_call:
    inputs:
      ci:
        description: d
        required: false
        default: x
        type: string
    secrets:
      cs:
        description: d
        required: false
    outputs:
      co:
        description: d
        value: v
permissions:
  contents: read
env:
  E: v
defaults:
  run:
    shell: bash
    working-directory: d
concurrency:
  group: g
  cancel-in-progress: true
jobs:
  j1:
    name: n
    runs-on:
      group: g
      labels: [ubuntu-latest]
    if: true
    timeout-minutes: 5
    continue-on-error: false
    environment:
      name: e
      url: https://example.com
    concurrency:
      group: g
      cancel-in-progress: true
    defaults:
      run:
        shell: bash
        working-directory: d
    strategy:
      fail-fast: true
      max-parallel: 2
      matrix:
        os: [a, b]
        cfg:
          - k: v
            l: [w]
            m: ['${{ fromJSON(github.sha) }}', z]
        include:
          - os: c
            cfg:
              k: x
        exclude:
          - os: a
    container:
      image: i
      credentials:
        username: u
        password: ${{ secrets.cs }}
      env:
        CE: v
      ports: ['80']
      volumes: ['/a:/b']
      options: --cpus 1
    services:
      s1:
        image: i
        credentials:
          username: u
          password: ${{ secrets.cs }}
        env:
          SE: v
        ports: ['80']
        volumes: ['/a:/b']
        options: --cpus 1
    outputs:
      o: v
    env:
      E: v
    permissions:
      contents: read
    steps:
      - run: echo
        id: s1
        name: n
        if: true
        shell: bash
        working-directory: d
        timeout-minutes: 5
        continue-on-error: false
        env:
          E: v
      - uses: actions/checkout@v4
        with:
          ref: x
      - uses: docker://alpine
        with:
          entrypoint: e
          args: a
  j2:
    needs: [j1]
    uses: ./.github/workflows/w.yml
    with:
      a: b
    secrets:
      s: t
  j3:
    runs-on:
      group: g3
      labels: ${{ github.ref_name }}
    container: img
    environment: e
    concurrency: g
    steps:
      - run: echo
  j4:
    runs-on: [self-hosted, linux, x64]
    steps:
      - run: echo
`

type verifCtx int

const (
	cxNone verifCtx = iota
	cxWorkflow
	cxOn
	cxWebhook
	cxScheduleSeq
	cxScheduleItem
	cxWfDispatch
	cxDispatchInputs
	cxDispatchInput
	cxRepoDispatch
	cxWfCall
	cxCallInputs
	cxCallInput
	cxCallSecrets
	cxCallSecret
	cxCallOutputs
	cxCallOutput
	cxPerms
	cxEnv
	cxDefaults
	cxDefaultsRun
	cxConcurrency
	cxJobs
	cxJob
	cxRunsOn
	cxEnvironment
	cxStrategy
	cxMatrix
	cxMatrixComboSeq
	cxMatrixCombo
	cxMatrixRowSeq
	cxContainer
	cxCredentials
	cxServices
	cxOutputs
	cxStepsSeq
	cxStep
	cxWith
	cxSecrets
	cxRaw // anything below a matrix value
	cxLeaf
)

var verifCtxName = map[verifCtx]string{
	cxWorkflow: "workflow", cxOn: "on", cxWebhook: "on.<webhook>", cxScheduleItem: "on.schedule[]", cxWfDispatch: "on.workflow_dispatch",
	cxDispatchInputs: "on.workflow_dispatch.inputs", cxDispatchInput: "on.workflow_dispatch.inputs.<id>", cxRepoDispatch: "on.repository_dispatch",
	cxWfCall: "on.workflow_call", cxCallInputs: "on.workflow_call.inputs", cxCallInput: "on.workflow_call.inputs.<id>",
	cxCallSecrets: "on.workflow_call.secrets", cxCallSecret: "on.workflow_call.secrets.<id>", cxCallOutputs: "on.workflow_call.outputs",
	cxCallOutput: "on.workflow_call.outputs.<id>", cxPerms: "permissions", cxEnv: "env", cxDefaults: "defaults", cxDefaultsRun: "defaults.run",
	cxConcurrency: "concurrency", cxJobs: "jobs", cxJob: "jobs.<id>", cxRunsOn: "runs-on", cxEnvironment: "environment", cxStrategy: "strategy",
	cxMatrix: "matrix", cxMatrixCombo: "matrix.include/exclude[]", cxContainer: "container", cxCredentials: "credentials", cxServices: "services",
	cxOutputs: "outputs", cxStep: "steps[]", cxWith: "with", cxSecrets: "secrets", cxRaw: "matrix value",
}

// verifFixedKeys: the accepted keys of the fixed-key (case-sensitive) contexts.
func verifFixedKeys(c verifCtx) ([]string, bool) {
	switch c {
	case cxWorkflow:
		return []string{"name", "run-name", "on", "permissions", "env", "defaults", "concurrency", "jobs"}, true
	case cxWebhook:
		return []string{"types", "branches", "branches-ignore", "tags", "tags-ignore", "paths", "paths-ignore", "workflows"}, true
	case cxScheduleItem:
		return []string{"cron"}, true
	case cxWfDispatch:
		return []string{"inputs"}, true
	case cxDispatchInput:
		return []string{"description", "required", "default", "type", "options"}, true
	case cxRepoDispatch:
		return []string{"types"}, true
	case cxWfCall:
		return []string{"inputs", "secrets", "outputs"}, true
	case cxCallInput:
		return []string{"description", "required", "default", "type"}, true
	case cxCallSecret:
		return []string{"description", "required"}, true
	case cxCallOutput:
		return []string{"description", "value"}, true
	case cxDefaults:
		return []string{"run"}, true
	case cxDefaultsRun:
		return []string{"shell", "working-directory"}, true
	case cxConcurrency:
		return []string{"group", "cancel-in-progress"}, true
	case cxJob:
		return []string{"name", "needs", "runs-on", "permissions", "environment", "concurrency", "outputs", "env", "defaults", "if",
			"steps", "timeout-minutes", "strategy", "continue-on-error", "container", "services", "uses", "with", "secrets"}, true
	case cxRunsOn:
		return []string{"labels", "group"}, true
	case cxEnvironment:
		return []string{"name", "url"}, true
	case cxStrategy:
		return []string{"matrix", "fail-fast", "max-parallel"}, true
	case cxContainer:
		return []string{"image", "credentials", "env", "ports", "volumes", "options"}, true
	case cxCredentials:
		return []string{"username", "password"}, true
	case cxStep:
		return []string{"id", "if", "name", "env", "continue-on-error", "timeout-minutes", "uses", "with", "run", "working-directory", "shell"}, true
	}
	return nil, false // user-chosen keys
}

// verifCaseInsensitive: contexts whose (user-chosen) keys are compared after ASCII folding.
func verifCaseInsensitive(c verifCtx) bool {
	switch c {
	case cxDispatchInputs, cxCallInputs, cxCallSecrets, cxCallOutputs, cxPerms, cxEnv, cxJobs, cxMatrix, cxMatrixCombo, cxServices,
		cxOutputs, cxWith, cxSecrets, cxRaw:
		return true
	}
	return false
}

func verifChildCtx(c verifCtx, key string, val *yaml.Node) verifCtx {
	switch c {
	case cxWorkflow:
		switch key {
		case "on":
			return cxOn
		case "permissions":
			return cxPerms
		case "env":
			return cxEnv
		case "defaults":
			return cxDefaults
		case "concurrency":
			return cxConcurrency
		case "jobs":
			return cxJobs
		}
	case cxOn:
		switch key {
		case "schedule":
			return cxScheduleSeq
		case "workflow_dispatch":
			return cxWfDispatch
		case "repository_dispatch":
			return cxRepoDispatch
		case "workflow_call":
			return cxWfCall
		}
		return cxWebhook
	case cxWfDispatch:
		if key == "inputs" {
			return cxDispatchInputs
		}
	case cxDispatchInputs:
		return cxDispatchInput
	case cxWfCall:
		switch key {
		case "inputs":
			return cxCallInputs
		case "secrets":
			return cxCallSecrets
		case "outputs":
			return cxCallOutputs
		}
	case cxCallInputs:
		return cxCallInput
	case cxCallSecrets:
		return cxCallSecret
	case cxCallOutputs:
		return cxCallOutput
	case cxDefaults:
		if key == "run" {
			return cxDefaultsRun
		}
	case cxJobs:
		return cxJob
	case cxJob:
		switch key {
		case "runs-on":
			return cxRunsOn
		case "permissions":
			return cxPerms
		case "environment":
			return cxEnvironment
		case "concurrency":
			return cxConcurrency
		case "outputs":
			return cxOutputs
		case "env":
			return cxEnv
		case "defaults":
			return cxDefaults
		case "steps":
			return cxStepsSeq
		case "strategy":
			return cxStrategy
		case "container":
			return cxContainer
		case "services":
			return cxServices
		case "with":
			return cxWith
		case "secrets":
			return cxSecrets
		}
	case cxStrategy:
		if key == "matrix" {
			return cxMatrix
		}
	case cxMatrix:
		if key == "include" || key == "exclude" {
			return cxMatrixComboSeq
		}
		return cxMatrixRowSeq
	case cxMatrixCombo, cxRaw:
		return cxRaw
	case cxContainer:
		switch key {
		case "credentials":
			return cxCredentials
		case "env":
			return cxEnv
		}
	case cxServices:
		return cxContainer
	case cxStep:
		switch key {
		case "env":
			return cxEnv
		case "with":
			return cxWith
		}
	}
	return cxLeaf
}

type verifMapSite struct {
	node *yaml.Node
	ctx  verifCtx
}

// verifScalarSite is a scalar value position of the skeleton.
type verifScalarSite struct {
	node *yaml.Node
	ctx  verifCtx // context of the mapping that holds it (or of the sequence's owner)
	key  string   // key under which it (or its sequence) sits
	path string   // generalised syntax path, e.g. jobs.<job_id>.steps.run
}

type verifSites struct {
	maps    []verifMapSite
	scalars []verifScalarSite
}

// verifPathElem generalises user-chosen ids the way GitHub's documentation writes them.
func verifPathElem(c verifCtx, parentPath, key string) string {
	switch c {
	case cxJobs:
		return "<job_id>"
	case cxServices:
		return "<service_id>"
	case cxOutputs:
		return "<output_id>"
	case cxCallInputs:
		return "<inputs_id>"
	case cxCallOutputs:
		return "<output_id>"
	case cxSecrets:
		return "<secrets_id>"
	case cxWith:
		if parentPath == "jobs.<job_id>.with" {
			return "<with_id>"
		}
	case cxEnv:
		if parentPath == "jobs.<job_id>.container.env" || parentPath == "jobs.<job_id>.services.<service_id>.env" {
			return "<env_id>"
		}
	}
	return key
}

func (s *verifSites) walk(n *yaml.Node, c verifCtx, key string, owner verifCtx) {
	s.walkP(n, c, key, owner, "")
}

func (s *verifSites) walkP(n *yaml.Node, c verifCtx, key string, owner verifCtx, path string) {
	switch n.Kind {
	case yaml.MappingNode:
		if c == cxLeaf || c == cxNone {
			return
		}
		s.maps = append(s.maps, verifMapSite{n, c})
		for k := 0; k+1 < len(n.Content); k += 2 {
			kk := n.Content[k].Value
			pe := verifPathElem(c, path, kk)
			np := pe
			if path != "" {
				np = path + "." + pe
			}
			s.walkP(n.Content[k+1], verifChildCtx(c, kk, n.Content[k+1]), kk, c, np)
		}
	case yaml.SequenceNode:
		ec := cxLeaf
		switch c {
		case cxScheduleSeq:
			ec = cxScheduleItem
		case cxStepsSeq:
			ec = cxStep
		case cxMatrixComboSeq:
			ec = cxMatrixCombo
		case cxMatrixRowSeq, cxRaw:
			ec = cxRaw
		}
		for _, e := range n.Content {
			if e.Kind == yaml.ScalarNode {
				s.scalars = append(s.scalars, verifScalarSite{e, owner, key, path})
			} else {
				s.walkP(e, ec, key, owner, path)
			}
		}
	case yaml.ScalarNode:
		s.scalars = append(s.scalars, verifScalarSite{n, owner, key, path})
	}
}

// verifSkeletonSites parses the skeleton and lists its mapping and scalar sites.
func verifSkeletonSites() (*yaml.Node, *verifSites) { return verifSkeletonSitesOf(verifSkeleton) }

// verifFullSkeletonSites: the full skeleton as written, or (free choice "mirror") with the
// entries of every mapping in reverse order — `with` before `uses`, `shell` before `run`,
// `labels` before `group`, `exclude` before the rows …: the order of keys in a mapping has no
// meaning in the workflow syntax.
func verifFullSkeletonSites() (*yaml.Node, *verifSites) {
	doc, sites := verifSkeletonSitesOf(verifSkeletonFull)
	if verifChoose("mirror", 2) == 1 {
		verifMirror(doc)
	}
	return doc, sites
}

func verifMirror(n *yaml.Node) {
	if n.Kind == yaml.MappingNode {
		c := n.Content
		for i, j := 0, len(c)-2; i < j; i, j = i+2, j-2 {
			c[i], c[j] = c[j], c[i]
			c[i+1], c[j+1] = c[j+1], c[i+1]
		}
	}
	for _, ch := range n.Content {
		verifMirror(ch)
	}
}

func verifSkeletonSitesOf(src string) (*yaml.Node, *verifSites) {
	doc := verifParseYAML(src)
	s := &verifSites{}
	s.walk(doc.Content[0], cxWorkflow, "", cxNone)
	return doc, s
}

func verifKeyIn(k string, set []string) bool {
	r := false
	for _, s := range set {
		if len(s) == len(k) {
			r = verifOr(r, k == s)
		}
	}
	return r
}

// verifFoldEq: ASCII case-insensitive equality of equally long strings (circuit style).
func verifFoldEq(a, b string) bool {
	if len(a) != len(b) {
		return false
	}
	r := true
	for i := 0; i < len(a); i++ {
		r = verifAnd(r, verifLowerByte(a[i]) == verifLowerByte(b[i]))
	}
	return r
}

func verifLowerByte(c byte) byte {
	return verifIteByte(verifAnd('A' <= c, c <= 'Z'), c+0x20, c)
}

func verifPresent(m *yaml.Node, k string, fold bool, upto int) bool {
	r := false
	for i := 0; i+1 < len(m.Content) && i < upto; i += 2 {
		kk := m.Content[i].Value
		if len(kk) != len(k) {
			continue
		}
		if fold {
			r = verifOr(r, verifFoldEq(k, kk))
		} else {
			r = verifOr(r, k == kk)
		}
	}
	return r
}
