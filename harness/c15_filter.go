//go:build verif

package actionlint

import (
	"io"
	"regexp"
	"strconv"
)

type verifC15State struct {
	cli  [][]bool // cli[p][e]: CLI pattern p matches diagnostic e
	cfg  [][]bool // cfg[c][e]: pattern of path config c matches diagnostic e
	glob []bool   // glob[c]: path config c applies to the file
}

var verifC15 verifC15State

func verifC15Index(s string) int {
	n, _ := strconv.Atoi(s[1:])
	return n
}

func verifC15Match(re *regexp.Regexp, s string) bool {
	p := re.String() // "c<i>" for CLI pattern i, "g<i>" for the pattern of path config i
	e := verifC15Index(s)
	if p[0] == 'c' {
		return verifC15.cli[verifC15Index(p)][e]
	}
	return verifC15.cfg[verifC15Index(p)][e]
}

func verifC15Glob(pattern, name string) bool {
	return verifC15.glob[verifC15Index(pattern)]
}

// HarnessC15Filter: n diagnostics, p command-line patterns, c path configs;
// every regular-expression and glob outcome is a free boolean. The filtered
// list must be exactly the input minus the diagnostics matched by a CLI
// pattern or by the pattern of a path config whose glob matches the file, in
// unchanged order.
func HarnessC15Filter(n, np, nc int) {
	st := &verifC15
	mk := func(tag string, rows int) [][]bool {
		m := make([][]bool, rows)
		for i := range m {
			m[i] = make([]bool, n)
			for e := 0; e < n; e++ {
				m[i][e] = verifSymBool(tag + strconv.Itoa(i) + "_" + strconv.Itoa(e))
			}
		}
		return m
	}
	st.cli, st.cfg = mk("cli", np), mk("cfg", nc)
	st.glob = make([]bool, nc)
	for c := range st.glob {
		st.glob[c] = verifSymBool("glob" + strconv.Itoa(c))
	}
	native := verifIsNative()
	if !native {
		verifOverride("(*regexp.Regexp).MatchString", verifC15Match)
		verifOverride("github.com/bmatcuk/doublestar/v4.MatchUnvalidated", verifC15Glob)
	}

	l := verifLinter("", "", "")
	for p := 0; p < np; p++ {
		l.ignorePats = append(l.ignorePats, regexp.MustCompile("c"+strconv.Itoa(p)))
	}
	// the configuration is built by the repository's own ParseConfig from text (no struct
	// literals here: the harness does not depend on how Config represents its entries)
	cfgText := ""
	for c := 0; c < nc; c++ {
		key := "g" + strconv.Itoa(c)
		if native {
			// realise the glob outcome with a real pattern (distinct keys)
			if st.glob[c] {
				key = "dir/w.y{aml,xx" + strconv.Itoa(c) + "}"
			} else {
				key = "other" + strconv.Itoa(c) + "/**"
			}
		}
		cfgText += "  \"" + key + "\":\n    ignore:\n      - g" + strconv.Itoa(c) + "\n"
	}
	cfg := &Config{}
	if nc > 0 {
		cfg = verifConfig("paths:\n" + cfgText)
	}
	errs := make([]*Error, n)
	for e := range errs {
		msg := "e" + strconv.Itoa(e)
		if native {
			// realise the match matrix: the message carries the name of every pattern that matches it
			for p := 0; p < np; p++ {
				if st.cli[p][e] {
					msg += " c" + strconv.Itoa(p)
				}
			}
			for c := 0; c < nc; c++ {
				if st.cfg[c][e] {
					msg += " g" + strconv.Itoa(c)
				}
			}
		}
		errs[e] = &Error{Message: msg, Line: e + 1, Column: 1, Kind: "k"}
	}
	verifMapOrder(true)
	out := l.filterErrors(errs, cfg.PathConfigs("dir/w.yaml"))
	verifMapOrder(false)

	k := 0
	for e := 0; e < n; e++ {
		drop := false
		for p := 0; p < np; p++ {
			drop = verifOr(drop, st.cli[p][e])
		}
		for c := 0; c < nc; c++ {
			drop = verifOr(drop, verifAnd(st.glob[c], st.cfg[c][e]))
		}
		present := k < len(out) && out[k] == errs[e]
		if present {
			verifReach("kept")
			verifCheck(verifNot(drop), "matching-diagnostic-kept")
			k++
		} else {
			verifReach("dropped")
			verifCheck(drop, "non-matching-diagnostic-dropped-or-reordered")
		}
	}
	verifCheck(k == len(out), "filtered-list-has-extra-entries")
}

// ---- working-directory independence (finite family) ----

type verifC15Cwd struct {
	globArgs []string
}

var verifC15c verifC15Cwd

func verifC15RecGlob(pattern, name string) bool {
	verifC15c.globArgs = append(verifC15c.globArgs, name)
	return false
}

func verifC15ReadFile(name string) ([]byte, error) { return []byte("on: push\n"), nil }

type verifFakeInfo struct{ dir bool }

func verifC15Parse(b []byte) (*Workflow, []*Error) {
	return &Workflow{}, []*Error{{Message: "m", Line: 1, Column: 1, Kind: "syntax-check"}}
}

func verifC15RepoConfig(root string) (*Config, error) {
	if root == "/r" {
		return verifConfig("paths:\n  .github/workflows/*.yml:\n    ignore: []\n"), nil
	}
	return nil, nil
}

// verifC15FindProject stands for the file-system walk of findProject on the
// virtual tree /r/.git, /r/.github/workflows/w.yml.
func verifC15FindProject(path string) (*Project, error) {
	d := absPath(path)
	if d == "/r" || (len(d) > 3 && d[:3] == "/r/") {
		return NewProject("/r")
	}
	return nil, nil
}

func verifC15FindProjectRoot(path string) string {
	d := absPath(path)
	if d == "/r" || (len(d) > 3 && d[:3] == "/r/") {
		return "/r"
	}
	return ""
}

// HarnessC15Cwd: the same file /r/.github/workflows/w.yml is linted from four
// working directories with three spellings of the path; the string handed to
// the glob matcher of the `paths` configuration must always be the
// repository-relative slash path.
func HarnessC15Cwd() {
	cwds := []string{"/r", "/", "/r/.github", "/x"}
	cwd := cwds[verifChoose("cwd", len(cwds))]
	abs := "/r/.github/workflows/w.yml"
	rel := map[string]string{"/r": ".github/workflows/w.yml", "/": "r/.github/workflows/w.yml", "/r/.github": "workflows/w.yml", "/x": "../r/.github/workflows/w.yml"}[cwd]
	var arg string
	switch verifChoose("spelling", 3) {
	case 0:
		arg = abs
	case 1:
		arg = rel
	case 2:
		arg = "./" + rel
	}
	if verifIsNative() {
		// native replay: a real directory tree, a real actionlint.yaml whose `paths`
		// entry ignores everything, real chdir; the observable is whether the
		// ignore configuration is applied
		verifC15NativeCwd(cwd, arg)
		return
	}
	verifSetCwd(cwd)
	verifC15c.globArgs = nil
	verifOverride("os.ReadFile", verifC15ReadFile)
	verifOverride("findProject", verifC15FindProject)
	verifOverride("findProjectRoot", verifC15FindProjectRoot)
	verifOverride("loadRepoConfig", verifC15RepoConfig)
	verifOverride("Parse", verifC15Parse)
	verifOverride("github.com/bmatcuk/doublestar/v4.MatchUnvalidated", verifC15RecGlob)
	l := verifLinter(cwd, "", "")
	errs, err := l.LintFile(arg, nil)
	verifCheck(err == nil, "lint-failed")
	verifCheck(len(errs) == 1, "diagnostic-lost")
	verifReach("linted")
	verifCheck(len(verifC15c.globArgs) == 1, "paths-glob-not-consulted-exactly-once")
	for _, g := range verifC15c.globArgs {
		verifCheckf(g == ".github/workflows/w.yml", "paths-glob-matched-against-cwd-relative-path", cwd+" "+arg+" -> "+g)
	}
}

// ---- the filter is applied to every diagnostic of a file, whatever produced it ----

var verifC15Src string

func verifC15ReadSrc(name string) ([]byte, error) { return []byte(verifC15Src), nil }

var verifC15PathsPattern string

func verifC15RepoConfigPat(root string) (*Config, error) {
	if root == "/r" && verifC15PathsPattern != "" {
		return verifConfig("paths:\n  .github/workflows/*.yml:\n    ignore:\n      - '" + verifC15PathsPattern + "'\n"), nil
	}
	return nil, nil
}

// HarnessC15Check: Linter.LintFile end to end on a well-formed workflow with
// one diagnostic and on text that is not YAML at all (the only diagnostic comes
// from the YAML decoder); an ignore pattern given on the command line or in
// the `paths` configuration; kept = not matched.
func HarnessC15Check() {
	srcs := []string{
		"on: push\njobs:\n  a:\n    runs-on: ubuntu-latest\n    steps:\n      - run: echo ${{ unknown.x }}\n",
		"on: [push\njobs: {\n",
		"on: push\njobs:\n  a:\n    runs-on: ubuntu-latest\n    steps:\n      - run: echo\n      nope\n",
	}
	// patterns are matched against the message text only: anchors refer to the message, and text
	// that only occurs in the printed form (position, [kind]) matches nothing
	pats := []string{"undefined variable", "could not parse", "no such text", "^undefined variable", `\[expression\]$`, `^:[0-9]+:`, `more details$|^could not parse|key "nope"`, "UNDEFINED VARIABLE"}
	src := srcs[verifChoose("source", len(srcs))]
	pat := pats[verifChoose("pattern", len(pats))]
	viaConfig := verifChoose("via", 2) == 1
	if verifIsNative() {
		verifC15NativeCheck(src, pat, viaConfig)
		return
	}
	verifSetCwd("/r")
	verifC15Src = src
	verifOverride("os.ReadFile", verifC15ReadSrc)
	verifOverride("findProject", verifC15FindProject)
	verifOverride("findProjectRoot", verifC15FindProjectRoot)
	verifOverride("loadRepoConfig", verifC15RepoConfigPat)
	verifC15PathsPattern = ""
	l0 := verifLinter("/r", "", "")
	all, err := l0.LintFile(".github/workflows/w.yml", nil)
	verifCheck(err == nil && len(all) >= 1, "lint-failed")
	// on the command line the pattern comes second, after one with an inline flag that matches nothing:
	// every -ignore pattern is applied on its own
	first := "(?i)NO SUCH DIAGNOSTIC"
	l := verifLinter("/r", "", "")
	if viaConfig {
		verifC15PathsPattern = pat
	} else {
		var err error
		l, err = NewLinter(io.Discard, &LinterOptions{WorkingDir: "/r", IgnorePatterns: []string{first, pat}})
		verifCheck(err == nil && l != nil, "harness-linter-not-created")
		if l == nil {
			return
		}
	}
	errs, err := l.LintFile(".github/workflows/w.yml", nil)
	verifCheck(err == nil, "lint-failed")
	verifReach("linted")
	re := regexp.MustCompile(pat)
	want := 0
	for _, e := range all {
		if !re.MatchString(e.Message) {
			want++
		}
	}
	if want < len(all) {
		verifReach("pattern-matches")
	}
	verifCheckf(len(errs) == want, "ignore-pattern-not-applied-to-every-diagnostic", pat)
}

// HarnessC15MultiRepo: two repositories, each with its own `paths` ignore
// configuration, linted in one run (either order): every file is filtered by
// the configuration of its own repository, exactly as when it is linted alone.
func HarnessC15MultiRepo() {
	wf := "on: push\njobs:\n  j:\n    runs-on: ubuntu-latest\n    steps:\n      - run: echo ${{ unknown.x }}\n      - run: echo ${{ github.nope }}\n"
	paths := []string{"/r/.github/workflows/a.yml", "/s/.github/workflows/b.yml"}
	if verifIsNative() {
		verifC15NativeMultiRepo(wf, verifChoose("order", 2), verifChoose("format", 2))
		return
	}
	verifC10Files = map[string]string{paths[0]: wf, paths[1]: wf}
	verifC10Cfg = map[string]*Config{
		"/r": verifConfig("paths:\n  .github/workflows/*.yml:\n    ignore:\n      - undefined variable\n"),
		"/s": verifConfig("paths:\n  .github/workflows/*.yml:\n    ignore:\n      - is not defined in object type\n"),
	}
	verifSetCwd("/")
	verifOverride("os.ReadFile", verifC10ReadFile)
	verifOverride("findProject", verifC10FindProject)
	verifOverride("findProjectRoot", verifC10FindProjectRoot)
	verifOverride("loadRepoConfig", verifC10RepoConfig)
	single := make([]string, len(paths))
	for k, p := range paths {
		l := verifLinter("", "", "")
		errs, err := l.LintFile(p, nil)
		verifCheck(err == nil, "lint-failed")
		single[k] = verifC10Digest(errs, p)
		verifCheckf(len(errs) == 1, "each-repository-ignores-one-of-the-two-diagnostics", verifErrTextConc(errs))
	}
	ord := [][]int{{0, 1}, {1, 0}}[verifChoose("order", 2)]
	l := verifLinter("", "", "")
	if verifChoose("format", 2) == 1 {
		// -format: the diagnostics go through the template printer (replaced by
		// a counter here); what LintFiles returns is the same list
		l.errFmt = &ErrorFormatter{rules: map[string]*ruleTemplateFields{}}
		verifC15Printed = -1
		verifOverride("(*ErrorFormatter).Print", verifC15Print)
	}
	if verifChoose("goroutines", 2) == 1 {
		verifGoOrder([]int{1, 0}) // both goroutines started before either runs; second one first
	}
	errs, err := l.LintFiles([]string{paths[ord[0]], paths[ord[1]]}, nil)
	verifGoOrder(nil)
	verifCheck(err == nil, "lint-failed")
	verifReach("linted")
	if l.errFmt != nil {
		verifCheck(verifC15Printed == len(errs), "formatted-output-and-returned-diagnostics-differ")
	}
	for k, p := range paths {
		verifCheckf(verifC10Digest(errs, p) == single[k], "file-filtered-by-another-repository's-configuration", p)
	}
}

var verifC15Printed int

func verifC15Print(f *ErrorFormatter, out io.Writer, t []*ErrorTemplateFields) error {
	verifC15Printed = len(t)
	return nil
}

// HarnessC15IgnoreItems: the `ignore` list of a `paths` entry in actionlint.yaml
// as written by the user: plain string, quoted string, alias of an anchored
// string, empty item, nested sequence, mapping. A string item (an alias
// included) becomes exactly that pattern; anything else is a configuration
// error — it must not become a pattern that matches every message.
func HarnessC15IgnoreItems() {
	items := []struct {
		yaml string
		pat  string // "" = not a string: configuration error expected
	}{
		{"foo bar", "foo bar"}, {"'quoted'", "quoted"}, {"*lbl", "label text"}, {"", ""}, {"[a, b]", ""}, {"{a: b}", ""}, {"~", ""},
	}
	it := items[verifChoose("item", len(items))]
	src := "self-hosted-runner:\n  labels:\n    - &lbl label text\npaths:\n  \"**/*.yml\":\n    ignore:\n      - " + it.yaml + "\n"
	cfg, err := ParseConfig([]byte(src))
	verifReach("parsed")
	if it.pat == "" {
		verifCheckf(err != nil, "ignore-item-that-is-not-a-string-matches-everything", it.yaml)
		return
	}
	verifCheckf(err == nil, "string-ignore-item-rejected", it.yaml)
	if err != nil {
		return
	}
	pc := cfg.Paths["**/*.yml"]
	verifCheck(len(pc.Ignore) == 1, "ignore-item-lost")
	if len(pc.Ignore) == 1 {
		verifCheckf(pc.Ignore[0].String() == it.pat, "ignore-item-is-not-the-pattern-written", pc.Ignore[0].String())
	}
}

// verifConfig: an actionlint.yaml given as text, decoded by the repository's ParseConfig.
func verifConfig(text string) *Config {
	c, err := ParseConfig([]byte(text))
	if err != nil {
		verifCheckf(false, "harness-configuration-rejected", err.Error())
		return &Config{}
	}
	return c
}
