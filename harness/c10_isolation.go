//go:build verif

package actionlint

import "gopkg.in/yaml.v3"

// HarnessC10Echo: like C16's echo harness, but what is checked is that linting
// a file with arbitrary user text at any scalar position never writes to memory
// that existed before the lint started: the package-level tables (webhook
// types, contexts, functions, popular actions, runner labels, ...) and the
// shared *Config. One sequential proof obligation per store instruction covers
// both "built-in tables are never modified" and "no data race on shared data
// between files linted concurrently" for these objects.
func HarnessC10Echo(L int, prefix int) {
	cfg := &Config{ConfigVariables: []string{"zeta", "alpha", "mid"}}
	verifFreeze("shared Config", cfg)
	verifMonitorGlobals(true)
	doc, sites := verifFullSkeletonSites()
	site := sites.scalars[verifChoose("scalar", len(sites.scalars))]
	pre := []string{"", "${{ vars.", "${{ "}[prefix]
	post := []string{"", " }}", " }}"}[prefix]
	site.node.Tag, site.node.Style = "!!str", 0
	site.node.Value = pre + verifSymString("text", L) + post
	verifPlace(doc, 1, 0)
	rules := verifRulesNoDeprecated()
	for _, r := range rules {
		r.SetConfig(cfg)
	}
	verifLintNode(doc, rules)
	verifMonitorGlobals(false)
	verifReach("linted")
}

var verifHooks = []string{"branch_protection_rule", "check_run", "check_suite", "create", "delete", "deployment", "deployment_status", "discussion",
	"discussion_comment", "fork", "gollum", "issue_comment", "issues", "label", "merge_group", "milestone", "page_build", "project", "project_card",
	"project_column", "public", "pull_request", "pull_request_review", "pull_request_review_comment", "pull_request_target", "push",
	"registry_package", "release", "repository_dispatch", "status", "watch", "workflow_run"}

// HarnessC10Types: `on: <hook>: types: [T]` with T symbolic for every webhook.
func HarnessC10Types(L int) {
	verifMonitorGlobals(true)
	hook := verifHooks[verifChoose("hook", len(verifHooks))]
	T := verifSymString("type", L)
	doc := yDoc(yMap(
		yScalar("on"), yMap(yScalar(hook), yMap(yScalar("types"), ySeq(yScalar(T)))),
		yScalar("jobs"), yMap(yScalar("j"), yMap(yScalar("runs-on"), yScalar("ubuntu-latest"), yScalar("steps"), ySeq(yMap(yScalar("run"), yScalar("echo"))))),
	))
	verifPlace(doc, 1, 0)
	errs := verifLintNode(doc, verifRulesNoDeprecated())
	verifMonitorGlobals(false)
	if len(errs) > 0 {
		verifReach("reported")
	}
	verifReach("linted")
}

var _ = yaml.ScalarNode

// HarnessC10Knows: a path is attributed to a project iff it is the root or lies
// below it (root and path absolute and clean, over a small alphabet).
func HarnessC10Knows(lr, lp int) {
	root := verifSymString("root", lr)
	path := verifSymString("path", lp)
	ok := func(s string) bool {
		r := true
		for i := 0; i < len(s); i++ {
			c := s[i]
			r = verifAnd(r, verifOr(verifOr(c == '/', c == 'a'), verifOr(c == 'b', c == '.')))
			if i > 0 {
				r = verifAnd(r, verifNot(verifAnd(s[i-1] == '/', c == '/'))) // no "//"
			}
		}
		if len(s) > 0 {
			r = verifAnd(r, s[0] == '/')
		}
		if len(s) > 1 {
			r = verifAnd(r, s[len(s)-1] != '/')
		}
		return r
	}
	verifAssumeNote(verifAnd(ok(root), ok(path)), "C10 Knows: root and path are absolute, slash-clean paths over {/, a, b, .} (filepath.Abs is then the identity)")
	p := &Project{root: root}
	got := p.Knows(path)
	want := false
	if lp == lr {
		want = path == root
	} else if lp > lr {
		want = verifAnd(path[:lr] == root, verifOr(path[lr] == '/', lr == 1)) // root "/" contains every absolute path
	}
	if got {
		verifReach("known")
		verifCheck(want, "file-attributed-to-a-project-that-does-not-contain-it")
	} else {
		verifReach("unknown")
		verifCheck(verifNot(want), "file-inside-project-not-attributed")
	}
}
