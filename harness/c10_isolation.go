//go:build verif

package actionlint

import (
	"os"
	"strings"
	"time"

	"gopkg.in/yaml.v3"
)

// HarnessC10Echo: like C16's echo harness, but what is checked is that linting
// a file with arbitrary user text at any scalar position never writes to memory
// that existed before the lint started: the package-level tables (webhook
// types, contexts, functions, popular actions, runner labels, ...) and the
// shared *Config. One sequential proof obligation per store instruction covers
// both "built-in tables are never modified" and "no data race on shared data
// between files linted concurrently" for these objects.
func HarnessC10Echo(L int, prefix int) {
	cfg := &Config{ConfigVariables: []string{"zeta", "alpha", "mid"}}
	cfg.SelfHostedRunner.Labels = []string{"zeta-runner", "alpha-runner", "mid-*-runner"}
	verifFreeze("shared Config", cfg)
	verifMonitorGlobals(true)
	doc, sites := verifFullSkeletonSites()
	site := sites.scalars[verifChoose("scalar", len(sites.scalars))]
	pre := []string{"", "${{ vars.", "${{ "}[prefix]
	post := []string{"", " }}", " }}"}[prefix]
	site.node.Tag, site.node.Style = "!!str", 0
	site.node.Value = pre + verifSymString("text", L) + post
	verifPlace(doc, 1, 0)
	rules := verifRulesNoDeprecated()
	for _, r := range rules {
		r.SetConfig(cfg)
	}
	verifLintNode(doc, rules)
	verifMonitorGlobals(false)
	verifReach("linted")
}

var verifHooks = []string{"branch_protection_rule", "check_run", "check_suite", "create", "delete", "deployment", "deployment_status", "discussion",
	"discussion_comment", "fork", "gollum", "issue_comment", "issues", "label", "merge_group", "milestone", "page_build", "project", "project_card",
	"project_column", "public", "pull_request", "pull_request_review", "pull_request_review_comment", "pull_request_target", "push",
	"registry_package", "release", "repository_dispatch", "status", "watch", "workflow_run"}

// HarnessC10Types: `on: <hook>: types: [T]` with T symbolic for every webhook.
func HarnessC10Types(L int) {
	verifMonitorGlobals(true)
	hook := verifHooks[verifChoose("hook", len(verifHooks))]
	T := verifSymString("type", L)
	doc := yDoc(yMap(
		yScalar("on"), yMap(yScalar(hook), yMap(yScalar("types"), ySeq(yScalar(T)))),
		yScalar("jobs"), yMap(yScalar("j"), yMap(yScalar("runs-on"), yScalar("ubuntu-latest"), yScalar("steps"), ySeq(yMap(yScalar("run"), yScalar("echo"))))),
	))
	verifPlace(doc, 1, 0)
	errs := verifLintNode(doc, verifRulesNoDeprecated())
	verifMonitorGlobals(false)
	if len(errs) > 0 {
		verifReach("reported")
	}
	verifReach("linted")
}

var _ = yaml.ScalarNode

// HarnessC10Knows: a path is attributed to a project iff it is the root or lies
// below it (root and path absolute and clean, over a small alphabet that has a letter in both cases).
func HarnessC10Knows(lr, lp int) {
	root := verifSymString("root", lr)
	path := verifSymString("path", lp)
	ok := func(s string) bool {
		r := true
		for i := 0; i < len(s); i++ {
			c := s[i]
			r = verifAnd(r, verifOr(verifOr(verifOr(c == '/', c == 'a'), verifOr(c == 'b', c == '.')), c == 'A'))
			if i > 0 {
				r = verifAnd(r, verifNot(verifAnd(s[i-1] == '/', c == '/'))) // no "//"
				// no segment "." or ".." (filepath.Abs would clean them away)
				end1 := i+1 == len(s)
				if !end1 {
					end1 = s[i+1] == '/'
				}
				r = verifAnd(r, verifNot(verifAnd(verifAnd(s[i-1] == '/', c == '.'), end1)))
				if i+1 < len(s) {
					end2 := i+2 == len(s)
					if !end2 {
						end2 = s[i+2] == '/'
					}
					r = verifAnd(r, verifNot(verifAnd(verifAnd(s[i-1] == '/', c == '.'), verifAnd(s[i+1] == '.', end2))))
				}
			}
		}
		if len(s) > 0 {
			r = verifAnd(r, s[0] == '/')
		}
		if len(s) > 1 {
			r = verifAnd(r, s[len(s)-1] != '/')
		}
		return r
	}
	verifAssumeNote(verifAnd(ok(root), ok(path)), "C10 Knows: root and path are absolute, clean paths (no empty, `.` or `..` segment) over {/, a, b, A, .} (filepath.Abs is then the identity; paths are case-sensitive)")
	p := &Project{root: root}
	got := p.Knows(path)
	want := false
	if lp == lr {
		want = path == root
	} else if lp > lr {
		want = verifAnd(path[:lr] == root, verifOr(path[lr] == '/', lr == 1)) // root "/" contains every absolute path
	}
	if got {
		verifReach("known")
		verifCheck(want, "file-attributed-to-a-project-that-does-not-contain-it")
	} else {
		verifReach("unknown")
		verifCheck(verifNot(want), "file-inside-project-not-attributed")
	}
}

// ---- multi-file runs on a virtual file system ----

var verifC10Files = map[string]string{}

func verifC10ReadFile(name string) ([]byte, error) {
	if s, ok := verifC10Files[absPath(name)]; ok {
		return []byte(s), nil
	}
	return nil, &verifC10Err{"no such file " + name}
}

type verifC10Err struct{ s string }

func (e *verifC10Err) Error() string { return e.s }

var verifC10Cfg = map[string]*Config{}

func verifC10RepoConfig(root string) (*Config, error) { return verifC10Cfg[root], nil }

// verifC10FindProject: repositories /r and /s (the file-system walk of findProject on the virtual tree).
func verifC10FindProject(path string) (*Project, error) {
	d := absPath(path)
	for _, root := range []string{"/r", "/s"} {
		if d == root || (len(d) > len(root) && d[:len(root)+1] == root+"/") {
			return NewProject(root)
		}
	}
	return nil, nil
}

// verifC10FindProjectRoot: the same layout for trees in which Projects.At looks for the
// nearest repository root itself (findProjectRoot) and reuses the known project with that root.
func verifC10FindProjectRoot(path string) string {
	d := absPath(path)
	for _, root := range []string{"/r", "/s"} {
		if d == root || (len(d) > len(root) && d[:len(root)+1] == root+"/") {
			return root
		}
	}
	return ""
}

// The file content is a marker; Parse is replaced by the real workflow parser
// on the YAML node tree the marker stands for (the label in it is symbolic, so
// the text cannot go through the native YAML decoder).
var verifC10Docs = map[string]*yaml.Node{}

func verifC10Workflow(label string) *yaml.Node {
	s := yScalar
	doc := yDoc(yMap(s("on"), s("push"), s("jobs"), yMap(s("j"), yMap(
		s("runs-on"), s(label),
		s("steps"), ySeq(yMap(s("run"), s("echo ${{ vars.V }}"))),
	))))
	verifPlace(doc, 1, 0)
	return doc
}

func verifC10Parse(b []byte) (*Workflow, []*Error) {
	p := &parser{}
	w := p.parse(verifC10Docs[string(b)])
	return w, p.errors
}

func verifC10Digest(errs []*Error, path string) string {
	var mine []*Error
	for _, e := range errs {
		// the linter reports paths relative to the working directory where it can (the harnesses'
		// working directory is / or the repository root)
		if e.Filepath == path || absPath(e.Filepath) == path {
			mine = append(mine, e)
		}
	}
	return verifC10DigestAll(mine)
}

func verifC10DigestAll(errs []*Error) string {
	out := ""
	for _, e := range errs {
		out += e.Kind + "@" + string(rune('0'+e.Line)) + ":" + e.Message + "\n"
	}
	return out
}

// HarnessC10MultiFile: two repositories with their own configuration (runner
// labels, configuration variables); three workflow files whose runner label is
// a symbolic two-byte string. Linting the files together (every order, project
// detected per file) must give each file exactly the diagnostics it gets when
// linted alone, and the configurations are not written.
func HarnessC10MultiFile() {
	// file 3 belongs to no repository
	orders := [][]int{{0, 1, 2}, {1, 0, 2}, {2, 1, 0}, {1, 2, 0}, {0, 1}, {1, 0}, {3, 0, 1}, {0, 3, 2}}
	if verifIsNative() {
		// native replay: a real directory tree with two repositories and real configuration files
		lab := verifSymString("label", 2)
		verifC10NativeMulti(lab, orders[verifChoose("order", len(orders))])
		return
	}
	cfgR := &Config{ConfigVariables: []string{"V"}}
	cfgR.SelfHostedRunner.Labels = []string{"zr", "lr"}
	cfgS := &Config{}
	cfgS.SelfHostedRunner.Labels = []string{"zs", "ls"}
	verifC10Cfg = map[string]*Config{"/r": cfgR, "/s": cfgS}
	lab := verifSymString("label", 2)
	verifAssumeNote(verifAnd(verifAnd('a' <= lab[0], lab[0] <= 'z'), verifAnd('a' <= lab[1], lab[1] <= 'z')), "C10 multi-file: the runner label is two lower-case letters")
	paths := []string{"/r/.github/workflows/a.yml", "/s/.github/workflows/b.yml", "/r/.github/workflows/c.yml", "/o/w.yml"}
	verifC10Files = map[string]string{paths[0]: "A", paths[1]: "B", paths[2]: "C", paths[3]: "D"}
	verifC10Docs = map[string]*yaml.Node{"A": verifC10Workflow(lab), "B": verifC10Workflow(lab), "C": verifC10Workflow("lr"), "D": verifC10Workflow("lr")}
	verifOverride("Parse", verifC10Parse)
	verifSetCwd("/")
	verifOverride("os.ReadFile", verifC10ReadFile)
	verifOverride("findProject", verifC10FindProject)
	verifOverride("findProjectRoot", verifC10FindProjectRoot)
	verifOverride("loadRepoConfig", verifC10RepoConfig)
	single := make([]string, len(paths))
	diagnosed := false
	for k, p := range paths {
		l := verifLinter("", "", "")
		errs, err := l.LintFile(p, nil)
		verifCheck(err == nil, "lint-failed")
		single[k] = verifC10Digest(errs, p)
		if len(errs) > 0 && len(single[k]) > 0 {
			diagnosed = true
		}
	}
	if diagnosed {
		verifReach("diagnosed") // vacuity guard: the digests are not all empty
	}
	verifFreeze("configuration of /r", cfgR)
	verifFreeze("configuration of /s", cfgS)
	ord := orders[verifChoose("order", len(orders))]
	var args []string
	for _, k := range ord {
		args = append(args, paths[k])
	}
	l := verifLinter("", "", "")
	// degree of parallelism: the per-file goroutines run at once in spawn order, or as
	// wholes after the last one was started — in spawn order or in reverse
	switch verifChoose("goroutines", 3) {
	case 1:
		verifGoOrder([]int{0, 1, 2})
	case 2:
		verifGoOrder([]int{2, 1, 0})
	}
	errs, err := l.LintFiles(args, nil)
	verifGoOrder(nil)
	verifCheck(err == nil, "lint-failed")
	verifReach("linted")
	for _, k := range ord {
		verifCheckf(verifC10Digest(errs, paths[k]) == single[k], "file-linted-together-differs-from-file-linted-alone", paths[k])
	}
}

// HarnessC10MatrixAlias: matrices built from expressions whose types are
// shared objects (built-in context types, the workflow's inputs type): typing
// the matrix — merging include elements, dropping "include" / "exclude" from a
// matrix given as one expression — must not write to those objects. All
// package-level tables are write-monitored; afterwards a second job of the same
// workflow still sees `inputs.include`.
func HarnessC10MatrixAlias() {
	s := yScalar
	exprs := []string{"github.event", "github", "vars", "inputs", "needs", "github.event.pull_request", "fromJSON(github.sha)"}
	E := "${{ " + exprs[verifChoose("expr", len(exprs))] + " }}"
	var matrix *yaml.Node
	switch verifChoose("shape", 6) {
	case 0:
		matrix = yMap(s("include"), ySeq(s(E), yMap(s("foo"), s("1"))))
	case 1:
		matrix = yMap(s("include"), ySeq(yMap(s("foo"), s("1")), s(E), yMap(s("bar"), s("2"))))
	case 2:
		matrix = s(E)
	case 3:
		matrix = yMap(s("r"), ySeq(s("1")), s("include"), s(E))
	case 4:
		matrix = yMap(s("r"), s(E), s("include"), ySeq(yMap(s("foo"), s("1"))))
	default:
		matrix = yMap(s("include"), ySeq(s(E), s(E), yMap(s("foo"), s("1"))))
	}
	// with workflow_dispatch inputs the checker works on its own copy of the github type; with push it does not
	var on *yaml.Node = s("push")
	cExprs := "echo ${{ github.event.foo.bar }}"
	if verifChoose("trigger", 2) == 1 {
		on = yMap(s("workflow_dispatch"), yMap(s("inputs"), yMap(s("include"), yMap(s("type"), s("string")), s("exclude"), yMap(s("type"), s("string")))))
		cExprs = "echo ${{ inputs.include }} ${{ inputs.exclude }} ${{ github.event.foo.bar }}"
	}
	reps := 1
	if verifIsNative() {
		reps = 40 // Go's own random job order
	}
	for rep := 0; rep < reps; rep++ {
		doc := yDoc(yMap(
			s("on"), on,
			s("jobs"), yMap(
				s("a"), yMap(s("runs-on"), s("ubuntu-latest"), s("steps"), ySeq(yMap(s("run"), s("echo")))),
				s("b"), yMap(s("needs"), ySeq(s("a")), s("runs-on"), s("ubuntu-latest"), s("strategy"), yMap(s("matrix"), matrix),
					s("steps"), ySeq(yMap(s("run"), s("echo ${{ matrix.foo }}")))),
				s("c"), yMap(s("needs"), ySeq(s("b")), s("runs-on"), s("ubuntu-latest"),
					s("steps"), ySeq(yMap(s("run"), s(cExprs)))),
			)))
		verifPlace(doc, 1, 0)
		verifMonitorGlobals(true)
		verifMapOrder(true, "visitJobs", "Visit")
		errs := verifLintNode(doc, verifRulesNoDeprecated())
		verifMapOrder(false)
		verifMonitorGlobals(false)
		for _, e := range errs {
			// job c uses only defined names: whatever job b's matrix was, it stays clean
			verifCheckf(verifNot(verifIsLine(e, doc, "c")), "matrix-typing-changed-a-shared-type", e.Message)
		}
	}
	verifReach("linted")
}

// verifIsLine: the diagnostic sits in the steps of the job with this id.
func verifIsLine(e *Error, doc *yaml.Node, job string) bool {
	jobs := doc.Content[0].Content[3]
	for k := 0; k+1 < len(jobs.Content); k += 2 {
		if jobs.Content[k].Value == job {
			v := jobs.Content[k+1]
			last := v.Content[len(v.Content)-1]
			return e.Line >= last.Line
		}
	}
	return false
}

type verifFileInfo struct{ dir bool }

func (verifFileInfo) Name() string       { return "" }
func (verifFileInfo) Size() int64        { return 0 }
func (verifFileInfo) Mode() os.FileMode  { return 0 }
func (verifFileInfo) ModTime() time.Time { return time.Time{} }
func (f verifFileInfo) IsDir() bool      { return f.dir }
func (verifFileInfo) Sys() any           { return nil }

// kinds of a file-system entry: 0 absent, 1 directory, 2 regular file
var verifC10Tree map[string]int

func verifC10StatTree(name string) (os.FileInfo, error) {
	switch verifC10Tree[name] {
	case 1:
		return verifFileInfo{dir: true}, nil
	case 2:
		return verifFileInfo{}, nil
	}
	return nil, &verifC10Err{"no such file " + name}
}

// HarnessC10FindProject: which repository a file belongs to. Two nested
// directories /r and /r/sub, each with `.git` and `.github/workflows` absent,
// a directory or a regular file (81 layouts; `.git` is a file in worktrees and
// submodules). The project of /r/sub/.github/workflows/w.yml is the nearest
// ancestor that has a `.github/workflows` directory and a `.git` entry of
// either kind.
func HarnessC10FindProject() {
	gs, ws, gr, wr := verifChoose("sub.git", 3), verifChoose("sub.workflows", 3), verifChoose("r.git", 3), verifChoose("r.workflows", 3)
	// whether a file of /r itself was resolved through the same Projects before (the enclosing
	// repository is then already known when the nested file arrives)
	outerFirst := verifChoose("outer-first", 2)
	want := ""
	switch {
	case ws == 1 && gs != 0:
		want = "/r/sub"
	case wr == 1 && gr != 0:
		want = "/r"
	}
	if verifIsNative() {
		verifC10NativeFindProject(gs, ws, gr, wr, outerFirst, want)
		return
	}
	verifC10Tree = map[string]int{"/r/sub/.git": gs, "/r/sub/.github/workflows": ws, "/r/.git": gr, "/r/.github/workflows": wr}
	verifC10Cfg = map[string]*Config{}
	verifSetCwd("/")
	verifOverride("os.Stat", verifC10StatTree)
	verifOverride("loadRepoConfig", verifC10RepoConfig)
	p, err := findProject("/r/sub/.github/workflows/w.yml")
	verifReach("found")
	verifCheck(err == nil, "find-project-failed")
	got := ""
	if p != nil {
		got = p.RootDir()
	}
	verifCheckf(got == want, "file-assigned-to-the-wrong-repository", got+" <> "+want)
	ps := NewProjects()
	if outerFirst == 1 {
		_, err := ps.At("/r/.github/workflows/o.yml")
		verifCheck(err == nil, "find-project-failed")
	}
	p, err = ps.At("/r/sub/.github/workflows/w.yml")
	verifCheck(err == nil, "find-project-failed")
	got = ""
	if p != nil {
		got = p.RootDir()
	}
	verifCheckf(got == want, "file-of-a-nested-repository-attributed-to-the-enclosing-one", got+" <> "+want)
}

// HarnessC10SameActionPath: two repositories that each have a well-formed
// local action at the same relative path (./act) with different outputs; each
// repository's workflow reads its own action's output and the other one's.
// Linted together (either order, goroutines at once or as wholes in reverse),
// each file gets the diagnostics it gets alone: the action of its own
// repository decides.
func HarnessC10SameActionPath() {
	action := func(out string) string {
		return "name: act\ndescription: d\noutputs:\n  " + out + ":\n    description: d\nruns:\n  using: node20\n  main: index.js\n"
	}
	wf := "on: push\njobs:\n  j:\n    runs-on: ubuntu-latest\n    steps:\n      - id: a\n        uses: ./act\n      - run: echo ${{ steps.a.outputs.r_out }} ${{ steps.a.outputs.s_out }}\n"
	paths := []string{"/r/.github/workflows/a.yml", "/s/.github/workflows/b.yml"}
	if verifIsNative() {
		verifC10NativeSameActionPath(wf)
		return
	}
	verifC10Files = map[string]string{paths[0]: wf, paths[1]: wf, "/r/act/action.yml": action("r_out"), "/s/act/action.yml": action("s_out")}
	verifC10Tree = map[string]int{"/r/act/index.js": 2, "/s/act/index.js": 2}
	verifC10Cfg = map[string]*Config{}
	verifSetCwd("/")
	verifOverride("os.ReadFile", verifC10ReadFile)
	verifOverride("os.Stat", verifC10StatTree)
	verifOverride("findProject", verifC10FindProject)
	verifOverride("findProjectRoot", verifC10FindProjectRoot)
	verifOverride("loadRepoConfig", verifC10RepoConfig)
	single := make([]string, len(paths))
	for k, p := range paths {
		l := verifLinter("", "", "")
		errs, err := l.LintFile(p, nil)
		verifCheck(err == nil, "lint-failed")
		single[k] = verifC10Digest(errs, p)
		verifCheckf(len(errs) == 1, "each-file-has-one-undefined-output", verifErrTextConc(errs))
		// the output that is not defined is the one of the other repository's action
		other := []string{"\"s_out\"", "\"r_out\""}[k]
		verifCheckf(len(errs) == 1 && strings.Contains(errs[0].Message, "property "+other), "file-checked-against-another-repository's-action", verifErrTextConc(errs))
	}
	ord := [][]int{{0, 1}, {1, 0}}[verifChoose("order", 2)]
	l := verifLinter("", "", "")
	if verifChoose("goroutines", 2) == 1 {
		verifGoOrder([]int{1, 0})
	}
	errs, err := l.LintFiles([]string{paths[ord[0]], paths[ord[1]]}, nil)
	verifGoOrder(nil)
	verifCheck(err == nil, "lint-failed")
	verifReach("linted")
	for k, p := range paths {
		verifCheckf(verifC10Digest(errs, p) == single[k], "file-linted-together-differs-from-file-linted-alone", p+": "+verifC10Digest(errs, p)+" <> "+single[k])
	}
}
