//go:build verif && verif_replay

package actionlint

import (
	"bytes"
	"github.com/fatih/color"
	"io"
	"os"
	"path/filepath"
	"runtime"
	"strconv"
	"strings"
)

// verifC10NativeMulti: the multi-file harness on a real directory tree.
func verifC10NativeMulti(lab string, ord []int) {
	tmp, err := os.MkdirTemp("", "verif-c10-")
	if err != nil {
		panic(err)
	}
	defer os.RemoveAll(tmp)
	tmp, _ = filepath.EvalSymlinks(tmp)
	must := func(err error) {
		if err != nil {
			panic(err)
		}
	}
	wf := func(label string) []byte {
		return []byte("on: push\njobs:\n  j:\n    runs-on: " + label + "\n    steps:\n      - run: echo ${{ vars.V }}\n")
	}
	for _, r := range []string{"r", "s"} {
		must(os.MkdirAll(filepath.Join(tmp, r, ".github", "workflows"), 0o755))
		must(os.MkdirAll(filepath.Join(tmp, r, ".git"), 0o755))
	}
	must(os.WriteFile(filepath.Join(tmp, "r", ".github", "actionlint.yaml"), []byte("self-hosted-runner:\n  labels:\n    - zr\n    - lr\nconfig-variables:\n  - V\n"), 0o644))
	must(os.WriteFile(filepath.Join(tmp, "s", ".github", "actionlint.yaml"), []byte("self-hosted-runner:\n  labels:\n    - zs\n    - ls\n"), 0o644))
	must(os.MkdirAll(filepath.Join(tmp, "o"), 0o755))
	paths := []string{filepath.Join(tmp, "r", ".github", "workflows", "a.yml"), filepath.Join(tmp, "s", ".github", "workflows", "b.yml"), filepath.Join(tmp, "r", ".github", "workflows", "c.yml"), filepath.Join(tmp, "o", "w.yml")}
	must(os.WriteFile(paths[0], wf(lab), 0o644))
	must(os.WriteFile(paths[1], wf(lab), 0o644))
	must(os.WriteFile(paths[2], wf("lr"), 0o644))
	must(os.WriteFile(paths[3], wf("lr"), 0o644))
	old, _ := os.Getwd()
	defer os.Chdir(old)
	must(os.Chdir("/"))
	diagnosedNative := false
	single := make([]string, len(paths))
	for k, p := range paths {
		l, err := NewLinter(io.Discard, &LinterOptions{})
		must(err)
		errs, err := l.LintFile(p, nil)
		verifCheck(err == nil, "lint-failed")
		single[k] = verifC10DigestAll(errs)
		if single[k] != "" {
			diagnosedNative = true
		}
	}
	// the argument list: the chosen order, 8 times over with copies of the files (a real
	// scheduler needs some load before goroutines of different files overlap)
	var args []string
	var kind []int
	for c := 0; c < 8; c++ {
		for _, k := range ord {
			p := paths[k]
			if c > 0 {
				p = filepath.Join(filepath.Dir(p), "copy"+strconv.Itoa(c)+"-"+filepath.Base(p))
				b, err := os.ReadFile(paths[k])
				must(err)
				must(os.WriteFile(p, b, 0o644))
			}
			args = append(args, p)
			kind = append(kind, k)
		}
	}
	defer runtime.GOMAXPROCS(runtime.GOMAXPROCS(0))
	for rep := 0; rep < 20; rep++ {
		// degree of parallelism: one processor (goroutines run only when the starter blocks), two, all
		runtime.GOMAXPROCS([]int{1, 2, runtime.NumCPU()}[rep%3])
		l, err := NewLinter(io.Discard, &LinterOptions{})
		must(err)
		errs, err := l.LintFiles(args, nil)
		verifCheck(err == nil, "lint-failed")
		for n, p := range args {
			var mine []*Error
			for _, e := range errs {
				if filepath.Base(e.Filepath) == filepath.Base(p) {
					mine = append(mine, e)
				}
			}
			verifCheckf(verifC10DigestAll(mine) == single[kind[n]], "file-linted-together-differs-from-file-linted-alone", p)
		}
	}
	if diagnosedNative {
		verifReach("diagnosed")
	}
	verifReach("linted")
}

var verifC14Tmp string

// verifC14NativeActionDir writes the action.yml of the harness into a real directory.
func verifC14NativeActionDir() {
	tmp, err := os.MkdirTemp("", "verif-c14-")
	if err != nil {
		panic(err)
	}
	tmp, _ = filepath.EvalSymlinks(tmp)
	verifC14Tmp = tmp
	if err := os.MkdirAll(filepath.Join(tmp, "act"), 0o755); err != nil {
		panic(err)
	}
	if err := os.WriteFile(filepath.Join(tmp, "act", "action.yml"), []byte(verifC14ActionYAML), 0o644); err != nil {
		panic(err)
	}
	if err := os.WriteFile(filepath.Join(tmp, "act", "index.js"), []byte(""), 0o644); err != nil {
		panic(err)
	}
	// the same action at the repository root (uses: ./)
	if err := os.WriteFile(filepath.Join(tmp, "action.yml"), []byte(verifC14ActionYAML), 0o644); err != nil {
		panic(err)
	}
	if err := os.WriteFile(filepath.Join(tmp, "index.js"), []byte(""), 0o644); err != nil {
		panic(err)
	}
}

func verifC14Root() string { return verifC14Tmp }

// verifC02NativeJobOrder: 60 repetitions on a real directory tree under Go's own random map order.
func verifC02NativeJobOrder(src string) {
	tmp, err := os.MkdirTemp("", "verif-c02-")
	if err != nil {
		panic(err)
	}
	defer os.RemoveAll(tmp)
	tmp, _ = filepath.EvalSymlinks(tmp)
	must := func(err error) {
		if err != nil {
			panic(err)
		}
	}
	must(os.MkdirAll(filepath.Join(tmp, ".github", "workflows"), 0o755))
	must(os.MkdirAll(filepath.Join(tmp, ".git"), 0o755))
	must(os.MkdirAll(filepath.Join(tmp, "broken"), 0o755))
	must(os.WriteFile(filepath.Join(tmp, "broken", "action.yml"), []byte("name: act\nruns:\n  using: node20\n  main: index.js\n"), 0o644))
	must(os.WriteFile(filepath.Join(tmp, "broken", "index.js"), []byte(""), 0o644))
	wf := filepath.Join(tmp, ".github", "workflows", "w.yml")
	must(os.WriteFile(wf, []byte(src), 0o644))
	first := ""
	for rep := 0; rep < 60; rep++ {
		l, err := NewLinter(io.Discard, &LinterOptions{})
		must(err)
		errs, err := l.LintFile(wf, nil)
		must(err)
		out := ""
		for _, e := range errs {
			out += e.Error() + "\n"
		}
		if rep == 0 {
			first = out
			verifCheck(len(errs) >= 2, "shared-errors-are-reported")
		}
		verifCheckf(out == first, "output-depends-on-map-iteration-order", out)
	}
	verifReach("compared")
}

func verifC10NativeFindProject(gs, ws, gr, wr, outerFirst int, want string) {
	tmp, err := os.MkdirTemp("", "verif-c10p-")
	if err != nil {
		panic(err)
	}
	defer os.RemoveAll(tmp)
	tmp, _ = filepath.EvalSymlinks(tmp)
	mk := func(p string, kind int) {
		switch kind {
		case 1:
			if err := os.MkdirAll(p, 0o755); err != nil {
				panic(err)
			}
		case 2:
			if err := os.MkdirAll(filepath.Dir(p), 0o755); err != nil {
				panic(err)
			}
			if err := os.WriteFile(p, []byte("gitdir: elsewhere\n"), 0o644); err != nil {
				panic(err)
			}
		}
	}
	if err := os.MkdirAll(filepath.Join(tmp, "r", "sub"), 0o755); err != nil {
		panic(err)
	}
	mk(filepath.Join(tmp, "r", "sub", ".git"), gs)
	mk(filepath.Join(tmp, "r", "sub", ".github", "workflows"), ws)
	mk(filepath.Join(tmp, "r", ".git"), gr)
	mk(filepath.Join(tmp, "r", ".github", "workflows"), wr)
	p, err := findProject(filepath.Join(tmp, "r", "sub", ".github", "workflows", "w.yml"))
	verifReach("found")
	verifCheck(err == nil, "find-project-failed")
	got := ""
	if p != nil {
		got = strings.TrimPrefix(p.RootDir(), tmp)
	}
	verifCheckf(got == want, "file-assigned-to-the-wrong-repository", got+" <> "+want)
	ps := NewProjects()
	if outerFirst == 1 {
		_, err := ps.At(filepath.Join(tmp, "r", ".github", "workflows", "o.yml"))
		verifCheck(err == nil, "find-project-failed")
	}
	p, err = ps.At(filepath.Join(tmp, "r", "sub", ".github", "workflows", "w.yml"))
	verifCheck(err == nil, "find-project-failed")
	got = ""
	if p != nil {
		got = strings.TrimPrefix(p.RootDir(), tmp)
	}
	verifCheckf(got == want, "file-of-a-nested-repository-attributed-to-the-enclosing-one", got+" <> "+want)
}

// verifC02NativeFormat: two real repositories (r ignores the diagnostic of its
// a.yml by configuration, s has no configuration), three files with a custom
// format; the first file is slow to check (400 jobs), so its goroutine finishes
// last. 10 runs: the result equals the files linted alone, and the formatted
// stream lists the files in argument order every time.
func verifC02NativeFormat() {
	tmp, err := os.MkdirTemp("", "verif-c02f-")
	if err != nil {
		panic(err)
	}
	defer os.RemoveAll(tmp)
	must := func(err error) {
		if err != nil {
			panic(err)
		}
	}
	for _, r := range []string{"r", "s"} {
		must(os.MkdirAll(filepath.Join(tmp, r, ".github", "workflows"), 0o755))
		must(os.MkdirAll(filepath.Join(tmp, r, ".git"), 0o755))
	}
	must(os.WriteFile(filepath.Join(tmp, "r", ".github", "actionlint.yaml"), []byte("paths:\n  .github/workflows/a.yml:\n    ignore:\n      - undefined variable\n"), 0o644))
	var paths []string
	for k, name := range []string{"r/.github/workflows/c.yml", "r/.github/workflows/a.yml", "s/.github/workflows/b.yml"} {
		src := "on: push\njobs:\n"
		n := 1
		if k == 0 {
			n = 400
		}
		for j := 0; j < n; j++ {
			src += "  j" + strconv.Itoa(j) + ":\n    runs-on: ubuntu-latest\n    steps:\n      - run: echo ${{ github.sha }}\n"
		}
		src += "  last:\n    runs-on: ubuntu-latest\n    steps:\n      - run: echo ${{ unknown" + strconv.Itoa(k) + ".x }}\n"
		p := filepath.Join(tmp, filepath.FromSlash(name))
		must(os.WriteFile(p, []byte(src), 0o644))
		paths = append(paths, p)
	}
	digest := func(errs []*Error) string {
		out := ""
		for _, e := range errs {
			out += filepath.Base(e.Filepath) + ":" + strconv.Itoa(e.Line) + ": " + e.Message + "\n"
		}
		return out
	}
	alone := ""
	for _, p := range paths {
		l, err := NewLinter(io.Discard, &LinterOptions{})
		must(err)
		errs, err := l.LintFile(p, nil)
		verifCheck(err == nil, "lint-failed")
		alone += digest(errs)
	}
	defer runtime.GOMAXPROCS(runtime.GOMAXPROCS(0))
	for rep := 0; rep < 10; rep++ {
		runtime.GOMAXPROCS([]int{runtime.NumCPU(), 1, 2}[rep%3])
		var buf bytes.Buffer
		l, err := NewLinter(&buf, &LinterOptions{Format: "BEGIN\n{{range $ := .}}{{$.Filepath}}\t{{$.Message}}\t{{json $.Snippet}}{{end}}"})
		must(err)
		errs, err := l.LintFiles(paths, nil)
		verifCheck(err == nil, "lint-failed")
		verifCheckf(digest(errs) == alone, "multi-file-result-differs-from-the-files-linted-alone", digest(errs)+" <> "+alone)
		// the template is executed once per run, whatever the degree of parallelism
		verifCheckf(strings.Count(buf.String(), "BEGIN\n") == 1, "result-depends-on-GOMAXPROCS", buf.String())
		want, got := "c.yml\nb.yml\n", ""
		for _, ln := range strings.Split(strings.TrimSuffix(strings.ReplaceAll(buf.String(), "BEGIN\n", ""), "\n"), "\n") {
			f := strings.Split(ln, "\t")
			got += filepath.Base(f[0]) + "\n" // the printed path is relative to the working directory
			if len(f) == 3 {
				// the snippet is the source line of the same file: it names the variable the message names
				v := "unknown0"
				for _, c := range []string{"unknown1", "unknown2"} {
					if strings.Contains(f[1], c) {
						v = c
					}
				}
				verifCheckf(strings.Contains(f[2], v), "formatted-fields-of-a-multi-file-run-differ-from-the-files-formatted-alone", ln)
			}
		}
		verifCheckf(got == want, "formatted-output-depends-on-goroutine-completion-order", buf.String())
	}
	verifReach("compared")
}

// verifPrintedLines: the lines the real PrettyPrint writes (no source), colours on or off.
func verifPrintedLines(errs []*Error, colour bool) []string {
	old := color.NoColor
	color.NoColor = !colour
	defer func() { color.NoColor = old }()
	var buf bytes.Buffer
	for _, e := range errs {
		e.PrettyPrint(&buf, nil)
	}
	out := strings.Split(buf.String(), "\n")
	if len(out) > 0 && out[len(out)-1] == "" {
		out = out[:len(out)-1]
	}
	return out
}
// verifC02NativeSharedDefect: two real files of one repository use the same broken local
// action; 200 runs with 1, 2 and all processors: the returned list must always be the same.
func verifC02NativeSharedDefect() {
	tmp, err := os.MkdirTemp("", "verif-c02s-")
	if err != nil {
		panic(err)
	}
	defer os.RemoveAll(tmp)
	must := func(err error) {
		if err != nil {
			panic(err)
		}
	}
	must(os.MkdirAll(filepath.Join(tmp, ".github", "workflows"), 0o755))
	must(os.MkdirAll(filepath.Join(tmp, ".git"), 0o755))
	must(os.MkdirAll(filepath.Join(tmp, "broken"), 0o755))
	must(os.WriteFile(filepath.Join(tmp, "broken", "action.yml"), []byte("name: act\nruns:\n  using: node20\n  main: [\n"), 0o644))
	wf := "on: push\njobs:\n  j:\n    runs-on: ubuntu-latest\n    steps:\n      - uses: ./broken\n"
	var paths []string
	for _, n := range []string{"a.yml", "b.yml"} {
		p := filepath.Join(tmp, ".github", "workflows", n)
		must(os.WriteFile(p, []byte(wf), 0o644))
		paths = append(paths, p)
	}
	defer runtime.GOMAXPROCS(runtime.GOMAXPROCS(0))
	first := ""
	for rep := 0; rep < 200; rep++ {
		runtime.GOMAXPROCS([]int{1, 2, runtime.NumCPU()}[rep%3])
		l, err := NewLinter(io.Discard, &LinterOptions{})
		must(err)
		errs, err := l.LintFiles(paths, nil)
		verifCheck(err == nil, "lint-failed")
		out := ""
		for _, e := range errs {
			out += filepath.Base(e.Filepath) + ":" + strconv.Itoa(e.Line) + ": " + e.Kind + "\n"
		}
		if rep == 0 {
			first = out
			verifCheck(len(errs) > 0, "baseline-lost-its-diagnostics")
		}
		if out != first {
			verifCheckf(false, "shared-defect-reported-by-whichever-file-reaches-it-first", first+" <> "+out)
			break
		}
	}
}

// verifC02NativeRepeat: the same on a real tree.
func verifC02NativeRepeat(wf string) {
	tmp, err := os.MkdirTemp("", "verif-c02r-")
	if err != nil {
		panic(err)
	}
	defer os.RemoveAll(tmp)
	must := func(err error) {
		if err != nil {
			panic(err)
		}
	}
	must(os.MkdirAll(filepath.Join(tmp, ".github", "workflows"), 0o755))
	must(os.MkdirAll(filepath.Join(tmp, ".git"), 0o755))
	must(os.MkdirAll(filepath.Join(tmp, "broken"), 0o755))
	must(os.WriteFile(filepath.Join(tmp, "broken", "action.yml"), []byte("name: act\nruns:\n  using: node20\n  main: [\n"), 0o644))
	p := filepath.Join(tmp, ".github", "workflows", "a.yml")
	must(os.WriteFile(p, []byte(wf), 0o644))
	l, err := NewLinter(io.Discard, &LinterOptions{})
	must(err)
	digest := func(errs []*Error, err error) string {
		verifCheck(err == nil, "lint-failed")
		out := ""
		for _, e := range errs {
			out += strconv.Itoa(e.Line) + ":" + strconv.Itoa(e.Column) + ": " + e.Kind + "\n"
		}
		return out
	}
	r0 := digest(l.LintFile(p, nil))
	r1 := digest(l.LintFiles([]string{p}, nil))
	r2 := digest(l.LintFile(p, nil))
	verifReach("compared")
	verifCheck(len(r0) > 0, "baseline-lost-its-diagnostics")
	verifCheckf(r0 == r1 && r0 == r2, "result-depends-on-how-many-times-the-run-is-repeated", r0+" <> "+r1+" <> "+r2)
}

// verifC10NativeSameActionPath: the same on a real tree, both argument orders, 1 / 2 / all processors.
func verifC10NativeSameActionPath(wf string) {
	tmp, err := os.MkdirTemp("", "verif-c10a-")
	if err != nil {
		panic(err)
	}
	defer os.RemoveAll(tmp)
	tmp, _ = filepath.EvalSymlinks(tmp)
	must := func(err error) {
		if err != nil {
			panic(err)
		}
	}
	var paths []string
	for _, r := range []string{"r", "s"} {
		must(os.MkdirAll(filepath.Join(tmp, r, ".github", "workflows"), 0o755))
		must(os.MkdirAll(filepath.Join(tmp, r, ".git"), 0o755))
		must(os.MkdirAll(filepath.Join(tmp, r, "act"), 0o755))
		must(os.WriteFile(filepath.Join(tmp, r, "act", "action.yml"), []byte("name: act\ndescription: d\noutputs:\n  "+r+"_out:\n    description: d\nruns:\n  using: node20\n  main: index.js\n"), 0o644))
		must(os.WriteFile(filepath.Join(tmp, r, "act", "index.js"), []byte(""), 0o644))
		p := filepath.Join(tmp, r, ".github", "workflows", map[string]string{"r": "a.yml", "s": "b.yml"}[r])
		must(os.WriteFile(p, []byte(wf), 0o644))
		paths = append(paths, p)
	}
	single := make([]string, 2)
	for k, p := range paths {
		l, err := NewLinter(io.Discard, &LinterOptions{})
		must(err)
		errs, err := l.LintFile(p, nil)
		verifCheck(err == nil, "lint-failed")
		single[k] = verifC10DigestAll(errs)
		verifCheck(len(errs) == 1, "each-file-has-one-undefined-output")
		other := []string{"\"s_out\"", "\"r_out\""}[k]
		verifCheckf(len(errs) == 1 && strings.Contains(errs[0].Message, "property "+other), "file-checked-against-another-repository's-action", p)
	}
	defer runtime.GOMAXPROCS(runtime.GOMAXPROCS(0))
	for rep := 0; rep < 12; rep++ {
		runtime.GOMAXPROCS([]int{1, 2, runtime.NumCPU()}[rep%3])
		args := []string{paths[0], paths[1]}
		if rep%2 == 1 {
			args = []string{paths[1], paths[0]}
		}
		l, err := NewLinter(io.Discard, &LinterOptions{})
		must(err)
		errs, err := l.LintFiles(args, nil)
		verifCheck(err == nil, "lint-failed")
		for k, p := range paths {
			var mine []*Error
			for _, e := range errs {
				if filepath.Base(e.Filepath) == filepath.Base(p) {
					mine = append(mine, e)
				}
			}
			verifCheckf(verifC10DigestAll(mine) == single[k], "file-linted-together-differs-from-file-linted-alone", p)
		}
	}
	verifReach("linted")
}

// verifC02NativeNested: the same on a real tree.
func verifC02NativeNested() {
	tmp, err := os.MkdirTemp("", "verif-c02n-")
	if err != nil {
		panic(err)
	}
	defer os.RemoveAll(tmp)
	tmp, _ = filepath.EvalSymlinks(tmp)
	must := func(err error) {
		if err != nil {
			panic(err)
		}
	}
	var paths []string
	for _, r := range []struct{ dir, label string }{{filepath.Join("o", "v", "i"), "runner-of-inner"}, {"o", "runner-of-outer"}} {
		must(os.MkdirAll(filepath.Join(tmp, r.dir, ".github", "workflows"), 0o755))
		must(os.MkdirAll(filepath.Join(tmp, r.dir, ".git"), 0o755))
		must(os.WriteFile(filepath.Join(tmp, r.dir, ".github", "actionlint.yaml"), []byte("self-hosted-runner:\n  labels:\n    - "+r.label+"\n"), 0o644))
		p := filepath.Join(tmp, r.dir, ".github", "workflows", "ci.yml")
		must(os.WriteFile(p, []byte("on: push\njobs:\n  j:\n    runs-on: [self-hosted, "+r.label+"]\n    steps:\n      - run: echo\n"), 0o644))
		paths = append(paths, p)
	}
	l, err := NewLinter(io.Discard, &LinterOptions{})
	must(err)
	digest := func(errs []*Error, err error) string {
		verifCheck(err == nil, "lint-failed")
		out := ""
		for _, e := range errs {
			out += filepath.Base(filepath.Dir(filepath.Dir(filepath.Dir(e.Filepath)))) + ":" + strconv.Itoa(e.Line) + ": " + e.Message + "\n"
		}
		return out
	}
	r1 := digest(l.LintFiles(paths, nil))
	r2 := digest(l.LintFiles(paths, nil))
	r3 := digest(l.LintFiles([]string{paths[1], paths[0]}, nil))
	verifReach("compared")
	verifCheckf(r1 == "", "file-checked-with-another-repository's-configuration", r1)
	verifCheckf(r1 == r2 && r3 == "", "result-depends-on-how-many-times-the-run-is-repeated", r2+" / "+r3)
	l4, err := NewLinter(io.Discard, &LinterOptions{})
	must(err)
	r4 := digest(l4.LintFiles([]string{paths[1], paths[0]}, nil))
	verifCheckf(r4 == "", "file-of-a-nested-repository-attributed-to-the-enclosing-one", r4)
}

// verifC16NativeCalleeBroken: the same project on disk, linted by a real Linter.
func verifC16NativeCalleeBroken(caller, calleePath, callee string) []*Error {
	tmp, err := os.MkdirTemp("", "verif-c16c-")
	if err != nil {
		panic(err)
	}
	defer os.RemoveAll(tmp)
	tmp, _ = filepath.EvalSymlinks(tmp)
	must := func(err error) {
		if err != nil {
			panic(err)
		}
	}
	must(os.MkdirAll(filepath.Join(tmp, ".git"), 0o755))
	must(os.MkdirAll(filepath.Join(tmp, ".github", "workflows"), 0o755))
	must(os.MkdirAll(filepath.Join(tmp, "act"), 0o755))
	must(os.WriteFile(filepath.Join(tmp, "act", "index.js"), []byte(""), 0o644))
	must(os.WriteFile(filepath.Join(tmp, filepath.FromSlash(calleePath)), []byte(callee), 0o644))
	w := filepath.Join(tmp, ".github", "workflows", "w.yml")
	must(os.WriteFile(w, []byte(caller), 0o644))
	l, err := NewLinter(io.Discard, &LinterOptions{WorkingDir: tmp})
	must(err)
	errs, err := l.LintFile(w, nil)
	verifCheck(err == nil, "lint-failed")
	return errs
}

// verifPrintedWithSource: what the real PrettyPrint writes for one diagnostic with its source (colours off).
func verifPrintedWithSource(e *Error, src []byte) []string {
	old := color.NoColor
	color.NoColor = true
	defer func() { color.NoColor = old }()
	var buf bytes.Buffer
	e.PrettyPrint(&buf, src)
	out := strings.Split(buf.String(), "\n")
	if len(out) > 0 && out[len(out)-1] == "" {
		out = out[:len(out)-1]
	}
	return out
}
