//go:build verif && verif_replay

package actionlint

import (
	"bytes"
	"strconv"
	"io"
	"os"
	"path/filepath"
	"strings"
)

// verifC10NativeMulti: the multi-file harness on a real directory tree.
func verifC10NativeMulti(lab string, ord []int) {
	tmp, err := os.MkdirTemp("", "verif-c10-")
	if err != nil {
		panic(err)
	}
	defer os.RemoveAll(tmp)
	tmp, _ = filepath.EvalSymlinks(tmp)
	must := func(err error) {
		if err != nil {
			panic(err)
		}
	}
	wf := func(label string) []byte {
		return []byte("on: push\njobs:\n  j:\n    runs-on: " + label + "\n    steps:\n      - run: echo ${{ vars.V }}\n")
	}
	for _, r := range []string{"r", "s"} {
		must(os.MkdirAll(filepath.Join(tmp, r, ".github", "workflows"), 0o755))
		must(os.MkdirAll(filepath.Join(tmp, r, ".git"), 0o755))
	}
	must(os.WriteFile(filepath.Join(tmp, "r", ".github", "actionlint.yaml"), []byte("self-hosted-runner:\n  labels:\n    - zr\n    - lr\nconfig-variables:\n  - V\n"), 0o644))
	must(os.WriteFile(filepath.Join(tmp, "s", ".github", "actionlint.yaml"), []byte("self-hosted-runner:\n  labels:\n    - zs\n    - ls\n"), 0o644))
	paths := []string{filepath.Join(tmp, "r", ".github", "workflows", "a.yml"), filepath.Join(tmp, "s", ".github", "workflows", "b.yml"), filepath.Join(tmp, "r", ".github", "workflows", "c.yml")}
	must(os.WriteFile(paths[0], wf(lab), 0o644))
	must(os.WriteFile(paths[1], wf(lab), 0o644))
	must(os.WriteFile(paths[2], wf("lr"), 0o644))
	old, _ := os.Getwd()
	defer os.Chdir(old)
	must(os.Chdir("/"))
	single := make([]string, len(paths))
	for k, p := range paths {
		l, err := NewLinter(io.Discard, &LinterOptions{})
		must(err)
		errs, err := l.LintFile(p, nil)
		verifCheck(err == nil, "lint-failed")
		single[k] = verifC10DigestAll(errs)
	}
	var args []string
	for _, k := range ord {
		args = append(args, paths[k])
	}
	for rep := 0; rep < 20; rep++ {
		l, err := NewLinter(io.Discard, &LinterOptions{})
		must(err)
		errs, err := l.LintFiles(args, nil)
		verifCheck(err == nil, "lint-failed")
		for _, k := range ord {
			var mine []*Error
			for _, e := range errs {
				if filepath.Base(e.Filepath) == filepath.Base(paths[k]) {
					mine = append(mine, e)
				}
			}
			verifCheckf(verifC10DigestAll(mine) == single[k], "file-linted-together-differs-from-file-linted-alone", paths[k])
		}
	}
	verifReach("linted")
}

var verifC14Tmp string

// verifC14NativeActionDir writes the action.yml of the harness into a real directory.
func verifC14NativeActionDir() {
	tmp, err := os.MkdirTemp("", "verif-c14-")
	if err != nil {
		panic(err)
	}
	tmp, _ = filepath.EvalSymlinks(tmp)
	verifC14Tmp = tmp
	if err := os.MkdirAll(filepath.Join(tmp, "act"), 0o755); err != nil {
		panic(err)
	}
	if err := os.WriteFile(filepath.Join(tmp, "act", "action.yml"), []byte(verifC14ActionYAML), 0o644); err != nil {
		panic(err)
	}
	if err := os.WriteFile(filepath.Join(tmp, "act", "index.js"), []byte(""), 0o644); err != nil {
		panic(err)
	}
}

func verifC14Root() string { return verifC14Tmp }

// verifC02NativeJobOrder: 60 repetitions on a real directory tree under Go's own random map order.
func verifC02NativeJobOrder(src string) {
	tmp, err := os.MkdirTemp("", "verif-c02-")
	if err != nil {
		panic(err)
	}
	defer os.RemoveAll(tmp)
	tmp, _ = filepath.EvalSymlinks(tmp)
	must := func(err error) {
		if err != nil {
			panic(err)
		}
	}
	must(os.MkdirAll(filepath.Join(tmp, ".github", "workflows"), 0o755))
	must(os.MkdirAll(filepath.Join(tmp, ".git"), 0o755))
	must(os.MkdirAll(filepath.Join(tmp, "broken"), 0o755))
	must(os.WriteFile(filepath.Join(tmp, "broken", "action.yml"), []byte("name: act\nruns:\n  using: node20\n  main: index.js\n"), 0o644))
	must(os.WriteFile(filepath.Join(tmp, "broken", "index.js"), []byte(""), 0o644))
	wf := filepath.Join(tmp, ".github", "workflows", "w.yml")
	must(os.WriteFile(wf, []byte(src), 0o644))
	first := ""
	for rep := 0; rep < 60; rep++ {
		l, err := NewLinter(io.Discard, &LinterOptions{})
		must(err)
		errs, err := l.LintFile(wf, nil)
		must(err)
		out := ""
		for _, e := range errs {
			out += e.Error() + "\n"
		}
		if rep == 0 {
			first = out
			verifCheck(len(errs) >= 2, "shared-errors-are-reported")
		}
		verifCheckf(out == first, "output-depends-on-map-iteration-order", out)
	}
	verifReach("compared")
}

func verifC10NativeFindProject(gs, ws, gr, wr int, want string) {
	tmp, err := os.MkdirTemp("", "verif-c10p-")
	if err != nil {
		panic(err)
	}
	defer os.RemoveAll(tmp)
	tmp, _ = filepath.EvalSymlinks(tmp)
	mk := func(p string, kind int) {
		switch kind {
		case 1:
			if err := os.MkdirAll(p, 0o755); err != nil {
				panic(err)
			}
		case 2:
			if err := os.MkdirAll(filepath.Dir(p), 0o755); err != nil {
				panic(err)
			}
			if err := os.WriteFile(p, []byte("gitdir: elsewhere\n"), 0o644); err != nil {
				panic(err)
			}
		}
	}
	if err := os.MkdirAll(filepath.Join(tmp, "r", "sub"), 0o755); err != nil {
		panic(err)
	}
	mk(filepath.Join(tmp, "r", "sub", ".git"), gs)
	mk(filepath.Join(tmp, "r", "sub", ".github", "workflows"), ws)
	mk(filepath.Join(tmp, "r", ".git"), gr)
	mk(filepath.Join(tmp, "r", ".github", "workflows"), wr)
	p, err := findProject(filepath.Join(tmp, "r", "sub", ".github", "workflows", "w.yml"))
	verifReach("found")
	verifCheck(err == nil, "find-project-failed")
	got := ""
	if p != nil {
		got = strings.TrimPrefix(p.RootDir(), tmp)
	}
	verifCheckf(got == want, "file-assigned-to-the-wrong-repository", got+" <> "+want)
}

// verifC02NativeFormat: three real files with a custom format; the first file
// is slow to check (400 jobs), so its goroutine finishes last. 10 runs: the
// formatted stream lists the files in argument order every time.
func verifC02NativeFormat() {
	tmp, err := os.MkdirTemp("", "verif-c02f-")
	if err != nil {
		panic(err)
	}
	defer os.RemoveAll(tmp)
	must := func(err error) {
		if err != nil {
			panic(err)
		}
	}
	must(os.MkdirAll(filepath.Join(tmp, ".github", "workflows"), 0o755))
	must(os.MkdirAll(filepath.Join(tmp, ".git"), 0o755))
	var paths []string
	for k, name := range []string{"a.yml", "b.yml", "c.yml"} {
		src := "on: push\njobs:\n"
		n := 1
		if k == 0 {
			n = 400
		}
		for j := 0; j < n; j++ {
			src += "  j" + strconv.Itoa(j) + ":\n    runs-on: ubuntu-latest\n    steps:\n      - run: echo ${{ github.sha }}\n"
		}
		src += "  last:\n    runs-on: ubuntu-latest\n    steps:\n      - run: echo ${{ unknown" + strconv.Itoa(k) + ".x }}\n"
		p := filepath.Join(tmp, ".github", "workflows", name)
		must(os.WriteFile(p, []byte(src), 0o644))
		paths = append(paths, p)
	}
	for rep := 0; rep < 10; rep++ {
		var buf bytes.Buffer
		l, err := NewLinter(&buf, &LinterOptions{Format: "{{range $ := .}}{{$.Filepath}}\n{{end}}"})
		must(err)
		errs, err := l.LintFiles(paths, nil)
		verifCheck(err == nil, "lint-failed")
		want, got := "", ""
		for _, p := range paths {
			want += filepath.Base(p) + "\n"
		}
		for _, ln := range strings.Split(strings.TrimSuffix(buf.String(), "\n"), "\n") {
			got += filepath.Base(ln) + "\n" // the printed path is relative to the working directory
		}
		verifCheckf(len(errs) == 3, "returned-diagnostics-depend-on-goroutine-completion-order", strconv.Itoa(len(errs)))
		verifCheckf(got == want, "formatted-output-depends-on-goroutine-completion-order", buf.String())
	}
	verifReach("compared")
}
