//go:build verif

package actionlint

import "strings"

// C11 — script-injection detection. The documented untrusted inputs as a flat
// list (independent of the search tree in expr_insecure.go); '*' is an array
// element.
var verifUntrustedPaths = []string{
	"github.event.issue.title", "github.event.issue.body",
	"github.event.pull_request.title", "github.event.pull_request.body",
	"github.event.pull_request.head.ref", "github.event.pull_request.head.label",
	"github.event.pull_request.head.repo.default_branch",
	"github.event.comment.body", "github.event.review.body", "github.event.review_comment.body",
	"github.event.pages.*.page_name",
	"github.event.commits.*.message", "github.event.commits.*.author.email", "github.event.commits.*.author.name",
	"github.event.head_commit.message", "github.event.head_commit.author.email", "github.event.head_commit.author.name",
	"github.event.discussion.title", "github.event.discussion.body",
	"github.head_ref",
}

var verifC11Names = []string{"event", "issue", "title", "pull_request", "head", "ref", "commits", "message", "author", "name", "pages", "page_name", "head_ref", "foo", "body"}

const (
	segName = iota
	segLit // ['name']
	segIndex
	segFilter
)

type verifSeg struct {
	kind int
	name string // lower-case base name
}

// verifChainMatches: does the access chain (after the root `github`) denote
// the documented path?
func verifChainMatches(chain []verifSeg, path string) bool {
	ps := strings.Split(path, ".")[1:] // drop "github"
	k := 0
	pendingFilter := false
	for _, s := range chain {
		switch s.kind {
		case segName, segLit:
			if k >= len(ps) || ps[k] == "*" || ps[k] != s.name {
				return false
			}
			k++
		case segIndex:
			if pendingFilter {
				pendingFilter = false // indexing the array produced by a filter
				continue
			}
			if k >= len(ps) || ps[k] != "*" {
				return false
			}
			k++
		case segFilter:
			if k >= len(ps) {
				return false
			}
			k++ // '*' element of an array, or any one property of an object
			pendingFilter = true
		}
	}
	return k == len(ps)
}

func verifExpectedPaths(chain []verifSeg) []string {
	var out []string
	for _, p := range verifUntrustedPaths {
		if verifChainMatches(chain, p) {
			out = append(out, p)
		}
	}
	return out
}

// verifGenChain builds `github<seg>...` with symbolic letter case on every name.
func verifGenChain(tag string, depth int) (string, []verifSeg) {
	return verifGenChainOver(tag, depth, verifC11Names)
}

var verifC11FewNames = []string{"event", "commits", "foo"}

func verifGenChainOver(tag string, depth int, names []string) (string, []verifSeg) {
	verifC11Names := names
	plain := len(names) < 10 // the small vocabulary is used without symbolic letter case
	src := "github"
	if !plain {
		src = verifCased(tag+"root", "github")
	}
	var chain []verifSeg
	n := verifChoose(tag+"len", depth+1)
	for i := 0; i < n; i++ {
		t := tag + "s" + string(rune('0'+i))
		c := verifChoose(t, len(verifC11Names)+2)
		switch {
		case c == len(verifC11Names):
			src += "[0]"
			chain = append(chain, verifSeg{segIndex, ""})
		case c == len(verifC11Names)+1:
			src += ".*"
			chain = append(chain, verifSeg{segFilter, ""})
		default:
			name := verifC11Names[c]
			if plain {
				src += "." + name
				chain = append(chain, verifSeg{segName, name})
				continue
			}
			if verifChoose(t+"lit", 2) == 1 {
				src += "['" + verifCased(t+"case", name) + "']"
				chain = append(chain, verifSeg{segLit, name})
			} else {
				src += "." + verifCased(t+"case", name)
				chain = append(chain, verifSeg{segName, name})
			}
		}
	}
	return src, chain
}

type verifEmbedding struct {
	pre, post string
	safe      bool
}

var verifC11Embeddings = []verifEmbedding{
	{"", "", false}, {"!", "", false}, {"", " == 'a'", false}, {"'a' != ", "", false},
	{"format('{0}', ", ")", false}, {"toJSON(", ")", false}, {"(", ")", false}, {"", " && true", false},
	{"fromJSON('[1]')[", "]", false}, {"format('{0}{1}', 1, join(", ", ','))", false},
	{"(", " || 'a') && 'b'", false}, {"!(", " || 'a') || 'b'", false}, {"", " && 'a' || 'b'", false}, {"'a' && (", " || 'b')", false},
	{"contains(", ", 'a')", true}, {"startsWith(", ", 'a')", true}, {"endsWith('a', ", ")", true},
	{"contains(toJSON(", "), 'a')", true}, {"format('{0}', contains(", ", 'a'))", true},
	// function names are case-insensitive: sanitising and non-sanitising calls in other spellings
	{"CONTAINS(", ", 'a')", true}, {"startswith(", ", 'a')", true}, {"EndsWith('a', ", ")", true}, {"TOJSON(", ")", false}, {"Format('{0}', ", ")", false},
}

func verifUntrustedReports(src string, untrusted bool) (int, string, bool) {
	tree, perr := NewExprParser().Parse(NewExprLexer(src + "}}"))
	if perr != nil {
		return 0, "", false
	}
	c := NewExprSemanticsChecker(untrusted, nil)
	_, errs := c.Check(tree)
	n, msg := 0, ""
	for _, e := range errs {
		if strings.Contains(e.Message, "potentially untrusted") {
			n++
			msg = e.Message
		}
	}
	return n, msg, true
}

// HarnessC11Chains: one access chain in one embedding.
func HarnessC11Chains(depth int) {
	x, chain := verifGenChain("a", depth)
	emb := verifC11Embeddings[verifChoose("embedding", len(verifC11Embeddings))]
	src := emb.pre + x + emb.post
	n, msg, ok := verifUntrustedReports(src, true)
	verifCheck(ok, "generated-expression-does-not-parse")
	want := verifExpectedPaths(chain)
	if len(want) > 0 && !emb.safe {
		verifReach("untrusted")
		verifCheckf(n == 1, "untrusted-input-not-reported-exactly-once", src)
		for _, p := range want {
			verifCheckf(strings.Contains(msg, "\""+p+"\""), "report-does-not-name-the-path", src+" -> "+p)
		}
	} else {
		verifReach("trusted-or-sanitised")
		verifCheckf(n == 0, "trusted-expression-reported", src)
	}
	// outside script positions the untrusted checker is off
	n2, _, _ := verifUntrustedReports(src, false)
	verifCheck(n2 == 0, "reported-outside-script-position")
}

// verifUntrustedSpelling renders a documented path with [0] or .* for array
// elements and .name or ['name'] for properties (free choices).
func verifUntrustedSpelling(tag string) (string, []verifSeg) {
	p := verifUntrustedPaths[verifChoose(tag+"path", len(verifUntrustedPaths))]
	src := "github"
	var chain []verifSeg
	lit := verifChoose(tag+"lit", 2) == 1
	for _, seg := range strings.Split(p, ".")[1:] {
		t := tag + "star"
		if seg == "*" {
			if verifChoose(t, 2) == 1 {
				src += ".*"
				chain = append(chain, verifSeg{segFilter, ""})
			} else {
				src += "[0]"
				chain = append(chain, verifSeg{segIndex, ""})
			}
			continue
		}
		if lit {
			src += "['" + seg + "']"
			chain = append(chain, verifSeg{segLit, seg})
		} else {
			src += "." + seg
			chain = append(chain, verifSeg{segName, seg})
		}
	}
	return src, chain
}

// HarnessC11Two: two chains in one expression (operators, nested index): a
// generic chain first or second, the other one a documented untrusted path in
// one of its spellings (so that state left behind by the first chain is
// observable on the second).
func HarnessC11Two(depth int) {
	var x, y string
	var cx, cy []verifSeg
	if verifChoose("order", 2) == 1 {
		x, cx = verifUntrustedSpelling("u")
		y, cy = verifGenChainOver("b", depth, verifC11FewNames)
	} else {
		x, cx = verifGenChainOver("a", depth, verifC11FewNames)
		y, cy = verifUntrustedSpelling("u")
	}
	var src string
	switch verifChoose("shape", 4) {
	case 0:
		src = x + " == " + y
	case 1:
		src = x + " || " + y
	case 2:
		src = "format('{0}{1}', " + x + ", " + y + ")"
	case 3:
		src = "matrix.foo[" + x + "] != " + y
	}
	n, _, ok := verifUntrustedReports(src, true)
	verifCheck(ok, "generated-expression-does-not-parse")
	want := 0
	if len(verifExpectedPaths(cx)) > 0 {
		want++
	}
	if len(verifExpectedPaths(cy)) > 0 {
		want++
	}
	verifReach("compared")
	verifCheckf(n == want, "number-of-untrusted-reports-differs", src)
}

// HarnessC11Routing: the same untrusted expression at every scalar position of
// the full skeleton (plus the script input of actions/github-script): reported
// iff the position is a run: script or that script: input.
func HarnessC11Routing() {
	doc, sites := verifFullSkeletonSites()
	k := verifChoose("scalar", len(sites.scalars)+1)
	expr := "${{ github.event.issue.title }}"
	if k == len(sites.scalars) {
		// github-script
		// the step's keys in either order, the script input in three spellings
		key := []string{"script", "Script", "SCRIPT"}[verifChoose("scriptkey", 3)]
		src := "on: push\njobs:\n  j:\n    runs-on: ubuntu-latest\n    steps:\n      - uses: actions/github-script@v7\n        with:\n          " + key + ": console.log('" + expr + "')\n          other: " + expr + "\n"
		line := 8
		if verifChoose("withfirst", 2) == 1 {
			src = "on: push\njobs:\n  j:\n    runs-on: ubuntu-latest\n    steps:\n      - with:\n          " + key + ": console.log('" + expr + "')\n          other: " + expr + "\n        uses: actions/github-script@v7\n"
			line = 7
		}
		d := verifParseYAML(src)
		errs := verifLintNode(d, verifRules())
		n := 0
		for _, e := range errs {
			if strings.Contains(e.Message, "potentially untrusted") {
				n++
				verifCheck(e.Line == line, "github-script-report-not-at-script-input")
			}
		}
		verifReach("github-script")
		verifCheck(n == 1, "github-script-script-input-not-checked-exactly-once")
		return
	}
	site := sites.scalars[k]
	site.node.Tag, site.node.Style = "!!str", 0
	site.node.Value = expr
	verifPlace(doc, 1, 0)
	errs := verifLintNode(doc, verifRules())
	n := 0
	for _, e := range errs {
		if e.Line == site.node.Line && strings.Contains(e.Message, "potentially untrusted") {
			n++
		}
	}
	if site.key == "run" && site.ctx == cxStep {
		verifReach("script-position")
		verifCheck(n == 1, "untrusted-input-in-run-script-not-reported")
	} else {
		verifReach("other-position")
		verifCheckf(n == 0, "untrusted-input-reported-outside-script", site.path)
	}
}

func verifSegText(s verifSeg) string {
	switch s.kind {
	case segFilter:
		return ".*"
	case segIndex:
		return "[0]"
	case segLit:
		return "['" + s.name + "']"
	}
	return "." + s.name
}

// HarnessC11Split: a documented untrusted path cut in two at every position:
// the first part is a complete operand, the rest is applied to something that
// is not a context (the result of a sanitising or an ordinary call, a
// parenthesised literal). The checker must not stitch the two parts together:
// reports = what the first part alone denotes.
func HarnessC11Split() {
	_, chain := verifUntrustedSpelling("u")
	k := verifChoose("cut", len(chain))
	prefix, tail := "github", ""
	for j, s := range chain {
		if j < k {
			prefix += verifSegText(s)
		} else {
			tail += verifSegText(s)
		}
	}
	var src string
	switch verifChoose("shape", 5) {
	case 0:
		src = "format('{0}{1}', " + prefix + ", contains('a', 'b')" + tail + ")"
	case 1:
		src = "format('{0}{1}', " + prefix + ", toJSON('a')" + tail + ")"
	case 2:
		src = prefix + " == startsWith('a', 'b')" + tail
	case 3:
		src = "format('{0}{1}', " + prefix + ", ('a')" + tail + ")"
	default:
		src = "format('{0}{1}{2}', " + prefix + ", endsWith('a', contains('b', 'c')), fromJSON('1')" + tail + ")"
	}
	n, _, ok := verifUntrustedReports(src, true)
	verifCheckf(ok, "generated-expression-does-not-parse", src)
	want := 0
	if len(verifExpectedPaths(chain[:k])) > 0 {
		want = 1
	}
	verifReach("compared")
	verifCheckf(n == want, "number-of-untrusted-reports-differs", src)
}

// HarnessC11StarLiteral: ['*'] is an ordinary property access. A documented
// path whose array steps are spelled ['*'] (instead of .* or [n]) denotes no
// untrusted input.
func HarnessC11StarLiteral() {
	p := verifUntrustedPaths[verifChoose("path", len(verifUntrustedPaths))]
	src := "github"
	stars := 0
	for _, seg := range strings.Split(p, ".")[1:] {
		if seg == "*" {
			src += "['*']"
			stars++
		} else {
			src += "." + seg
		}
	}
	if stars == 0 {
		return
	}
	n, _, ok := verifUntrustedReports(src, true)
	verifCheckf(ok, "generated-expression-does-not-parse", src)
	verifReach("compared")
	verifCheckf(n == 0, "number-of-untrusted-reports-differs", src)
}

// HarnessC11Tail: a documented untrusted path in every spelling with one
// extra `[0]` inserted after any of its segments: after a `.*` filter the
// index selects an element of the filtered array and the value is still the
// untrusted one (commits.*.message[0], commits.*.author[0].name); elsewhere
// the chain no longer denotes a documented path.
func HarnessC11Tail() {
	x, chain := verifUntrustedSpelling("u")
	_ = x
	q := 1 + verifChoose("insert", 6)
	if q > len(chain) {
		verifReach("compared")
		return
	}
	extra := []verifSeg{{segIndex, ""}}
	if verifChoose("twice", 2) == 1 {
		extra = append(extra, verifSeg{segIndex, ""}) // two indexes in a row: only the first one can belong to a filter
	}
	nc := append(append(append([]verifSeg{}, chain[:q]...), extra...), chain[q:]...)
	src := "github"
	for _, s := range nc {
		src += verifSegText(s)
	}
	n, msg, ok := verifUntrustedReports(src, true)
	verifCheck(ok, "generated-expression-does-not-parse")
	want := verifExpectedPaths(nc)
	verifReach("compared")
	if len(want) > 0 {
		verifReach("filtered-then-indexed")
		verifCheckf(n == 1, "untrusted-input-not-reported-exactly-once", src)
		for _, p := range want {
			verifCheckf(strings.Contains(msg, "\""+p+"\""), "report-does-not-name-the-path", src+" -> "+p)
		}
	} else {
		verifCheckf(n == 0, "trusted-expression-reported", src)
	}
}
