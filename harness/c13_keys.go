//go:build verif

package actionlint

import (
	"strings"

	"gopkg.in/yaml.v3"
)

var verifStepsOnlyKeys = []string{"runs-on", "environment", "outputs", "env", "defaults", "steps", "timeout-minutes", "continue-on-error", "container"}

func verifHasKey(m *yaml.Node, k string) bool {
	for i := 0; i+1 < len(m.Content); i += 2 {
		if m.Content[i].Value == k {
			return true
		}
	}
	return false
}

// verifKeyExtra: documented diagnostics other than unknown/duplicate that are
// located at the key itself (mutually exclusive step kinds, keys not available
// with/without a reusable workflow call, incomplete credentials).
func verifKeyExtra(site verifMapSite, k string, nBefore int) bool {
	m := &yaml.Node{Kind: yaml.MappingNode, Content: site.node.Content[:nBefore]}
	switch site.ctx {
	case cxStep:
		if verifHasKey(m, "run") || verifHasKey(m, "shell") {
			return verifKeyIn(k, []string{"uses", "with"})
		}
		if verifHasKey(m, "uses") || verifHasKey(m, "with") {
			return verifKeyIn(k, []string{"run", "shell"})
		}
	case cxJob:
		if verifHasKey(m, "uses") {
			return verifKeyIn(k, verifStepsOnlyKeys)
		}
		return verifKeyIn(k, []string{"with", "secrets"})
	case cxContainer:
		return verifKeyIn(k, []string{"credentials"})
	}
	return false
}

// HarnessC13Unknown: one extra entry `K: x` with a symbolic key K of length
// klen appended to a mapping of the skeleton (the mapping is a free choice
// explored exhaustively), followed by a sibling with a concrete unknown key.
func HarnessC13Unknown(klen int) {
	doc, sites := verifSkeletonSites()
	mi := verifChoose("mapping", len(sites.maps))
	site := sites.maps[mi]
	m := site.node
	K := verifSymString("key", klen)
	if klen == len("zz-sibling") {
		verifAssume(verifNot(verifFoldEq(K, "zz-sibling")))
	}
	kn, vn := yScalar(K), verifValueFor(site.ctx)
	sn, svn := yScalar("zz-sibling"), verifValueFor(site.ctx)
	nBefore := len(m.Content)
	m.Content = append(m.Content, kn, vn, sn, svn)
	verifPlace(doc, 1, 0)

	p := &parser{}
	p.parse(doc)
	atK := verifErrAt(p.errors, kn)
	atSib := verifErrAt(p.errors, sn)
	atItem := verifErrAt(p.errors, m)

	keys, fixed := verifFixedKeys(site.ctx)
	unknown := false
	if fixed {
		unknown = verifNot(verifKeyIn(K, keys))
	}
	dup := verifPresent(m, K, verifCaseInsensitive(site.ctx), nBefore)
	if site.ctx == cxScheduleItem {
		// schedule items: the diagnostic sits on the item
		verifReach("schedule-item")
		verifCheck(atItem >= 1, "schedule-item-extra-key-reported-at-item")
		verifCheck(verifIff(atK >= 1, dup), "schedule-item-dup-at-key")
		return
	}
	expect := verifOr(unknown, verifOr(dup, verifKeyExtra(site, K, nBefore)))
	if atK >= 1 {
		verifReach("reported")
		verifCheckf(expect, "reported-key-is-known-and-unique", verifErrText(p.errors))
	} else {
		verifReach("silent")
		verifCheck(verifNot(expect), "unknown-or-duplicate-key-not-reported")
	}
	if fixed {
		verifCheck(atSib >= 1, "sibling-unknown-key-still-reported")
	} else {
		verifCheckf(atSib == 0, "sibling-user-key-not-reported", verifErrText(p.errors))
	}
}

// HarnessC13DupFold: two extra entries with symbolic keys in a mapping with
// user-chosen (case-insensitive) keys: the second is reported iff it equals
// the first after ASCII case folding.
func HarnessC13DupFold(klen int) {
	doc, sites := verifSkeletonSites()
	var open []verifMapSite
	for _, s := range sites.maps {
		if _, fixed := verifFixedKeys(s.ctx); !fixed && s.ctx != cxOn {
			open = append(open, s)
		}
	}
	site := open[verifChoose("mapping", len(open))]
	m := site.node
	K1 := verifSymString("k1", klen)
	K2 := verifSymString("k2", klen)
	verifAssume(verifNot(verifPresent(m, K1, true, len(m.Content))))
	k1n, k2n := yScalar(K1), yScalar(K2)
	m.Content = append(m.Content, k1n, verifValueFor(site.ctx), k2n, verifValueFor(site.ctx))
	verifPlace(doc, 1, 0)
	p := &parser{}
	p.parse(doc)
	at2 := verifErrAt(p.errors, k2n)
	at1 := verifErrAt(p.errors, k1n)
	same := verifFoldEq(K1, K2)
	preDup := verifPresent(m, K2, true, len(m.Content)-4)
	verifCheck(at1 == 0, "first-occurrence-not-reported")
	if at2 >= 1 {
		verifReach("dup-reported")
		verifCheck(verifOr(same, preDup), "reported-but-not-duplicate")
	} else {
		verifReach("dup-silent")
		verifCheck(verifNot(verifOr(same, preDup)), "case-variant-duplicate-not-reported")
	}
}

// verifValueFor: a well-formed value for a user-chosen key of context c (so
// that no "missing mandatory key" diagnostic lands on the id key itself).
func verifValueFor(c verifCtx) *yaml.Node {
	switch c {
	case cxJobs:
		return yMap(yScalar("runs-on"), yScalar("ubuntu-latest"), yScalar("steps"), ySeq(yMap(yScalar("run"), yScalar("echo"))))
	case cxServices:
		return yMap(yScalar("image"), yScalar("i"))
	case cxDispatchInputs, cxCallSecrets:
		return yMap(yScalar("description"), yScalar("d"))
	case cxCallInputs:
		return yMap(yScalar("type"), yScalar("string"))
	case cxCallOutputs:
		return yMap(yScalar("value"), yScalar("v"))
	case cxMatrix:
		return ySeq(yScalar("a"))
	}
	return yScalar("x")
}

type verifMandatory struct {
	ctx verifCtx
	key string
}

var verifMandatoryKeys = []verifMandatory{
	{cxWorkflow, "on"}, {cxWorkflow, "jobs"}, {cxJob, "runs-on"}, {cxJob, "steps"}, {cxStep, "run"}, {cxStep, "uses"},
	{cxCallInput, "type"}, {cxCallOutput, "value"}, {cxConcurrency, "group"}, {cxEnvironment, "name"},
	{cxCredentials, "username"}, {cxCredentials, "password"}, {cxDefaults, "run"}, {cxScheduleItem, "cron"},
}

// HarnessC13Missing: the clean skeleton yields no parser diagnostic; removing a
// mandatory key from any mapping that has it yields at least one.
func HarnessC13Missing() {
	doc, sites := verifSkeletonSites()
	if verifChoose("skeleton", 2) == 1 {
		// the full skeleton must lint clean as well (it is the position table of C03/C07/C12)
		fdoc, _ := verifFullSkeletonSites()
		verifPlace(fdoc, 1, 0)
		errs := verifLintNode(fdoc, verifRules())
		verifReach("full-baseline")
		verifCheckf(len(errs) == 0, "full-skeleton-is-clean", verifErrText(errs))
		return
	}
	which := verifChoose("mandatory", len(verifMandatoryKeys)+1)
	if which == len(verifMandatoryKeys) {
		verifPlace(doc, 1, 0)
		p := &parser{}
		p.parse(doc)
		verifReach("baseline")
		verifCheck(len(p.errors) == 0, "skeleton-is-clean")
		return
	}
	mk := verifMandatoryKeys[which]
	var cands []*yaml.Node
	for _, s := range sites.maps {
		if s.ctx == mk.ctx && verifHasKey(s.node, mk.key) {
			cands = append(cands, s.node)
		}
	}
	verifCheck(len(cands) > 0, "skeleton-has-mandatory-key")
	m := cands[verifChoose("site", len(cands))]
	// the key is removed, or spelled as a key nobody knows (the entry count stays)
	rename := verifChoose("rename", 2) == 1
	var kept []*yaml.Node
	for i := 0; i+1 < len(m.Content); i += 2 {
		if m.Content[i].Value != mk.key {
			kept = append(kept, m.Content[i], m.Content[i+1])
		} else if rename {
			m.Content[i].Value = "zz-unknown"
			kept = append(kept, m.Content[i], m.Content[i+1])
		}
	}
	m.Content = kept
	verifPlace(doc, 1, 0)
	p := &parser{}
	p.parse(doc)
	verifReach("removed")
	verifCheck(len(p.errors) >= 1, "missing-mandatory-key-reported")
	// one of the diagnostics is about the missing key: it names it
	named := 0
	for _, e := range p.errors {
		if !strings.Contains(e.Message, "unexpected key") && strings.Contains(e.Message, mk.key) {
			named++
		}
	}
	verifCheckf(named >= 1, "missing-mandatory-key-not-named-by-any-diagnostic", mk.key+": "+verifErrTextConc(p.errors))
	if rename {
		other := 0
		for _, e := range p.errors {
			if !strings.Contains(e.Message, "unexpected key") {
				other++
			}
		}
		verifCheckf(other >= 1, "missing-mandatory-key-hidden-by-an-unknown-sibling", mk.key)
	}
}

// HarnessC13Siblings: an unknown key never hides the diagnostics of its
// siblings — a schedule item whose cron value is wrong next to a foreign key;
// a job with several keys that do not fit its kind.
func HarnessC13Siblings() {
	s := yScalar
	switch verifChoose("case", 7) {
	case 0, 1:
		cronVal := []string{"", "invalid"}[verifChoose("cron", 2)]
		cron := s(cronVal)
		item := yMap(s("cron"), cron)
		if verifChoose("foreign", 2) == 1 {
			item = yMap(s("cron"), cron, s("timezone"), s("UTC"))
		}
		doc := yDoc(yMap(s("on"), yMap(s("schedule"), ySeq(item)), s("jobs"), yMap(s("j"), yMap(s("runs-on"), s("ubuntu-latest"), s("steps"), ySeq(yMap(s("run"), s("echo")))))))
		verifPlace(doc, 1, 0)
		errs := verifLintNode(doc, verifRules())
		verifReach("schedule")
		verifCheck(verifErrAt(errs, cron) >= 1, "unknown-key-hides-sibling-diagnostic")
		if len(item.Content) > 2 {
			// the foreign key of a schedule item is reported at the item
			verifCheck(verifErrAt(errs, item) >= 1, "foreign-key-of-schedule-item-not-reported-at-the-item")
		}
	case 2:
		// a reusable workflow call with two keys that are only for normal jobs
		k1, k2 := s("runs-on"), s("timeout-minutes")
		doc := yDoc(yMap(s("on"), s("push"), s("jobs"), yMap(s("j"), yMap(s("uses"), s("o/r/.github/workflows/w.yml@v1"), k1, s("ubuntu-latest"), k2, yTagged("!!int", "5")))))
		verifPlace(doc, 1, 0)
		p := &parser{}
		p.parse(doc)
		verifReach("call-job")
		verifCheck(verifErrAt(p.errors, k1) >= 1 && verifErrAt(p.errors, k2) >= 1, "inapplicable-job-key-not-reported")
	case 6:
		// a step with `with` and `working-directory` but no `uses`: the key that does not fit an
		// action step is reported and so is the missing `uses`
		wd := s("dir")
		step := yMap(s("with"), yMap(s([]string{"a", "script", "Script"}[verifChoose("input", 3)]), s("b")), s("working-directory"), wd)
		doc := yDoc(yMap(s("on"), s("push"), s("jobs"), yMap(s("j"), yMap(s("runs-on"), s("ubuntu-latest"), s("steps"), ySeq(step)))))
		verifPlace(doc, 1, 0)
		p := &parser{}
		w := p.parse(doc)
		// the rules still run on what the parser kept (no rule may rely on the missing key)
		verifVisit(w, nil, verifRules())
		verifReach("normal-job")
		uses := 0
		for _, e := range p.errors {
			if strings.Contains(e.Message, "\"uses\" is required") {
				uses++
			}
		}
		verifCheck(verifErrAt(p.errors, wd) >= 1 && uses >= 1, "missing-mandatory-key-hidden-by-an-unknown-sibling")
	case 4:
		// a stray `with` does not hide the missing mandatory keys
		k1 := s("with")
		jid := s("j")
		doc := yDoc(yMap(s("on"), s("push"), s("jobs"), yMap(jid, yMap(s("steps"), ySeq(yMap(s("run"), s("echo"))), k1, yMap(s("a"), s("b"))))))
		verifPlace(doc, 1, 0)
		p := &parser{}
		p.parse(doc)
		verifReach("normal-job")
		verifCheck(verifErrAt(p.errors, k1) >= 1 && verifErrAt(p.errors, jid) >= 1, "missing-mandatory-key-hidden-by-an-unknown-sibling")
	default:
		k1, k2 := s("with"), s("secrets")
		var secrets *yaml.Node = yMap(s("c"), s("d"))
		if verifChoose("inherit", 2) == 1 {
			secrets = s("inherit") // the scalar form is as inapplicable to a normal job as the mapping
		}
		doc := yDoc(yMap(s("on"), s("push"), s("jobs"), yMap(s("j"), yMap(s("runs-on"), s("ubuntu-latest"), s("steps"), ySeq(yMap(s("run"), s("echo"))), k1, yMap(s("a"), s("b")), k2, secrets))))
		verifPlace(doc, 1, 0)
		p := &parser{}
		p.parse(doc)
		verifReach("normal-job")
		verifCheck(verifErrAt(p.errors, k1) >= 1 && verifErrAt(p.errors, k2) >= 1, "inapplicable-job-key-not-reported")
	}
}
