//go:build verif

package actionlint

import "gopkg.in/yaml.v3"

// C07 — diagnostics point at the exact source position.

// HarnessC07Lex: every token's (line, column) equals what its offset implies.
func HarnessC07Lex(L int) {
	src := verifSymString("src", L)
	for i := 0; i < L; i++ {
		verifAssumeNote(src[i] < 0x80, "C07 lexer positions: ASCII input (columns count characters)")
	}
	lex := NewExprLexer(src + "}}")
	for n := 0; n < L+2; n++ {
		t := lex.Next()
		verifCheck(0 <= t.Offset && t.Offset <= L+2, "token-offset-out-of-input")
		// reference: count line breaks before the offset
		line, lastNL := 1, -1
		for i := 0; i < t.Offset && i < L; i++ {
			nl := src[i] == '\n'
			line = verifIteInt(nl, line+1, line)
			lastNL = verifIteInt(nl, i, lastNL)
		}
		verifCheck(t.Line == line, "token-line-differs-from-offset")
		verifCheck(t.Column == t.Offset-lastNL, "token-column-differs-from-offset")
		if t.Kind == TokenKindEnd {
			break
		}
		if len(t.Value) > 0 && t.Offset+len(t.Value) <= L+2 {
			verifReach("token")
			verifCheck(t.Value == (src + "}}")[t.Offset:t.Offset+len(t.Value)], "token-text-is-not-the-source-slice")
		}
	}
	if e := lex.Err(); e != nil {
		verifReach("lex-error")
		verifCheck(0 <= e.Offset && e.Offset <= L+2 && e.Line >= 1 && e.Column >= 1, "lex-error-position-out-of-input")
	}
}

var verifBadExprs = []struct {
	text   string
	offset int // offset of the offending token inside the text
}{
	{" ]] ", 1}, {" a b ", 3}, {"a..b", 2}, {"(a", 2}, {"a &  b", 3}, {" 0x ", 3}, {"unknown_ctx.x ", 0}, {" foo() ", 1}, {"github.nope ", 0}, {" 1 == github.nope", 6},
	{"hashFiles('a', null) ", 15}, {"hashFiles('a', 'b', null)", 20}, {"startsWith('a', null)", 16}, {"format('{0}', 1, 2) ", 0},
	{"github.sha.foo ", 0}, {"!github.nope", 1}, {"(github.nope)", 1}, {"'a' < github", 0},
	// a diagnostic anchored at an operand that starts with several `!`
	{" !!github.sha < 1", 1}, {"! !  github.sha >= 10", 0}, {"fromJSON('[1]')[!!github.sha]", 16}, {"!!!github.sha < 1 ", 0},
	// well-typed but not printable: "object, array, and null values should not be evaluated in template", reported at the ${{
	{"github.event ", -3}, {" null ", -3},
}

// HarnessC07Template: a template string pre + ${{ good }} + mid + ${{ bad }}
// with symbolic filler bytes, a fully symbolic scalar position (64-bit line
// and column) and quoting flag: the diagnostic of the second placeholder must
// be at (line, col + quoted + |pre| + 3 + |good| + 2 + |mid| + 3 + o).
func HarnessC07Template(lp, lm int) {
	pre := verifSymString("pre", lp)
	mid := verifSymString("mid", lm)
	for _, s := range []string{pre, mid} {
		for i := 0; i < len(s); i++ {
			verifAssumeNote(verifAnd(verifAnd(s[i] != '$', s[i] != '\n'), verifAnd(s[i] != '\r', verifAnd(s[i] < 0x80, s[i] != 0))), "C07 template: filler text is single-line ASCII without '$' and NUL")
		}
	}
	good := " 1 "
	bad := verifBadExprs[verifChoose("bad", len(verifBadExprs))]
	line, col := verifSymInt("line"), verifSymInt("col")
	verifAssume(verifAnd(verifAnd(1 <= line, line < 1<<40), verifAnd(1 <= col, col < 1<<40)))
	quoted := verifSymBool("quoted")
	two := verifChoose("placeholders", 2) == 1
	value := pre + "${{" + bad.text + "}}"
	want := col + lp + 3 + bad.offset
	if two {
		value = pre + "${{" + good + "}}" + mid + "${{" + bad.text + "}}"
		want = col + lp + 3 + len(good) + 2 + lm + 3 + bad.offset
	}
	want = verifIteInt(quoted, want+1, want)
	rule := NewRuleExpression(NewLocalActionsCache(nil, nil), NewLocalReusableWorkflowCache(nil, "/", nil))
	rule.checkString(&String{Value: value, Quoted: quoted, Pos: &Pos{line, col}}, "jobs.<job_id>.steps.run")
	errs := rule.Errs()
	verifReach("checked")
	verifCheck(len(errs) == 1, "malformed-placeholder-not-reported-exactly-once")
	for _, e := range errs {
		if verifIsNative() {
			verifDebug("c07", value+" => "+e.Error())
		}
		verifCheck(e.Line == line, "diagnostic-on-wrong-line")
		verifCheck(e.Column == want, "diagnostic-column-is-not-the-offending-token")
	}
}

// HarnessC07Node: parser diagnostics carry exactly the offending node's
// (line, column): an unknown key with symbolic position in every mapping.
func HarnessC07Node() {
	doc, sites := verifSkeletonSites()
	site := sites.maps[verifChoose("mapping", len(sites.maps))]
	if _, fixed := verifFixedKeys(site.ctx); !fixed || site.ctx == cxScheduleItem {
		return
	}
	kn := yScalar("zz-unknown")
	site.node.Content = append(site.node.Content, kn, verifValueFor(site.ctx))
	verifPlace(doc, 1, 0)
	line, col := verifSymInt("line"), verifSymInt("col")
	verifAssume(verifAnd(verifAnd(1000 <= line, line < 1<<40), verifAnd(1000 <= col, col < 1<<40)))
	kn.Line, kn.Column = line, col
	p := &parser{}
	p.parse(doc)
	n := 0
	for _, e := range p.errors {
		if verifAnd(e.Line == line, e.Column == col) {
			n++
		}
	}
	verifReach("injected")
	verifCheck(n == 1, "unknown-key-diagnostic-not-at-key-position")
}

// HarnessC07Glob: RuleGlob maps the in-pattern column onto the scalar position.
func HarnessC07Glob(L int, isRef bool) {
	pat := verifSymString("pat", L)
	line, col := verifSymInt("line"), verifSymInt("col")
	verifAssume(verifAnd(verifAnd(1 <= line, line < 1<<40), verifAnd(1 <= col, col < 1<<40)))
	quoted := verifSymBool("quoted")
	var errs []InvalidGlobPattern
	if isRef {
		errs = ValidateRefGlob(pat)
	} else {
		errs = ValidatePathGlob(pat)
	}
	rule := NewRuleGlob()
	rule.globErrors(errs, &Pos{line, col}, quoted)
	out := rule.Errs()
	verifCheck(len(out) == len(errs), "glob-diagnostic-lost")
	for i := range out {
		verifReach("glob-diagnostic")
		want := col
		if errs[i].Column != 0 {
			want = col + errs[i].Column - 1
		}
		want = verifIteInt(quoted, want+1, want)
		verifCheck(out[i].Line == line && out[i].Column == want, "glob-diagnostic-not-at-offending-character")
	}
}

// HarnessC07If: an `if:` condition written without ${{ }} (plain or quoted
// scalar) at a symbolic position: the diagnostic of the offending token is at
// column + quoted + offset.
func HarnessC07If() {
	bads := []struct {
		text   string
		offset int
	}{{"true && foo.bar", 8}, {"github.nope", 0}, {" ]] ", 1}, {"a b", 2}, {"1 == github.nope", 5}}
	bad := bads[verifChoose("bad", len(bads))]
	line, col := verifSymInt("line"), verifSymInt("col")
	verifAssume(verifAnd(verifAnd(1 <= line, line < 1<<40), verifAnd(1 <= col, col < 1<<40)))
	quoted := verifSymBool("quoted")
	rule := NewRuleExpression(NewLocalActionsCache(nil, nil), NewLocalReusableWorkflowCache(nil, "/", nil))
	rule.checkIfCondition(&String{Value: bad.text, Quoted: quoted, Pos: &Pos{line, col}}, "jobs.<job_id>.if")
	errs := rule.Errs()
	verifReach("checked")
	verifCheck(len(errs) >= 1, "malformed-placeholder-not-reported-exactly-once")
	want := verifIteInt(quoted, col+bad.offset+1, col+bad.offset)
	if len(errs) >= 1 {
		verifCheck(errs[0].Line == line && errs[0].Column == want, "diagnostic-column-is-not-the-offending-token")
	}
}

// HarnessC07FrozenAST: rules read positions from the syntax tree they share;
// none may write to it (a rule that adjusts a *Pos in place shifts the reports
// of every rule that runs after it). The skeleton workflow — every scalar in
// turn written in single quotes, double quotes or plain, optionally holding an
// undefined variable in a placeholder — is parsed, the syntax tree is frozen,
// and all rules run; any store into the tree is a violation. The report for
// the placeholder must also sit at the same column offset from the scalar as
// when the expression rule runs alone.
func HarnessC07FrozenAST() {
	doc, sites := verifFullSkeletonSites()
	site := sites.scalars[verifChoose("scalar", len(sites.scalars))]
	style := []yaml.Style{0, yaml.SingleQuotedStyle, yaml.DoubleQuotedStyle}[verifChoose("style", 3)]
	if verifChoose("placeholder", 2) == 1 {
		site.node.Tag = "!!str"
		site.node.Value = "x/${{ nosuchvar }}/**"
	}
	site.node.Style = style
	verifPlace(doc, 1, 0)
	w, perrs := verifParseOnly(doc)
	if w == nil {
		verifReach("linted")
		return
	}
	verifFreeze("workflow syntax tree", w)
	verifVisit(w, perrs, verifRulesNoDeprecated())
	verifReach("linted")
}

// HarnessC07Fields: fields that take one placeholder as their whole value
// (numbers, booleans, `env` / `matrix` given by an expression), written as a
// quoted scalar with k blanks before the placeholder, at a symbolic position:
// the undefined variable inside is reported at column + 1 + k + 4.
func HarnessC07Fields() {
	s := yScalar
	k := verifChoose("blanks", 3)
	val := &yaml.Node{Kind: yaml.ScalarNode, Tag: "!!str", Style: yaml.DoubleQuotedStyle, Value: "   "[:k] + "${{ zzz }}"}
	field := verifChoose("field", 6)
	step := []*yaml.Node{s("run"), s("echo")}
	job := []*yaml.Node{s("runs-on"), s("ubuntu-latest")}
	strategy := []*yaml.Node{}
	switch field {
	case 0:
		job = append(job, s("timeout-minutes"), val)
	case 1:
		step = append(step, s("continue-on-error"), val)
	case 2:
		strategy = append(strategy, s("max-parallel"), val)
	case 3:
		strategy = append(strategy, s("fail-fast"), val)
	case 4:
		job = append(job, s("env"), val)
	case 5:
		strategy = append(strategy, s("matrix"), val)
	}
	if len(strategy) > 0 {
		job = append(job, s("strategy"), yMap(strategy...))
	}
	job = append(job, s("steps"), ySeq(yMap(step...)))
	doc := yDoc(yMap(s("on"), s("push"), s("jobs"), yMap(s("j"), yMap(job...))))
	verifPlace(doc, 1, 0)
	line, col := verifSymInt("line"), verifSymInt("col")
	verifAssume(verifAnd(verifAnd(100 <= line, line < 1<<40), verifAnd(1 <= col, col < 1<<40)))
	val.Line, val.Column = line, col
	errs := verifLintNode(doc, verifExprRuleOnly())
	verifReach("checked")
	n := 0
	for _, e := range errs {
		if e.Line == line {
			n++
			verifCheck(e.Column == col+1+k+4, "diagnostic-column-is-not-the-offending-token")
		}
	}
	verifCheck(n >= 1, "malformed-placeholder-not-reported-exactly-once")
}

// HarnessC07Untrusted: the "potentially untrusted" diagnostic of a run: script
// sits at the first token of the untrusted access, also when harmless accesses
// to the same context come before it in the same placeholder.
func HarnessC07Untrusted() {
	exprs := []struct {
		text   string
		offset int
	}{
		{" github.head_ref ", 1}, {"github.event_name == 'pull_request' && github.head_ref", 39}, {" github.sha || github.event.issue.title", 15},
		{"format('{0}{1}', github.ref_name, github.event.pull_request.body)", 34}, {"github.event.issue.number > 1 && github.event.issue.title", 33},
	}
	x := exprs[verifChoose("expr", len(exprs))]
	line, col := verifSymInt("line"), verifSymInt("col")
	verifAssume(verifAnd(verifAnd(1 <= line, line < 1<<40), verifAnd(1 <= col, col < 1<<40)))
	quoted := verifSymBool("quoted")
	rule := NewRuleExpression(NewLocalActionsCache(nil, nil), NewLocalReusableWorkflowCache(nil, "/", nil))
	rule.checkScriptString(&String{Value: "echo ${{" + x.text + "}}", Quoted: quoted, Pos: &Pos{line, col}}, "jobs.<job_id>.steps.run")
	errs := rule.Errs()
	verifReach("checked")
	verifCheck(len(errs) == 1, "malformed-placeholder-not-reported-exactly-once")
	want := verifIteInt(quoted, col+5+3+x.offset+1, col+5+3+x.offset)
	for _, e := range errs {
		verifCheck(e.Line == line && e.Column == want, "diagnostic-column-is-not-the-offending-token")
	}
}

// HarnessC07RunnerLabel: `runs-on: ${{ matrix.os }}` with an unknown label among
// the matrix values — in the row or in an include entry, at a symbolic
// position: the runner-label diagnostic sits at that value.
func HarnessC07RunnerLabel() {
	s := yScalar
	bad := s("ubuntu-oldest")
	var matrix *yaml.Node
	if verifChoose("where", 2) == 1 {
		matrix = yMap(s("os"), ySeq(s("ubuntu-latest")), s("include"), ySeq(yMap(s("os"), bad)))
	} else {
		matrix = yMap(s("os"), ySeq(s("ubuntu-latest"), bad))
	}
	doc := yDoc(yMap(s("on"), s("push"), s("jobs"), yMap(s("j"), yMap(s("runs-on"), s("${{ matrix.os }}"), s("strategy"), yMap(s("matrix"), matrix), s("steps"), ySeq(yMap(s("run"), s("echo")))))))
	verifPlace(doc, 1, 0)
	line, col := verifSymInt("line"), verifSymInt("col")
	verifAssume(verifAnd(verifAnd(100 <= line, line < 1<<40), verifAnd(1 <= col, col < 1<<40)))
	bad.Line, bad.Column = line, col
	errs := verifLintNode(doc, []Rule{NewRuleRunnerLabel()})
	verifReach("checked")
	verifCheck(len(errs) == 1, "malformed-placeholder-not-reported-exactly-once")
	for _, e := range errs {
		verifCheck(e.Line == line && e.Column == col, "diagnostic-column-is-not-the-offending-token")
	}
}
