//go:build verif

package actionlint

// C04, structure: "accepted text is analysed according to that structure" — `!`
// binds tighter than comparison, comparison tighter than `&&`, `&&` tighter than
// `||`. A reference tree is generated (all shapes up to the depth bound), printed
// with the parentheses the documented precedences require and no others, and
// parsed by the real parser: the syntax tree must be the reference tree. Chains
// of one precedence level are always parenthesised (associativity is not part of
// the statement).

type verifTree struct {
	op   int // 0 atom, 1 not, 2 compare, 3 and, 4 or
	atom int
	cmp  int
	l, r *verifTree
}

var verifC04Atoms = []string{"a", "b.c", "'x''y'", "1", "f(a, b)", "a[0]", "true", "null", "''''"}
var verifC04Cmps = []string{"==", "!=", "<", "<=", ">", ">="}

func verifGenTree(tag string, depth, natoms, ncmps int) *verifTree {
	k := 0
	if depth > 1 {
		k = verifChoose(tag+"op", 5)
	}
	switch k {
	case 0:
		return &verifTree{op: 0, atom: verifChoose(tag+"atom", natoms)}
	case 1:
		return &verifTree{op: 1, l: verifGenTree(tag+"n", depth-1, natoms, ncmps)}
	case 2:
		return &verifTree{op: 2, cmp: verifChoose(tag+"cmp", ncmps), l: verifGenTree(tag+"l", depth-1, natoms, ncmps), r: verifGenTree(tag+"r", depth-1, natoms, ncmps)}
	}
	return &verifTree{op: k, l: verifGenTree(tag+"l", depth-1, natoms, ncmps), r: verifGenTree(tag+"r", depth-1, natoms, ncmps)}
}

// level: 4 atom / postfix, 3 not, 2 compare, 1 and, 0 or
func (t *verifTree) level() int {
	switch t.op {
	case 0:
		return 4
	case 1:
		return 3
	case 2:
		return 2
	case 3:
		return 1
	}
	return 0
}

func (t *verifTree) print(sp string) string {
	wrap := func(c *verifTree, min int) string {
		s := c.print(sp)
		if c.level() < min {
			return "(" + s + ")"
		}
		return s
	}
	switch t.op {
	case 0:
		return verifC04Atoms[t.atom]
	case 1:
		return "!" + sp + wrap(t.l, 3)
	case 2:
		return wrap(t.l, 3) + sp + verifC04Cmps[t.cmp] + sp + wrap(t.r, 3)
	case 3:
		return wrap(t.l, 2) + sp + "&&" + sp + wrap(t.r, 2)
	}
	return wrap(t.l, 1) + sp + "||" + sp + wrap(t.r, 1)
}

func verifAtomMatches(n ExprNode, atom int) bool {
	switch atom {
	case 0:
		v, ok := n.(*VariableNode)
		return ok && v.Name == "a"
	case 1:
		d, ok := n.(*ObjectDerefNode)
		if !ok || d.Property != "c" {
			return false
		}
		v, ok := d.Receiver.(*VariableNode)
		return ok && v.Name == "b"
	case 2:
		s, ok := n.(*StringNode)
		return ok && s.Value == "x'y"
	case 3:
		i, ok := n.(*IntNode)
		return ok && i.Value == 1
	case 4:
		c, ok := n.(*FuncCallNode)
		return ok && c.Callee == "f" && len(c.Args) == 2 && verifAtomMatches(c.Args[0], 0)
	case 5:
		x, ok := n.(*IndexAccessNode)
		if !ok {
			return false
		}
		i, ok := x.Index.(*IntNode)
		return ok && i.Value == 0 && verifAtomMatches(x.Operand, 0)
	case 6:
		b, ok := n.(*BoolNode)
		return ok && b.Value
	case 7:
		_, ok := n.(*NullNode)
		return ok
	case 8:
		s, ok := n.(*StringNode)
		return ok && s.Value == "'"
	}
	return false
}

func verifTreeMatches(n ExprNode, t *verifTree) bool {
	switch t.op {
	case 0:
		return verifAtomMatches(n, t.atom)
	case 1:
		x, ok := n.(*NotOpNode)
		return ok && verifTreeMatches(x.Operand, t.l)
	case 2:
		x, ok := n.(*CompareOpNode)
		want := []CompareOpNodeKind{CompareOpNodeKindEq, CompareOpNodeKindNotEq, CompareOpNodeKindLess, CompareOpNodeKindLessEq, CompareOpNodeKindGreater, CompareOpNodeKindGreaterEq}[t.cmp]
		return ok && x.Kind == want && verifTreeMatches(x.Left, t.l) && verifTreeMatches(x.Right, t.r)
	}
	x, ok := n.(*LogicalOpNode)
	want := LogicalOpNodeKindAnd
	if t.op == 4 {
		want = LogicalOpNodeKindOr
	}
	return ok && x.Kind == want && verifTreeMatches(x.Left, t.l) && verifTreeMatches(x.Right, t.r)
}

// HarnessC04Structure: every reference tree up to the depth bound (operators
// !, the first ncmps of six comparisons, &&, ||; the first natoms of nine kinds
// of operand), printed with minimal parentheses and with or without blanks
// around operators.
func HarnessC04Structure(depth, natoms, ncmps int) {
	t := verifGenTree("t", depth, natoms, ncmps)
	sp := []string{"", " "}[verifChoose("blanks", 2)]
	src := t.print(sp)
	tree, err := NewExprParser().Parse(NewExprLexer(src + "}}"))
	verifReach("parsed")
	verifCheckf(err == nil, "sentence-of-the-language-rejected", src)
	if err != nil {
		return
	}
	verifCheckf(verifTreeMatches(tree, t), "accepted-text-analysed-with-another-structure", src)
}

// HarnessC04Reuse: an ExprParser is an object of the public API that may be
// used for several texts: a sentence is accepted whatever was parsed before
// it (rejected text of several kinds, or another sentence).
func HarnessC04Reuse() {
	before := []string{"1 2", "a.1", "(a", "a ||", "f(a,", "!", "a[", "'x", "a b c", "ok"}[verifChoose("before", 10)]
	sentence := []string{"a", "a == b", "f(a)[0].b", "!a && (b || c)"}[verifChoose("sentence", 4)]
	p := NewExprParser()
	p.Parse(NewExprLexer(before + "}}"))
	_, err := p.Parse(NewExprLexer(sentence + "}}"))
	verifReach("parsed")
	verifCheckf(err == nil, "sentence-of-the-language-rejected", before+" ; "+sentence)
}
