//go:build verif

package actionlint

import (
	"io"
	"strconv"
)

// C02 — output is a deterministic function of the inputs (hash-map iteration
// order). Self-composition: a workflow is linted once with insertion-ordered
// maps while the engine records which functions range over a map of two or
// more entries; then, for each such function in turn (free choice), it is
// linted again with that function's map iterations in symbolic order. Both
// diagnostic sequences must be identical.

var verifC02Corpus = []string{
	// several same-position diagnostics from one map loop
	`
on: push
jobs:
  a:
    runs-on: ubuntu-latest
    steps:
      - run: echo ${{ format('{0}{1}{2}{3}', 1) }}
`, `
on: push
jobs:
  a:
    runs-on: [ubuntu-latest, windows-latest, macos-latest]
    steps:
      - uses: actions/cache@v4
      - uses: actions/checkout@v4
        with:
          nope1: a
          nope2: b
`, `
on: push
permissions:
  nope1: read
  nope2: write
jobs:
  a:
    needs: [b]
    runs-on: ubuntu-latest
    steps:
      - run: echo
  b:
    needs: [a, c]
    runs-on: ubuntu-latest
    steps:
      - run: echo
  c:
    needs: [b]
    runs-on: ubuntu-latest
    steps:
      - run: echo
`, `
on:
  workflow_dispatch:
    inputs:
      i1:
        type: choice
      i2:
        type: choice
jobs:
  a:
    runs-on: ubuntu-latest
    strategy:
      matrix:
        os: [a, a]
        ver: [1, 1]
        exclude:
          - nope1: 1
            nope2: 2
    env:
      A B: x
      C D: y
    steps:
      - run: echo ${{ github.event.*.body }} ${{ github.event.pull_request.*.ref }}
      - run: echo ${{ matrix.nope }} ${{ inputs.nope }}
`, `
on:
  workflow_call:
    inputs:
      i1:
        type: string
      i2:
        type: string
    secrets:
      s1:
      s2:
    outputs:
      o1:
        value: ${{ jobs.a.outputs.nope1 }}
      o2:
        value: ${{ jobs.b.outputs.nope2 }}
jobs:
  a:
    runs-on: ubuntu-latest
    outputs:
      x: ${{ steps.nope.outputs.y }}
      y: ${{ steps.nope.outputs.z }}
    steps:
      - run: echo ${{ secrets.nope }} ${{ inputs.nope }}
`,
}

func init() {
	verifC02Corpus = append(verifC02Corpus, `
on: push
jobs:
  a:
    runs-on: [ubuntu-latest, ubuntu-22.04, linux, windows-latest]
    steps:
      - run: echo
`, `
on: push
jobs:
  a:
    needs: [b]
    runs-on: ubuntu-latest
    steps:
      - run: echo
  b:
    needs: [a]
    runs-on: ubuntu-latest
    steps:
      - run: echo
  c:
    needs: [d]
    runs-on: ubuntu-latest
    steps:
      - run: echo
  d:
    needs: [c]
    runs-on: ubuntu-latest
    steps:
      - run: echo
`, `
on: push
jobs:
  a:
    runs-on: [self-hosted, linux,
      ubuntu-22.04, windows-latest,
   macos-latest]
    steps:
      - run: echo
`, `
on: push
jobs: {zz: {needs: [b], runs-on: ubuntu-latest, steps: [{run: echo}]}, b: {needs: [zz], runs-on: ubuntu-latest, steps: [{run: echo}]},
 c: {needs: [d], runs-on: ubuntu-latest, steps: [{run: echo}]}, d: {needs: [c], runs-on: ubuntu-latest, steps: [{run: echo}]}}
`, `
on: push
jobs:
  a:
    runs-on: ubuntu-latest
    steps:
      - run: |
          echo ${{ fromJSON('{"A": 1, "a": {"b": 1}}').a.b }}
      - run: |
          echo ${{ fromJSON('{"x": {"B": "s", "b": {"c": 1}}}').x.b.c }}
`)
}

func verifSameSeq(x, y []*Error) bool {
	if len(x) != len(y) {
		return false
	}
	for i := range x {
		if x[i].Line != y[i].Line || x[i].Column != y[i].Column || x[i].Kind != y[i].Kind || x[i].Message != y[i].Message {
			return false
		}
	}
	return true
}

func HarnessC02MapOrder() {
	src := verifC02Corpus[verifChoose("workflow", len(verifC02Corpus))]
	verifRecordMapRangers(true)
	e0 := verifLintNode(verifParseYAML(src), verifRules())
	verifRecordMapRangers(false)
	fns := verifMapRangers()
	verifCheck(verifIsNative() || len(fns) > 0, "no-map-iteration-reached")
	if len(e0) >= 2 {
		verifReach("several-diagnostics")
	}
	fn := "(native: Go's own random iteration order, 60 repetitions)"
	if !verifIsNative() {
		fn = fns[verifChoose("site", len(fns))]
	}
	reps := 1
	if verifIsNative() {
		reps = 60
	}
	for r := 0; r < reps; r++ {
		verifMapOrder(true, fn)
		e1 := verifLintNode(verifParseYAML(src), verifRules())
		verifMapOrder(false)
		verifCheckf(verifSameSeq(e0, e1), "output-depends-on-map-iteration-order", fn+": "+verifErrTextConc(e1))
	}
	verifReach("compared")
}

// HarnessC02WorkflowCall: a job calling a local reusable workflow whose
// interface (three required inputs, three required secrets) is known from the
// cache; nothing is supplied. The six diagnostics share one position.
func HarnessC02WorkflowCall() {
	lint := func() []*Error {
		proj := &Project{root: "/r"}
		cache := NewLocalReusableWorkflowCache(proj, "/r", nil)
		cache.cache["./.github/workflows/callee.yml"] = &ReusableWorkflowMetadata{
			Inputs: ReusableWorkflowMetadataInputs{
				"ia": {Name: "ia", Required: true, Type: StringType{}},
				"ib": {Name: "ib", Required: true, Type: StringType{}},
				"ic": {Name: "ic", Required: true, Type: StringType{}},
			},
			Secrets: ReusableWorkflowMetadataSecrets{
				"sa": {Name: "sa", Required: true},
				"sb": {Name: "sb", Required: true},
				"sc": {Name: "sc", Required: true},
			},
			Outputs: ReusableWorkflowMetadataOutputs{},
		}
		doc := verifParseYAML("on: push\njobs:\n  j:\n    uses: ./.github/workflows/callee.yml\n")
		return verifLintNode(doc, []Rule{NewRuleWorkflowCall("/r/.github/workflows/w.yml", cache)})
	}
	e0 := lint()
	verifCheck(len(e0) == 6, "expected-six-diagnostics")
	reps := 1
	if verifIsNative() {
		reps = 60
	}
	for r := 0; r < reps; r++ {
		verifMapOrder(true, "checkWorkflowCallUsesLocal")
		e1 := lint()
		verifMapOrder(false)
		verifCheckf(verifSameSeq(e0, e1), "output-depends-on-map-iteration-order", "checkWorkflowCallUsesLocal: "+verifErrTextConc(e1))
	}
	verifReach("compared")
}

// HarnessC02Order: the comparators that make "pick the smallest" and the final
// sort independent of iteration order are strict total / strict weak orders —
// for every pair and triple of positions (full 64-bit lines and columns).
// Pos.IsBefore is what the runner-label and needs-cycle rules use to choose
// among candidates found in map order; ByErrorPosition.Less orders the output.
func HarnessC02Order() {
	p := &Pos{verifSymInt("l1"), verifSymInt("c1")}
	q := &Pos{verifSymInt("l2"), verifSymInt("c2")}
	r := &Pos{verifSymInt("l3"), verifSymInt("c3")}
	pq, qp, qr, pr := p.IsBefore(q), q.IsBefore(p), q.IsBefore(r), p.IsBefore(r)
	verifReach("compared")
	verifCheck(!(pq && qp), "IsBefore-not-antisymmetric")
	same := p.Line == q.Line && p.Col == q.Col
	verifCheck(same || pq || qp, "IsBefore-not-total")
	verifCheck(!same || (!pq && !qp), "IsBefore-not-irreflexive")
	verifCheck(!(pq && qr) || pr, "IsBefore-not-transitive")

	es := ByErrorPosition{
		{Filepath: "f", Line: p.Line, Column: p.Col},
		{Filepath: "f", Line: q.Line, Column: q.Col},
		{Filepath: "f", Line: r.Line, Column: r.Col},
	}
	l01, l10, l12, l02 := es.Less(0, 1), es.Less(1, 0), es.Less(1, 2), es.Less(0, 2)
	verifCheck(!(l01 && l10), "Less-not-antisymmetric")
	verifCheck(same || l01 || l10, "Less-leaves-distinct-positions-unordered")
	verifCheck(!(l01 && l12) || l02, "Less-not-transitive")
	verifCheck(l01 == pq, "Less-and-IsBefore-disagree")
}

// HarnessC02JobOrder: two jobs that share a missing local reusable workflow and
// a broken local action (the caches report such an error to the first caller
// only): the diagnostics are the same whatever order the jobs map yields.
func HarnessC02JobOrder() {
	src := `
on: push
jobs:
  zz:
    uses: ./.github/workflows/missing.yml
  aa:
    uses: ./.github/workflows/missing.yml
  mm:
    runs-on: ubuntu-latest
    steps:
      - uses: ./broken
  bb:
    runs-on: ubuntu-latest
    steps:
      - uses: ./broken
`
	if verifIsNative() {
		verifC02NativeJobOrder(src)
		return
	}
	verifC14ActionYAML = "name: act\nruns:\n  using: node20\n  main: index.js\n" // no description: metadata diagnostic
	verifOverride("os.ReadFile", verifC14ReadAction)
	verifOverride("os.Stat", verifC14Stat)
	run := func() []*Error {
		proj := &Project{root: "/r"}
		la := NewLocalActionsCache(proj, nil)
		lw := NewLocalReusableWorkflowCache(proj, "/r", nil)
		rules := []Rule{NewRuleAction(la), NewRuleWorkflowCall("/r/.github/workflows/w.yml", lw), NewRuleExpression(la, lw)}
		return verifLintNode(verifParseYAML(src), rules)
	}
	e0 := run()
	verifCheck(len(e0) >= 2, "shared-errors-are-reported")
	verifMapOrder(true)
	e1 := run()
	verifMapOrder(false)
	verifReach("compared")
	verifCheckf(verifSameSeq(e0, e1), "output-depends-on-map-iteration-order", verifErrTextConc(e1))
}

var verifC02Stream string

func verifC02Print(f *ErrorFormatter, out io.Writer, t []*ErrorTemplateFields) error {
	s := ""
	for _, e := range t {
		s += e.Filepath + ":" + strconv.Itoa(e.Line) + ":" + strconv.Itoa(e.Column) + ": " + e.Message + " [" + e.Kind + "] " + e.Snippet + "\n"
	}
	verifC02Stream = s
	return nil
}

// HarnessC02Format: three files linted in one run with a custom format. The
// per-file goroutines run as wholes in each of the 6 possible completion
// orders (the order is the harness's choice; every such order is a schedule
// of the real program since the goroutines do not wait for each other). The
// list handed to the template printer and the returned list must not depend
// on it. Natively: the first file is made slow (many jobs), 10 runs.
func HarnessC02Format() {
	perms := [][]int{{0, 1, 2}, {0, 2, 1}, {1, 0, 2}, {1, 2, 0}, {2, 0, 1}, {2, 1, 0}}
	perm := perms[verifChoose("completion", len(perms))]
	wf := func(k int) string {
		return "on: push\njobs:\n  j" + strconv.Itoa(k) + ":\n    runs-on: ubuntu-latest\n    steps:\n      - run: echo ${{ unknown" + strconv.Itoa(k) + ".x }}\n"
	}
	// two repositories; /r's configuration ignores the diagnostics of its files, /s has none
	// (a.yml, whose only diagnostic is ignored, sits between two files with diagnostics)
	paths := []string{"/r/.github/workflows/c.yml", "/r/.github/workflows/a.yml", "/s/.github/workflows/b.yml"}
	if verifIsNative() {
		verifC02NativeFormat()
		return
	}
	verifC10Files = map[string]string{paths[0]: wf(1), paths[1]: wf(0), paths[2]: wf(2)}
	verifC10Cfg = map[string]*Config{
		"/r": verifConfig("paths:\n  .github/workflows/a.yml:\n    ignore:\n      - undefined variable\n"),
	}
	verifSetCwd("/")
	verifOverride("os.ReadFile", verifC10ReadFile)
	verifOverride("findProject", verifC10FindProject)
	verifOverride("findProjectRoot", verifC10FindProjectRoot)
	verifOverride("loadRepoConfig", verifC10RepoConfig)
	verifOverride("(*ErrorFormatter).Print", verifC02Print)
	alone, aloneStream := "", ""
	for _, p := range paths {
		l := verifLinterFmt("", &ErrorFormatter{rules: map[string]*ruleTemplateFields{}})
		verifC02Stream = ""
		errs, err := l.LintFile(p, nil)
		verifCheck(err == nil, "lint-failed")
		aloneStream += verifC02Stream // what the template printer gets for this file alone (message, position, kind, snippet)
		for _, e := range errs {
			alone += e.Filepath + ":" + strconv.Itoa(e.Line) + ": " + e.Message + "\n"
		}
	}
	run := func(order []int) (string, string) {
		l := verifLinterFmt("", &ErrorFormatter{rules: map[string]*ruleTemplateFields{}})
		verifC02Stream = ""
		verifGoOrder(order)
		errs, err := l.LintFiles(paths, nil)
		verifGoOrder(nil)
		verifCheck(err == nil, "lint-failed")
		ret := ""
		for _, e := range errs {
			ret += e.Filepath + ":" + strconv.Itoa(e.Line) + ": " + e.Message + "\n"
		}
		return verifC02Stream, ret
	}
	s0, r0 := run([]int{0, 1, 2})
	s1, r1 := run(perm)
	// GOMAXPROCS = 1: the same list goes to the printer and comes back
	verifSetGOMAXPROCS(1)
	s2, r2 := run(perm)
	verifSetGOMAXPROCS(0)
	verifCheckf(s0 == s2 && r0 == r2, "result-depends-on-GOMAXPROCS", s2)
	verifReach("compared")
	verifCheckf(len(s0) > 0 && len(r0) > 0, "baseline-lost-its-diagnostics", s0)
	verifCheckf(r0 == alone, "multi-file-result-differs-from-the-files-linted-alone", r0+" <> "+alone)
	verifCheckf(s0 == aloneStream, "formatted-fields-of-a-multi-file-run-differ-from-the-files-formatted-alone", s0+" <> "+aloneStream)
	verifCheckf(s0 == s1, "formatted-output-depends-on-goroutine-completion-order", s1)
	verifCheckf(r0 == r1, "returned-diagnostics-depend-on-goroutine-completion-order", r1)
}

// HarnessC02Testdata: the map-order self-composition on the repository's own
// example workflows (every YAML file under testdata/ok, testdata/err and
// testdata/examples of the current tree, compiled in at run time): chunk c of
// n. For each file and each function that ranges over a map while the file is
// linted, the file is linted again with that function's iterations in symbolic
// order (at most `budget` order decisions per path, the rest in insertion
// order; maps of more than 3 entries in 3 fixed permutations).
func HarnessC02Testdata(c, n, budget int) {
	var mine []int
	for k := c; k < len(verifCorpusFiles); k += n {
		mine = append(mine, k)
	}
	if len(mine) == 0 {
		verifReach("compared")
		return
	}
	src := verifCorpusFiles[mine[verifChoose("file", len(mine))]]
	verifRecordMapRangers(true)
	e0 := verifLintNode(verifParseYAML(src), verifRules())
	verifRecordMapRangers(false)
	fns := verifMapRangers()
	if !verifIsNative() && len(fns) == 0 {
		verifReach("compared")
		return
	}
	fn := "(native: Go's own random iteration order, 20 repetitions)"
	reps := 20
	if !verifIsNative() {
		fn = fns[verifChoose("site", len(fns))]
		reps = 1
	}
	for r := 0; r < reps; r++ {
		verifMapOrderBudget(budget)
		verifMapOrder(true, fn)
		e1 := verifLintNode(verifParseYAML(src), verifRules())
		verifMapOrder(false)
		verifCheckf(verifSameSeq(e0, e1), "output-depends-on-map-iteration-order", fn+": "+verifErrTextConc(e1))
	}
	verifReach("compared")
}

// HarnessC02SharedDefect: two files of one repository use the same local
// action whose metadata file is broken. The defect is reported once per run
// (the action cache is shared); which file carries that report must not
// depend on which per-file goroutine gets to the action first.
func HarnessC02SharedDefect() {
	wf := "on: push\njobs:\n  j:\n    runs-on: ubuntu-latest\n    steps:\n      - uses: ./broken\n"
	paths := []string{"/r/.github/workflows/a.yml", "/r/.github/workflows/b.yml"}
	if verifIsNative() {
		verifReach("compared") // the symbolic counterexample is a whole-goroutine order; natively see verifC02NativeSharedDefect
		verifC02NativeSharedDefect()
		return
	}
	verifC10Files = map[string]string{paths[0]: wf, paths[1]: wf, "/r/broken/action.yml": "name: act\nruns:\n  using: node20\n  main: [\n"}
	verifC10Cfg = map[string]*Config{}
	verifSetCwd("/")
	verifOverride("os.ReadFile", verifC10ReadFile)
	verifOverride("findProject", verifC10FindProject)
	verifOverride("findProjectRoot", verifC10FindProjectRoot)
	verifOverride("loadRepoConfig", verifC10RepoConfig)
	run := func(order []int) string {
		l := verifLinter("", "", "")
		verifGoOrder(order)
		errs, err := l.LintFiles(paths, nil)
		verifGoOrder(nil)
		verifCheck(err == nil, "lint-failed")
		ret := ""
		for _, e := range errs {
			ret += e.Filepath + ":" + strconv.Itoa(e.Line) + ": " + e.Message + "\n"
		}
		return ret
	}
	r0 := run([]int{0, 1})
	r1 := run([]int{1, 0})
	verifReach("compared")
	verifCheckf(len(r0) > 0, "baseline-lost-its-diagnostics", r0)
	verifCheckf(r0 == r1, "shared-defect-reported-by-whichever-file-reaches-it-first", r0+" <> "+r1)
}

// HarnessC02Repeat: repeated executions. One Linter lints the same file twice
// (LintFile, then LintFiles, then LintFile again): every run returns the same
// diagnostics — also those that the shared caches report once per run (a local
// action whose metadata is broken, a reusable workflow that does not exist).
func HarnessC02Repeat() {
	wf := "on: push\njobs:\n  c:\n    uses: ./.github/workflows/missing.yml\n  j:\n    runs-on: ubuntu-latest\n    steps:\n      - uses: ./broken\n      - run: echo ${{ unknown.x }}\n"
	path := "/r/.github/workflows/a.yml"
	if verifIsNative() {
		verifC02NativeRepeat(wf)
		return
	}
	verifC10Files = map[string]string{path: wf, "/r/broken/action.yml": "name: act\nruns:\n  using: node20\n  main: [\n"}
	verifC10Cfg = map[string]*Config{}
	verifSetCwd("/")
	verifOverride("os.ReadFile", verifC10ReadFile)
	verifOverride("findProject", verifC10FindProject)
	verifOverride("findProjectRoot", verifC10FindProjectRoot)
	verifOverride("loadRepoConfig", verifC10RepoConfig)
	l := verifLinter("", "", "")
	digest := func(errs []*Error, err error) string {
		verifCheck(err == nil, "lint-failed")
		out := ""
		for _, e := range errs {
			out += strconv.Itoa(e.Line) + ":" + strconv.Itoa(e.Column) + ": " + e.Message + "\n"
		}
		return out
	}
	r0 := digest(l.LintFile(path, nil))
	r1 := digest(l.LintFiles([]string{path}, nil))
	r2 := digest(l.LintFile(path, nil))
	verifReach("compared")
	verifCheckf(len(r0) > 0, "baseline-lost-its-diagnostics", r0)
	verifCheckf(r0 == r1 && r0 == r2, "result-depends-on-how-many-times-the-run-is-repeated", r0+" <> "+r1+" <> "+r2)
}

// HarnessC02Config: the map-order self-composition with a repository
// configuration whose lists contain duplicates (runner labels, configuration
// variables): messages that list the configured names do not depend on any
// map iteration order.
func HarnessC02Config() {
	cfgText := "self-hosted-runner:\n  labels:\n    - gpu-large\n    - gpu-small\n    - arm64-builder\n    - gpu-large\n    - windows-*\n    - gpu-small\nconfig-variables:\n  - ZETA\n  - ALPHA\n  - ZETA\n  - MID\n"
	src := "on: push\njobs:\n  j:\n    runs-on: gpu-medium\n    steps:\n      - run: echo ${{ vars.NOPE }}\n  k:\n    runs-on: [self-hosted, gpu-tiny]\n    steps:\n      - run: echo ${{ vars.NOPE2 }}\n"
	lint := func() []*Error {
		cfg := verifConfig(cfgText)
		rules := verifRules()
		for _, r := range rules {
			r.SetConfig(cfg)
		}
		return verifLintNode(verifParseYAML(src), rules)
	}
	verifRecordMapRangers(true)
	e0 := lint()
	verifRecordMapRangers(false)
	fns := verifMapRangers()
	verifCheck(len(e0) >= 3, "baseline-lost-its-diagnostics")
	reps := 1
	fn := "(native: Go's own random iteration order, 60 repetitions)"
	if verifIsNative() {
		reps = 60
	} else if len(fns) > 0 {
		fn = fns[verifChoose("site", len(fns))]
	} else {
		verifReach("compared")
		return
	}
	for r := 0; r < reps; r++ {
		verifMapOrder(true, fn)
		e1 := lint()
		verifMapOrder(false)
		verifCheckf(verifSameSeq(e0, e1), "output-depends-on-map-iteration-order", fn+": "+verifErrTextConc(e1))
	}
	verifReach("compared")
}

// HarnessC02ConfigError: a configuration with several invalid glob patterns in
// `paths`: the fatal error names the same pattern whatever order the map of
// path configurations is iterated in.
func HarnessC02ConfigError() {
	src := "paths:\n  \"[b\":\n    ignore: []\n  \"ok/**\":\n    ignore: []\n  \"[a\":\n    ignore: []\n  \"[c\":\n    ignore: []\n"
	_, err0 := ParseConfig([]byte(src))
	verifCheck(err0 != nil, "invalid-glob-pattern-accepted")
	if err0 == nil {
		return
	}
	reps := 1
	if verifIsNative() {
		reps = 100
	}
	for r := 0; r < reps; r++ {
		verifMapOrder(true, "ParseConfig")
		_, err1 := ParseConfig([]byte(src))
		verifMapOrder(false)
		verifCheckf(err1 != nil && err1.Error() == err0.Error(), "output-depends-on-map-iteration-order", err0.Error())
	}
	verifReach("compared")
}

// HarnessC02Nested: a repository nested in another one (vendored), each with
// its own configuration; one Linter lints [inner file, outer file] twice: the
// second run returns what the first one returned, and every file is checked
// with the configuration of the repository that directly contains it.
func HarnessC02Nested() {
	wf := func(label string) string {
		return "on: push\njobs:\n  j:\n    runs-on: [self-hosted, " + label + "]\n    steps:\n      - run: echo\n"
	}
	paths := []string{"/o/v/i/.github/workflows/ci.yml", "/o/.github/workflows/ci.yml"}
	if verifIsNative() {
		verifC02NativeNested()
		return
	}
	verifC10Files = map[string]string{paths[0]: wf("runner-of-inner"), paths[1]: wf("runner-of-outer")}
	verifC10Tree = map[string]int{"/o/.git": 1, "/o/.github/workflows": 1, "/o/v/i/.git": 1, "/o/v/i/.github/workflows": 1}
	verifC10Cfg = map[string]*Config{
		"/o":     verifConfig("self-hosted-runner:\n  labels:\n    - runner-of-outer\n"),
		"/o/v/i": verifConfig("self-hosted-runner:\n  labels:\n    - runner-of-inner\n"),
	}
	verifSetCwd("/")
	verifOverride("os.ReadFile", verifC10ReadFile)
	verifOverride("os.Stat", verifC10StatTree)
	verifOverride("loadRepoConfig", verifC10RepoConfig)
	l := verifLinter("", "", "")
	digest := func(errs []*Error, err error) string {
		verifCheck(err == nil, "lint-failed")
		out := ""
		for _, e := range errs {
			out += e.Filepath + ":" + strconv.Itoa(e.Line) + ": " + e.Message + "\n"
		}
		return out
	}
	r1 := digest(l.LintFiles(paths, nil))
	r2 := digest(l.LintFiles(paths, nil))
	r3 := digest(l.LintFiles([]string{paths[1], paths[0]}, nil))
	verifReach("compared")
	verifCheckf(r1 == "", "file-checked-with-another-repository's-configuration", r1)
	verifCheckf(r1 == r2 && r3 == "", "result-depends-on-how-many-times-the-run-is-repeated", r2+" / "+r3)
	// a fresh Linter that meets the enclosing repository first: the vendored file still belongs to
	// the repository that actually contains it (nearest root), whatever was discovered before it
	r4 := digest(verifLinter("", "", "").LintFiles([]string{paths[1], paths[0]}, nil))
	verifCheckf(r4 == "", "file-of-a-nested-repository-attributed-to-the-enclosing-one", r4)
}
