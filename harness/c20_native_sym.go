//go:build verif && !verif_replay

package actionlint

func verifC20NativeRun(st *verifC20Cmd) ([]byte, error)                                  { return nil, nil }
func verifC20NativeTool(stdout string, exit int) (*externalCommand, func() (int, string)) { return nil, nil }

func verifC20NativeSchedule(fail bool, files int) {}

func verifC10NativeRaces() {}

func verifC20RunKeyNative() {}
