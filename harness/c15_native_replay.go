//go:build verif && verif_replay

package actionlint

import (
	"bytes"
	"io"
	"os"
	"path/filepath"
	"regexp"
	"runtime"
	"strings"
)

func verifC15NativeCwd(cwd, arg string) {
	tmp, err := os.MkdirTemp("", "verif-c15-")
	if err != nil {
		panic(err)
	}
	defer os.RemoveAll(tmp)
	tmp, _ = filepath.EvalSymlinks(tmp)
	must := func(err error) {
		if err != nil {
			panic(err)
		}
	}
	must(os.MkdirAll(filepath.Join(tmp, "r", ".github", "workflows"), 0o755))
	must(os.MkdirAll(filepath.Join(tmp, "r", ".git"), 0o755))
	must(os.MkdirAll(filepath.Join(tmp, "x"), 0o755))
	must(os.WriteFile(filepath.Join(tmp, "r", ".github", "workflows", "w.yml"), []byte("on: push\njobs:\n  a:\n    runs-on: ubuntu-latest\n    steps:\n      - run: echo ${{ unknown.x }}\n"), 0o644))
	must(os.WriteFile(filepath.Join(tmp, "r", ".github", "actionlint.yaml"), []byte("paths:\n  .github/workflows/*.yml:\n    ignore:\n      - undefined variable\n"), 0o644))
	old, _ := os.Getwd()
	defer os.Chdir(old)
	real := filepath.Join(tmp, strings.TrimPrefix(cwd, "/"))
	must(os.Chdir(real))
	if strings.HasPrefix(arg, "/") {
		arg = filepath.Join(tmp, strings.TrimPrefix(arg, "/"))
	}
	l, err := NewLinter(io.Discard, &LinterOptions{})
	must(err)
	errs, err := l.LintFile(arg, nil)
	verifCheck(err == nil, "lint-failed")
	verifReach("linted")
	verifCheckf(len(errs) == 0, "paths-glob-matched-against-cwd-relative-path", cwd+" "+arg)
}

func verifC15NativeCheck(src, pat string, viaConfig bool) {
	tmp, err := os.MkdirTemp("", "verif-c15-")
	if err != nil {
		panic(err)
	}
	defer os.RemoveAll(tmp)
	tmp, _ = filepath.EvalSymlinks(tmp)
	must := func(err error) {
		if err != nil {
			panic(err)
		}
	}
	must(os.MkdirAll(filepath.Join(tmp, "r", ".github", "workflows"), 0o755))
	must(os.MkdirAll(filepath.Join(tmp, "r", ".git"), 0o755))
	must(os.WriteFile(filepath.Join(tmp, "r", ".github", "workflows", "w.yml"), []byte(src), 0o644))
	old, _ := os.Getwd()
	defer os.Chdir(old)
	must(os.Chdir(filepath.Join(tmp, "r")))
	l0, err := NewLinter(io.Discard, &LinterOptions{})
	must(err)
	all, err := l0.LintFile(".github/workflows/w.yml", nil)
	verifCheck(err == nil && len(all) >= 1, "lint-failed")
	opts := &LinterOptions{}
	if viaConfig {
		must(os.WriteFile(filepath.Join(tmp, "r", ".github", "actionlint.yaml"), []byte("paths:\n  .github/workflows/*.yml:\n    ignore:\n      - '"+pat+"'\n"), 0o644))
	} else {
		opts.IgnorePatterns = []string{"(?i)NO SUCH DIAGNOSTIC", pat}
	}
	l, err := NewLinter(io.Discard, opts)
	must(err)
	errs, err := l.LintFile(".github/workflows/w.yml", nil)
	verifCheck(err == nil, "lint-failed")
	verifReach("linted")
	want := 0
	for _, e := range all {
		if !regexp.MustCompile(pat).MatchString(e.Message) {
			want++
		}
	}
	if want < len(all) {
		verifReach("pattern-matches")
	}
	verifCheckf(len(errs) == want, "ignore-pattern-not-applied-to-every-diagnostic", pat)
}

func verifC15NativeMultiRepo(wf string, order, format int) {
	tmp, err := os.MkdirTemp("", "verif-c15m-")
	if err != nil {
		panic(err)
	}
	defer os.RemoveAll(tmp)
	tmp, _ = filepath.EvalSymlinks(tmp)
	must := func(err error) {
		if err != nil {
			panic(err)
		}
	}
	pats := map[string]string{"r": "undefined variable", "s": "is not defined in object type"}
	var paths []string
	for _, r := range []string{"r", "s"} {
		must(os.MkdirAll(filepath.Join(tmp, r, ".github", "workflows"), 0o755))
		must(os.MkdirAll(filepath.Join(tmp, r, ".git"), 0o755))
		must(os.WriteFile(filepath.Join(tmp, r, ".github", "actionlint.yaml"), []byte("paths:\n  .github/workflows/*.yml:\n    ignore:\n      - "+pats[r]+"\n"), 0o644))
		p := filepath.Join(tmp, r, ".github", "workflows", map[string]string{"r": "a.yml", "s": "b.yml"}[r])
		must(os.WriteFile(p, []byte(wf), 0o644))
		paths = append(paths, p)
	}
	old, _ := os.Getwd()
	defer os.Chdir(old)
	must(os.Chdir("/"))
	digest := func(errs []*Error, base string) string {
		out := ""
		for _, e := range errs {
			if filepath.Base(e.Filepath) == base {
				out += e.Message + "\n"
			}
		}
		return out
	}
	single := make([]string, 2)
	for k, p := range paths {
		l, err := NewLinter(io.Discard, &LinterOptions{})
		must(err)
		errs, err := l.LintFile(p, nil)
		verifCheck(err == nil, "lint-failed")
		single[k] = digest(errs, filepath.Base(p))
		verifCheck(len(errs) == 1, "each-repository-ignores-one-of-the-two-diagnostics")
	}
	args := []string{paths[0], paths[1]}
	if order == 1 {
		args = []string{paths[1], paths[0]}
	}
	var buf bytes.Buffer
	opts := &LinterOptions{}
	if format == 1 {
		opts.Format = "{{range $ := .}}{{$.Message}}\n{{end}}"
	}
	// degree of parallelism: with one processor the per-file goroutines run only when the starter blocks
	defer runtime.GOMAXPROCS(runtime.GOMAXPROCS(0))
	for _, procs := range []int{runtime.NumCPU(), 2, 1} {
		runtime.GOMAXPROCS(procs)
		buf.Reset()
		l, err := NewLinter(&buf, opts)
		must(err)
		errs, err := l.LintFiles(args, nil)
		verifCheck(err == nil, "lint-failed")
		for k, p := range paths {
			verifCheckf(digest(errs, filepath.Base(p)) == single[k], "file-filtered-by-another-repository's-configuration", p)
		}
	}
	l, err := NewLinter(&buf, opts)
	must(err)
	buf.Reset()
	errs, err := l.LintFiles(args, nil)
	verifCheck(err == nil, "lint-failed")
	verifReach("linted")
	if format == 1 {
		verifCheck(strings.Count(buf.String(), "\n") == len(errs), "formatted-output-and-returned-diagnostics-differ")
	}
	for k, p := range paths {
		verifCheckf(digest(errs, filepath.Base(p)) == single[k], "file-filtered-by-another-repository's-configuration", p)
	}
}
