//go:build verif

package actionlint

import (
	"sort"
	"strings"

	"gopkg.in/yaml.v3"
)

// C14 — calls are checked exactly against the callee's declared interface.

func verifLower(tag string) string {
	s := verifSymString(tag, 1)
	verifAssumeNote(verifAnd('a' <= s[0], s[0] <= 'z'), "C14: interface and call-site names are single lower-case letters (case folding is C08's subject)")
	return s
}

// HarnessC14Action: RuleAction.checkAction on a symbolic interface (up to 3
// inputs with symbolic names and required flags) and a symbolic call site (up
// to 3 supplied keys).
func HarnessC14Action(max int) {
	nd := verifChoose("declared", max+1)
	ns := verifChoose("supplied", max+1)
	meta := &ActionMetadata{Name: "act", Inputs: ActionMetadataInputs{}}
	dn := make([]string, nd)
	req := make([]bool, nd)
	for i := 0; i < nd; i++ {
		dn[i] = verifLower("d" + string(rune('0'+i)))
		for j := 0; j < i; j++ {
			verifAssume(dn[i] != dn[j])
		}
		req[i] = verifSymBool("req" + string(rune('0'+i)))
		meta.Inputs[dn[i]] = &ActionMetadataInput{Name: dn[i], Required: req[i]}
	}
	exec := &ExecAction{Uses: &String{"./act", false, &Pos{1, 1}}, Inputs: map[string]*Input{}}
	sn := make([]string, ns)
	for i := 0; i < ns; i++ {
		sn[i] = verifLower("s" + string(rune('0'+i)))
		for j := 0; j < i; j++ {
			verifAssume(sn[i] != sn[j])
		}
		exec.Inputs[sn[i]] = &Input{Name: &String{sn[i], false, &Pos{10 + i, 1}}, Value: &String{"v", false, &Pos{10 + i, 5}}}
	}
	rule := NewRuleAction(NewLocalActionsCache(nil, nil))
	verifFreeze("action metadata", meta)
	rule.checkAction(meta, exec, func(m *ActionMetadata) string { return "x" })
	errs := rule.Errs()
	verifReach("checked")
	// undeclared supplied keys: one diagnostic at the key
	extra := 0
	for i := 0; i < ns; i++ {
		declared := false
		for j := 0; j < nd; j++ {
			declared = verifOr(declared, sn[i] == dn[j])
		}
		at := 0
		for _, e := range errs {
			if e.Line == 10+i {
				at++
			}
		}
		if at >= 1 {
			verifCheck(verifNot(declared), "declared-input-reported-as-undefined")
			extra++
		} else {
			verifCheck(declared, "undeclared-input-not-reported")
		}
	}
	// required and not supplied: one diagnostic at uses
	atUses := 0
	for _, e := range errs {
		if e.Line == 1 {
			atUses++
		}
	}
	missing := 0
	for j := 0; j < nd; j++ {
		supplied := false
		for i := 0; i < ns; i++ {
			supplied = verifOr(supplied, sn[i] == dn[j])
		}
		missing = verifIteInt(verifAnd(req[j], verifNot(supplied)), missing+1, missing)
	}
	verifCheck(atUses == missing, "required-inputs-reported-differ-from-missing-ones")
}

var verifPopularSpecs []string

func verifAllPopularSpecs() []string {
	if verifPopularSpecs == nil {
		for k := range PopularActions {
			verifPopularSpecs = append(verifPopularSpecs, k)
		}
		sort.Strings(verifPopularSpecs)
	}
	return verifPopularSpecs
}

// HarnessC14Popular: every bundled action spec with a `with:` key that is a
// fully symbolic string (length chosen up to the longest declared name + 1):
// reported iff the action does not declare it (after ASCII folding), unless the
// spec skips input checks; required inputs are reported iff absent.
func HarnessC14Popular(from, to int) {
	specs := verifAllPopularSpecs()
	if to > len(specs) {
		to = len(specs)
	}
	if from >= to {
		return
	}
	spec := specs[from+verifChoose("spec", to-from)]
	meta := PopularActions[spec]
	maxLen := 1
	for id := range meta.Inputs {
		if len(id) > maxLen {
			maxLen = len(id)
		}
	}
	klen := 1 + verifChoose("klen", maxLen+1)
	K := verifSymString("key", klen)
	s := yScalar
	kn := s(K)
	doc := yDoc(yMap(s("on"), s("push"), s("jobs"), yMap(s("j"), yMap(s("runs-on"), s("ubuntu-latest"), s("steps"), ySeq(
		yMap(s("uses"), s(spec), s("with"), yMap(kn, s("v"))))))))
	verifPlace(doc, 1, 0)
	errs := verifLintNode(doc, []Rule{NewRuleAction(NewLocalActionsCache(nil, nil))})
	at := verifErrAt(errs, kn)
	declared := false
	nreq := 0
	for id, in := range meta.Inputs {
		if len(id) == klen {
			declared = verifOr(declared, verifFoldEq(K, id))
		}
		if in.Required {
			nreq++
		}
	}
	verifReach("checked")
	if meta.SkipInputs {
		verifReach("skip-inputs")
		verifCheck(len(errs) == 0, "spec-with-skipped-inputs-reported")
		return
	}
	// `entrypoint` and `args` are keys of the workflow syntax itself (Docker actions), not action inputs
	if klen == len("entrypoint") {
		declared = verifOr(declared, verifFoldEq(K, "entrypoint"))
	}
	if klen == len("args") {
		declared = verifOr(declared, verifFoldEq(K, "args"))
	}
	if at >= 1 {
		verifReach("reported")
		verifCheck(verifNot(declared), "declared-input-of-bundled-action-reported")
	} else {
		verifReach("accepted")
		verifCheck(declared, "undeclared-input-of-bundled-action-accepted")
	}
	// required inputs: all missing except possibly K itself
	missing := 0
	for _, e := range errs {
		if strings.Contains(e.Message, "missing input") {
			missing++
		}
	}
	suppliedRequired := false
	for id, in := range meta.Inputs {
		if in.Required && len(id) == klen {
			suppliedRequired = verifOr(suppliedRequired, verifFoldEq(K, id))
		}
	}
	verifCheck(missing == verifIteInt(suppliedRequired, nreq-1, nreq), "missing-required-inputs-of-bundled-action-differ")
}

// HarnessC14Outputs: steps.<id>.outputs.<X> for a bundled action, X symbolic:
// reported iff the spec does not declare the output (unless it sets outputs
// dynamically); unknown actions and github-script accept anything.
func HarnessC14Outputs(from, to int) {
	specs := append([]string{"actions/github-script@v7", "someone/unknown-action@v1"}, verifAllPopularSpecs()...)
	if to > len(specs) {
		to = len(specs)
	}
	if from >= to {
		return
	}
	spec := specs[from+verifChoose("spec", to-from)]
	meta, known := PopularActions[spec]
	maxLen := 1
	if known {
		for id := range meta.Outputs {
			if len(id) > maxLen {
				maxLen = len(id)
			}
		}
	}
	klen := 1 + verifChoose("klen", maxLen+1)
	X := verifSymString("out", klen)
	for i := 0; i < klen; i++ {
		c := X[i]
		// lower-case letters, plus whatever a declared output of this length has at this position
		ok := verifAnd('a' <= c, c <= 'z')
		if known {
			for id := range meta.Outputs {
				if len(id) == klen {
					ok = verifOr(ok, c == id[i])
				}
			}
		}
		verifAssumeNote(ok, "C14 outputs: the referenced name consists of lower-case letters or coincides position-wise with a declared output")
	}
	s := yScalar
	ref := s("echo ${{ steps.s1.outputs." + X + " }}")
	var with *yaml.Node
	if known {
		// supply the required inputs so that only the output reference matters
		var kv []*yaml.Node
		for id, in := range meta.Inputs {
			if in.Required {
				kv = append(kv, s(id), s("v"))
			}
		}
		if len(kv) > 0 {
			with = yMap(kv...)
		}
	}
	step := []*yaml.Node{s("id"), s("s1"), s("uses"), s(spec)}
	if with != nil {
		step = append(step, s("with"), with)
	}
	doc := yDoc(yMap(s("on"), s("push"), s("jobs"), yMap(s("j"), yMap(s("runs-on"), s("ubuntu-latest"), s("steps"), ySeq(
		yMap(step...), yMap(s("run"), ref))))))
	verifPlace(doc, 1, 0)
	errs := verifLintNode(doc, verifExprRuleOnly())
	got := verifUndefinedAt(errs, ref)
	dynamic := !known || meta.SkipOutputs || strings.HasPrefix(spec, "actions/github-script@")
	declared := false
	if known {
		for id := range meta.Outputs {
			if len(id) == klen {
				declared = verifOr(declared, verifFoldEq(X, id))
			}
		}
	}
	verifReach("checked")
	if dynamic {
		verifReach("dynamic")
		verifCheck(got == 0, "output-of-action-with-dynamic-outputs-reported")
		return
	}
	if got >= 1 {
		verifReach("reported")
		verifCheck(verifNot(declared), "declared-output-reported-as-undefined")
	} else {
		verifReach("accepted")
		verifCheck(declared, "undeclared-output-accepted")
	}
}

// HarnessC14WorkflowCall: a job calling a local reusable workflow whose
// interface is in the cache: with: / secrets: keys and required ones, typed
// inputs, secrets: inherit.
func HarnessC14WorkflowCall() {
	D := verifLower("declared")
	S := verifLower("supplied")
	DS := verifLower("declsecret")
	SS := verifLower("supsecret")
	req := verifSymBool("required")
	sreq := verifSymBool("secretrequired")
	inherit := verifChoose("inherit", 2) == 1
	supply := verifChoose("supply", 2) == 1
	tyk := verifChoose("type", 4)
	vk := verifChoose("value", 8)
	var ty ExprType = []ExprType{StringType{}, NumberType{}, BoolType{}, AnyType{}}[tyk]
	// 5, 6: one placeholder with text around it is a string whatever the placeholder's type; 7: a number
	val := []string{"abc", "12", "true", "null", "${{ 1 == 1 }}", "${{ 10 }}px", "on=${{ true }}", "${{ 10 }}"}[vk]
	proj := &Project{root: "/r"}
	cache := NewLocalReusableWorkflowCache(proj, "/r", nil)
	cache.cache["./.github/workflows/callee.yml"] = &ReusableWorkflowMetadata{
		Inputs:  ReusableWorkflowMetadataInputs{D: {Name: D, Required: req, Type: ty}},
		Secrets: ReusableWorkflowMetadataSecrets{DS: {Name: DS, Required: sreq}},
		Outputs: ReusableWorkflowMetadataOutputs{},
	}
	s := yScalar
	job := []*yaml.Node{s("uses"), s("./.github/workflows/callee.yml")}
	var kn, vn, skn *yaml.Node
	if supply {
		kn, vn = s(S), yTagged("!!str", val)
		job = append(job, s("with"), yMap(kn, vn))
	}
	if inherit {
		job = append(job, s("secrets"), s("inherit"))
	} else if supply {
		skn = s(SS)
		job = append(job, s("secrets"), yMap(skn, s("v")))
	}
	doc := yDoc(yMap(s("on"), s("push"), s("jobs"), yMap(s("j"), yMap(job...))))
	verifPlace(doc, 1, 0)
	la := NewLocalActionsCache(nil, nil)
	// the callee's interface is shared by every call of the run: checking a call must not write to it
	verifFreeze("callee interface in the cache", cache.cache["./.github/workflows/callee.yml"])
	errs := verifLintNode(doc, []Rule{NewRuleWorkflowCall("/r/.github/workflows/w.yml", cache), NewRuleExpression(la, cache)})
	verifReach("checked")
	nInputMissing, nSecretMissing := 0, 0
	for _, e := range errs {
		if strings.Contains(e.Message, "is required by") {
			if strings.Contains(e.Message, "input ") {
				nInputMissing++
			} else {
				nSecretMissing++
			}
		}
	}
	inputSupplied := false
	if supply {
		inputSupplied = S == D
		verifCheck(verifIff(verifErrAt(errs, kn) >= 1, S != D), "with-key-report-differs-from-undeclared")
		// typed value
		assignable := true
		switch tyk {
		case 0: // string accepts string and number literals
			assignable = vk == 0 || vk == 1 || vk >= 5
		case 1:
			assignable = vk == 1 || vk == 7
		case 2:
			assignable = true // anything converts to bool
		}
		typed := 0
		for _, e := range errs {
			if e.Line == vn.Line && strings.Contains(e.Message, "cannot be assigned") {
				typed++
			}
		}
		if S == D {
			verifReach("typed")
			verifCheck((typed >= 1) == !assignable, "typed-input-report-differs-from-assignability")
		}
	}
	verifCheck(nInputMissing == verifIteInt(verifAnd(req, verifNot(inputSupplied)), 1, 0), "required-input-report-differs")
	if inherit {
		verifReach("inherit")
		verifCheck(nSecretMissing == 0, "required-secret-reported-with-inherit")
	} else {
		secretSupplied := false
		if supply {
			secretSupplied = SS == DS
			verifCheck(verifIff(verifErrAt(errs, skn) >= 1, SS != DS), "secrets-key-report-differs-from-undeclared")
		}
		verifCheck(nSecretMissing == verifIteInt(verifAnd(sreq, verifNot(secretSupplied)), 1, 0), "required-secret-report-differs")
	}
}

// HarnessC14CallOutputs: needs.<job>.outputs.<X> for a job that calls a local
// reusable workflow declaring 0, 1 or 2 outputs (symbolic letters): reported
// iff X is not declared — also when nothing is declared.
func HarnessC14CallOutputs() {
	n := verifChoose("declared", 3)
	X := verifLetter("ref")
	outs := ReusableWorkflowMetadataOutputs{}
	var names []string
	for k := 0; k < n; k++ {
		o := verifLower("out" + string(rune('0'+k)))
		for _, p := range names {
			verifAssume(o != p)
		}
		names = append(names, o)
		outs[o] = &ReusableWorkflowMetadataOutput{Name: o}
	}
	proj := &Project{root: "/r"}
	cache := NewLocalReusableWorkflowCache(proj, "/r", nil)
	cache.cache["./.github/workflows/callee.yml"] = &ReusableWorkflowMetadata{
		Inputs: ReusableWorkflowMetadataInputs{}, Secrets: ReusableWorkflowMetadataSecrets{}, Outputs: outs,
	}
	s := yScalar
	// the reference alone or as the condition of the `cond && x || y` idiom
	ref := s("echo ${{ needs.j.outputs." + X + " }}")
	if verifChoose("idiom", 2) == 1 {
		ref = s("echo ${{ needs.j.outputs." + X + " && 'hit' || 'miss' }}")
	}
	doc := yDoc(yMap(s("on"), s("push"), s("jobs"), yMap(
		s("j"), yMap(s("uses"), s("./.github/workflows/callee.yml")),
		s("k"), verifC14Reader(ref),
	)))
	verifPlace(doc, 1, 0)
	la := NewLocalActionsCache(nil, nil)
	errs := verifLintNode(doc, []Rule{NewRuleWorkflowCall("/r/.github/workflows/w.yml", cache), NewRuleExpression(la, cache)})
	got := verifUndefinedAt(errs, ref)
	declared := false
	for _, o := range names {
		declared = verifOr(declared, verifFoldEq(X, o))
	}
	if got >= 1 {
		verifReach("reported")
		verifCheck(verifNot(declared), "declared-output-reported-as-undefined")
	} else {
		verifReach("accepted")
		verifCheck(declared, "undeclared-output-accepted")
	}
}

// verifC14Reader: a job that needs j and holds the reference in a step, in its outputs or in environment.url.
func verifC14Reader(ref *yaml.Node) *yaml.Node {
	s := yScalar
	kv := []*yaml.Node{s("needs"), ySeq(s("j")), s("runs-on"), s("ubuntu-latest")}
	switch verifChoose("where", 3) {
	case 0:
		kv = append(kv, s("steps"), ySeq(yMap(s("run"), ref)))
	case 1:
		kv = append(kv, s("steps"), ySeq(yMap(s("run"), s("echo"))), s("outputs"), yMap(s("o"), ref))
	default:
		kv = append(kv, s("steps"), ySeq(yMap(s("run"), s("echo"))), s("environment"), yMap(s("name"), s("e"), s("url"), ref))
	}
	return yMap(kv...)
}
