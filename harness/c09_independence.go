//go:build verif

package actionlint

import (
	"sort"
	"strings"

	"gopkg.in/yaml.v3"
)

// C09 — jobs, steps and expressions are checked independently.

var verifC09Bases = []string{"matrix", "matrix.rows", "matrix.objs", "matrix.filtered", "steps", "steps.s1.outputs", "needs", "needs.j0.outputs", "github.event", "env", "inputs", "secrets", "job.services"}
var verifC09Segs = []string{"", ".x", ".*", "[0]", "['x']", ".rows"}

func verifC09Expr(tag string, depth int) string {
	e := verifC09Bases[verifChoose(tag+"base", len(verifC09Bases))]
	for i := 0; i < depth; i++ {
		e += verifC09Segs[verifChoose(tag+"seg"+string(rune('0'+i)), len(verifC09Segs))]
	}
	return e
}

// verifC09Job: one job with a matrix of scalar, array and object rows, an
// earlier step with id s1, and two run steps holding the expressions.
func verifC09Workflow(e1, e2 string) (*yaml.Node, *yaml.Node, *yaml.Node) {
	s := yScalar
	first, second := s("echo ${{ "+e1+" }}"), s("echo ${{ "+e2+" }}")
	j1 := yMap(
		s("needs"), ySeq(s("j0")),
		s("runs-on"), s("ubuntu-latest"),
		s("strategy"), yMap(s("matrix"), yMap(
			s("x"), ySeq(yTagged("!!int", "1")),
			s("rows"), ySeq(ySeq(yMap(s("x"), yMap(s("y"), yTagged("!!int", "1")))), ySeq(yMap(s("x"), yMap(s("y"), yTagged("!!int", "2"))))),
			s("objs"), ySeq(yMap(s("x"), yMap(s("y"), yTagged("!!int", "1")))),
			// a value produced by an object filter: its type (an array made by `.*`) is stored in the matrix type
			s("filtered"), ySeq(s("${{ fromJSON('[{\"x\":{\"y\":1}}]').* }}")),
		)),
		s("steps"), ySeq(
			yMap(s("id"), s("s1"), s("run"), s("echo")),
			yMap(s("run"), first),
			yMap(s("run"), second),
		),
	)
	j0 := yMap(s("runs-on"), s("ubuntu-latest"), s("outputs"), yMap(s("x"), s("v")), s("steps"), ySeq(yMap(s("run"), s("echo"))))
	doc := yDoc(yMap(s("on"), s("push"), s("jobs"), yMap(s("j0"), j0, s("j1"), j1)))
	return doc, first, second
}

func verifExprRuleOnly() []Rule {
	return []Rule{NewRuleExpression(NewLocalActionsCache(nil, nil), NewLocalReusableWorkflowCache(nil, "/", nil))}
}

func verifErrsOnLine(errs []*Error, line int) []*Error {
	var out []*Error
	for _, e := range errs {
		if e.Line == line {
			out = append(out, e)
		}
	}
	return out
}

func verifSameDiag(x, y []*Error) bool {
	if len(x) != len(y) {
		return false
	}
	for i := range x {
		if x[i].Column != y[i].Column || x[i].Kind != y[i].Kind || x[i].Message != y[i].Message {
			return false
		}
	}
	return true
}

// HarnessC09Exprs: the diagnostics of the second expression must not depend on
// which expression was checked before it (same job, same scope types): every
// pair of access chains over the scope contexts with .x / .* / [0] / ['x']
// segments is compared with the run in which the first one is trivial.
func HarnessC09Exprs(depth1, depth2 int) {
	e1 := verifC09Expr("a", depth1)
	e2 := verifC09Expr("b", depth2)
	d1, _, sec1 := verifC09Workflow(e1, e2)
	verifPlace(d1, 1, 0)
	with := verifErrsOnLine(verifLintNode(d1, verifExprRuleOnly()), sec1.Line)
	d2, _, sec2 := verifC09Workflow("1", e2)
	verifPlace(d2, 1, 0)
	alone := verifErrsOnLine(verifLintNode(d2, verifExprRuleOnly()), sec2.Line)
	verifReach("compared")
	verifCheckf(verifSameDiag(with, alone), "earlier-expression-changes-later-diagnostics", e1+" ; "+e2)
}

// ---- job composition ----

var verifC09Jobs = []string{
	`
    runs-on: ubuntu-latest
    steps:
      - run: echo ${{ matrix.os }}
`, `
    runs-on: ${{ matrix.os }}
    strategy:
      matrix:
        os: [ubuntu-latest, windows-latest]
    steps:
      - id: s1
        run: echo ${{ matrix.os }} ${{ matrix.nope }}
      - run: echo ${{ steps.s1.outputs.x }} ${{ steps.s2.outputs.x }}
`, `
    runs-on: windows-latest
    defaults:
      run:
        shell: python
    steps:
      - run: print(1)
      - run: echo
        shell: bash
`, `
    runs-on: ubuntu-latest
    steps:
      - run: echo
        shell: pwsh
      - id: dup
        run: echo
      - id: DUP
        run: echo
`, `
    runs-on: [self-hosted, linux, windows-latest]
    container:
      image: ${{ matrix.img }}
    services:
      db:
        image: postgres
    steps:
      - run: echo ${{ job.services.db.id }} ${{ job.services.nope.id }}
`, `
    runs-on: macos-latest
    env:
      FOO: ${{ env.BAR }}
    steps:
      - run: echo ${{ needs.x.outputs.y }}
      - uses: actions/checkout@v4
        with:
          nope: 1
`, `
    runs-on: ubuntu-latest
    timeout-minutes: ${{ steps.x.outputs.y }}
    steps:
      - run: echo
        shell: cmd
      - run: echo ${{ unknown.ctx }}
`, `
    strategy:
      matrix:
        os: [a, b]
        ver: [1, 2]
    uses: owner/repo/.github/workflows/w.yml@main
    with:
      os: ${{ matrix.os }}
`, `
    runs-on: ubuntu-latest
    strategy:
      matrix:
        include:
          - ${{ inputs }}
          - extra: foo
          - ${{ github.event }}
          - more: bar
    steps:
      - run: echo ${{ matrix.extra }} ${{ matrix.target }}
`, `
    runs-on: ubuntu-latest
    steps:
      - run: echo ${{ inputs.extra }} ${{ inputs.target }} ${{ github.event.more }} ${{ matrix.ver }} ${{ needs.x }} ${{ steps.s1 }}
`, `
    runs-on: ubuntu-latest
    needs: []
    strategy:
      matrix: ${{ fromJSON(inputs.target) }}
    env:
      A: ${{ matrix.anything }}
    steps:
      - id: s1
        uses: actions/cache@v4
        with:
          path: x
          key: y
      - run: echo ${{ steps.s1.outputs.cache-hit }} ${{ steps.s1.outputs.nope }}
`, `
    runs-on: ubuntu-latest
    needs: [missing_one]
    steps:
      - run: echo ${{ needs.missing_one.outputs.x }}
`, `
    runs-on: ubuntu-latest
    needs: [missing_two, MISSING_THREE]
    steps:
      - run: echo
`, `
    runs-on: windows-latest
    steps:
      - run: echo
        shell: pwsh
`, `
    steps:
      - run: echo
        shell: sh
      - run: echo
        shell: cmd
`, `
    runs-on: [self-hosted, macos-latest]
    steps:
      - run: echo
        shell: bash
`, `
    runs-on: ${{ matrix.os }}
    strategy:
      matrix:
        os: [ubuntu-latest, windows-latest]
    steps:
      - run: echo
`,
}

func verifC09Doc(ids []string, bodies []int) string {
	src := "on:\n  push:\n  workflow_dispatch:\n    inputs:\n      target:\n        type: string\njobs:\n"
	for i, b := range bodies {
		src += "  " + ids[i] + ":" + verifC09Jobs[b]
	}
	return src
}

// verifNormMsg removes absolute line numbers ("line:17") from a message.
func verifNormMsg(s string) string {
	out := make([]byte, 0, len(s))
	for i := 0; i < len(s); i++ {
		out = append(out, s[i])
		if i >= 4 && s[i-4:i+1] == "line:" {
			for i+1 < len(s) && s[i+1] >= '0' && s[i+1] <= '9' {
				i++
			}
			out = append(out, 'N')
		}
	}
	return string(out)
}

func verifCountLines(s string) int {
	n := 0
	for i := 0; i < len(s); i++ {
		if s[i] == '\n' {
			n++
		}
	}
	return n
}

// HarnessC09Jobs: lint([A, B]) restricted to B equals lint([B]) shifted by A's
// length, for every ordered pair of job variants and every iteration order of
// the job map.
func HarnessC09Jobs() {
	a := verifChoose("jobA", len(verifC09Jobs))
	b := verifChoose("jobB", len(verifC09Jobs))
	both := verifParseYAML(verifC09Doc([]string{"ja", "jb"}, []int{a, b}))
	alone := verifParseYAML(verifC09Doc([]string{"jb"}, []int{b}))
	shift := verifCountLines("  ja:" + verifC09Jobs[a])
	verifMapOrder(true, "Visit")
	e2 := verifLintNode(both, verifRules())
	verifMapOrder(false)
	e1 := verifLintNode(alone, verifRules())
	var got []*Error
	for _, e := range e2 {
		if e.Line > 7+shift {
			c := *e
			c.Line -= shift
			got = append(got, &c)
		}
	}
	verifReach("compared")
	ok := len(got) == len(e1)
	if ok {
		for i := range got {
			if got[i].Line != e1[i].Line || got[i].Column != e1[i].Column || got[i].Kind != e1[i].Kind || verifNormMsg(got[i].Message) != verifNormMsg(e1[i].Message) {
				ok = false
			}
		}
	}
	verifCheckf(ok, "job-diagnostics-depend-on-other-job", verifErrTextConc(got)+" <> "+verifErrTextConc(e1))
}

// HarnessC09Frozen: while one expression of a step is checked, nothing that
// existed before may be written: neither the job's scope types held by the
// rule (matrix / steps / needs object types, shared by all expressions of the
// job) nor the built-in context and function tables. The last property name of
// the chain is a symbolic letter.
func HarnessC09Frozen(depth int) {
	e := verifC09Expr("a", depth)
	p := verifSymString("prop", 1)
	verifAssumeNote(verifAnd('a' <= p[0], p[0] <= 'z'), "C09: the trailing property name is one lower-case letter")
	doc, first, _ := verifC09Workflow(e+"."+p, "1")
	verifPlace(doc, 1, 0)
	w, perrs := verifParseOnly(doc)
	verifCheck(len(perrs) == 0, "workflow-does-not-parse")
	rule := NewRuleExpression(NewLocalActionsCache(nil, nil), NewLocalReusableWorkflowCache(nil, "/", nil))
	rule.VisitWorkflowPre(w)
	j0, j1 := w.Jobs["j0"], w.Jobs["j1"]
	rule.VisitJobPre(j0)
	for _, s := range j0.Steps {
		rule.VisitStep(s)
	}
	rule.VisitJobPost(j0)
	rule.VisitJobPre(j1)
	rule.VisitStep(j1.Steps[0])
	verifFreeze("RuleExpression.matrixTy", rule.matrixTy)
	verifFreeze("RuleExpression.stepsTy", rule.stepsTy)
	verifFreeze("RuleExpression.needsTy", rule.needsTy)
	verifMonitorGlobals(true)
	rule.VisitStep(j1.Steps[1])
	verifMonitorGlobals(false)
	verifReach("checked")
	_ = first
}

// HarnessC09FrozenJobs: the workflow-level scope types of the expression rule
// (inputs, dispatch inputs, secrets, jobs) and all built-in tables are frozen
// after the workflow header has been visited; visiting any job variant must not
// write to them.
func HarnessC09FrozenJobs() {
	a := verifChoose("job", len(verifC09Jobs))
	doc := verifParseYAML(verifC09Doc([]string{"ja"}, []int{a}))
	w, _ := verifParseOnly(doc)
	rule := NewRuleExpression(NewLocalActionsCache(nil, nil), NewLocalReusableWorkflowCache(nil, "/", nil))
	rule.VisitWorkflowPre(w)
	verifFreeze("RuleExpression.inputsTy", rule.inputsTy)
	verifFreeze("RuleExpression.dispatchInputsTy", rule.dispatchInputsTy)
	verifFreeze("RuleExpression.secretsTy", rule.secretsTy)
	verifFreeze("RuleExpression.jobsTy", rule.jobsTy)
	verifMonitorGlobals(true)
	for _, j := range w.Jobs {
		rule.VisitJobPre(j)
		for _, s := range j.Steps {
			rule.VisitStep(s)
		}
		rule.VisitJobPost(j)
		verifCheck(rule.matrixTy == nil && rule.stepsTy == nil && rule.needsTy == nil, "per-job-scope-not-reset-after-job")
	}
	verifMonitorGlobals(false)
	verifReach("visited")
}

// HarnessC09Calls: jobs that call a local reusable workflow share the
// project's metadata cache. A job with an invalid call of the same file (a
// ref after a local path, an empty ref, another file) placed before, between
// or after two unrelated jobs (a valid call with an undeclared input; a job
// reading an undeclared output of that call) must not change the diagnostics
// of those two jobs.
func HarnessC09Calls() {
	bad := []string{"./.github/workflows/callee.yml@main", "./.github/workflows/callee.yml@", "./.github/workflows/other.yml@v1", "./.github/workflows/callee.yml"}[verifChoose("bad", 4)]
	pos := verifChoose("position", 3)
	mk := func(withBad bool) ([]*Error, int) {
		proj := &Project{root: "/r"}
		cache := NewLocalReusableWorkflowCache(proj, "/r", nil)
		cache.cache["./.github/workflows/callee.yml"] = &ReusableWorkflowMetadata{
			Inputs:  ReusableWorkflowMetadataInputs{"name": {Name: "name", Type: StringType{}}},
			Secrets: ReusableWorkflowMetadataSecrets{},
			Outputs: ReusableWorkflowMetadataOutputs{"out1": {Name: "out1"}},
		}
		jobs := []string{
			"  good:\n    uses: ./.github/workflows/callee.yml\n    with:\n      name: foo\n      unknown_input: 42\n",
			"  after:\n    needs: [good]\n    runs-on: ubuntu-latest\n    steps:\n      - run: echo ${{ needs.good.outputs.no_such_output }}\n",
		}
		badJob := "  bad:\n    uses: " + bad + "\n"
		src := "on: push\njobs:\n"
		shiftAt := 0
		for k := 0; k <= 2; k++ {
			if withBad && k == pos {
				shiftAt = verifCountLines(src)
				src += badJob
			}
			if k < 2 {
				src += jobs[k]
			}
		}
		la := NewLocalActionsCache(proj, nil)
		errs := verifLintNode(verifParseYAML(src), []Rule{NewRuleWorkflowCall("/r/.github/workflows/w.yml", cache), NewRuleExpression(la, cache), NewRuleJobNeeds()})
		return errs, shiftAt
	}
	e1, _ := mk(false)
	e2, at := mk(true)
	var got []*Error
	for _, e := range e2 {
		switch {
		case e.Line <= at:
			got = append(got, e)
		case e.Line > at+2:
			c := *e
			c.Line -= 2
			got = append(got, &c)
		}
	}
	verifReach("compared")
	verifCheckf(len(e1) == 2, "baseline-lost-its-diagnostics", verifErrTextConc(e1))
	ok := len(got) == len(e1)
	if ok {
		for i := range got {
			if got[i].Line != e1[i].Line || got[i].Column != e1[i].Column || got[i].Kind != e1[i].Kind || verifNormMsg(got[i].Message) != verifNormMsg(e1[i].Message) {
				ok = false
			}
		}
	}
	verifCheckf(ok, "job-diagnostics-depend-on-other-job", verifErrTextConc(got)+" <> "+verifErrTextConc(e1))
}

// HarnessC09OddKey: an entry whose key is the empty string or not a scalar at
// all (a sequence used as a complex key) is reported and skipped; the entries
// after it in the same mapping — another job, another step input, another
// environment variable, another matrix row — are checked exactly as without it.
func HarnessC09OddKey() {
	s := yScalar
	odd := func() *yaml.Node {
		if verifChoose("key", 2) == 1 {
			return ySeq(s("x"), s("y"))
		}
		return s("")
	}
	where := verifChoose("where", 4)
	// the odd entry is placed in exactly one mapping: rebuild with a selector
	build := func(withOdd bool) *yaml.Node {
		put := func(sel int, kv []*yaml.Node, val *yaml.Node) []*yaml.Node {
			if withOdd && where == sel {
				return append([]*yaml.Node{odd(), val}, kv...)
			}
			return kv
		}
		victim := yMap(s("runs-on"), s("ubuntu-latest"), s("steps"), ySeq(
			yMap(s("run"), s("echo ${{ matrix.os }}"), s("shell"), s("fish")),
			yMap(s("uses"), s("actions/checkout@v4"), s("with"), yMap(put(1, []*yaml.Node{s("no-such-input"), s("1")}, s("v"))...)),
			yMap(s("run"), s("echo"), s("env"), yMap(put(2, []*yaml.Node{s("A"), s("${{ unknown.x }}")}, s("v"))...)),
		), s("strategy"), yMap(s("matrix"), yMap(put(3, []*yaml.Node{s("row"), ySeq(s("a"), s("a"))}, ySeq(s("q")))...)))
		jobs := put(0, []*yaml.Node{s("victim"), victim}, yMap(s("runs-on"), s("ubuntu-latest"), s("steps"), ySeq(yMap(s("id"), s("s1"), s("run"), s("echo")), yMap(s("id"), s("s2"), s("uses"), s("actions/checkout@v4")))))
		return yDoc(yMap(s("on"), s("push"), s("jobs"), yMap(jobs...)))
	}
	kinds := func(errs []*Error) string {
		out := ""
		for _, e := range errs {
			if strings.Contains(e.Message, "no-such-input") || strings.Contains(e.Message, "fish") || strings.Contains(e.Message, "unknown") || strings.Contains(e.Message, "duplicate") || strings.Contains(e.Message, "\"os\"") {
				out += e.Kind + ";"
			}
		}
		return out
	}
	d0 := build(false)
	verifPlace(d0, 1, 0)
	e0 := verifLintNode(d0, verifRules())
	d1 := build(true)
	verifPlace(d1, 1, 0)
	e1 := verifLintNode(d1, verifRules())
	verifReach("compared")
	verifCheckf(len(kinds(e0)) > 0, "baseline-lost-its-diagnostics", verifErrTextConc(e0))
	verifCheckf(kinds(e0) == kinds(e1), "job-diagnostics-depend-on-other-job", verifErrTextConc(e1))
}

// HarnessC09RuleIsolation: the rules share the syntax tree and nothing else:
// linting with all rules gives exactly the diagnostics of the rules run one at
// a time, each on a freshly parsed tree (concatenated in rule order and sorted
// by position the way the linter does). Workflows: the C02 corpus and every
// C09 job variant, the full skeleton, and the skeleton with each scalar made a
// quoted placeholder holding an undefined variable.
func HarnessC09RuleIsolation() {
	var src string
	var mk func() *yaml.Node
	k := verifChoose("workflow", len(verifC02Corpus)+len(verifC09Jobs)+1)
	switch {
	case k < len(verifC02Corpus):
		src = verifC02Corpus[k]
	case k < len(verifC02Corpus)+len(verifC09Jobs):
		src = verifC09Doc([]string{"ja"}, []int{k - len(verifC02Corpus)})
	default:
		site := verifChoose("scalar", 200)
		mk = func() *yaml.Node {
			doc, sites := verifSkeletonSitesOf(verifSkeletonFull)
			if site < len(sites.scalars) {
				n := sites.scalars[site].node
				n.Tag, n.Style, n.Value = "!!str", yaml.SingleQuotedStyle, "x/${{ nosuchvar }}/**"
			}
			verifPlace(doc, 1, 0)
			return doc
		}
	}
	if mk == nil {
		mk = func() *yaml.Node { return verifParseYAML(src) }
	}
	all := verifLintNode(mk(), verifRules())
	n := len(verifRules())
	var parts []*Error
	for r := 0; r < n; r++ {
		w, perrs := verifParseOnly(mk())
		if r == 0 {
			parts = append(parts, perrs...)
		}
		if w == nil {
			continue
		}
		rule := verifRules()[r]
		v := NewVisitor()
		v.AddPass(rule)
		if err := v.Visit(w); err != nil {
			verifCheck(false, "visitor-returned-error")
			return
		}
		parts = append(parts, rule.Errs()...)
	}
	sort.Stable(ByErrorPosition(parts))
	verifReach("compared")
	verifCheckf(verifSameSeq(all, parts), "diagnostics-of-a-rule-depend-on-the-other-rules", verifErrTextConc(all)+" <> "+verifErrTextConc(parts))
}
