//go:build verif

package actionlint

import (
	"io"
	"sort"

	"gopkg.in/yaml.v3"
)

// verifRules returns the in-process rules in the order Linter.check registers
// them (the two external-tool rules are excluded: they need a process).
func verifRules() []Rule {
	// no project: the caches Linter.LintFile creates when no repository is found
	la := NewLocalActionsCache(nil, nil)
	lw := NewLocalReusableWorkflowCache(nil, "/", nil)
	return []Rule{
		NewRuleMatrix(),
		NewRuleCredentials(),
		NewRuleShellName(),
		NewRuleRunnerLabel(),
		NewRuleEvents(),
		NewRuleJobNeeds(),
		NewRuleAction(la),
		NewRuleEnvVar(),
		NewRuleID(),
		NewRuleGlob(),
		NewRulePermissions(),
		NewRuleWorkflowCall("w.yaml", lw),
		NewRuleExpression(la, lw),
		NewRuleDeprecatedCommands(),
		NewRuleIfCond(),
	}
}

// verifRulesNoDeprecated: all in-process rules except deprecated-commands (its
// regular expression cannot be applied to symbolic run: text).
func verifRulesNoDeprecated() []Rule {
	var out []Rule
	for _, r := range verifRules() {
		if r.Name() != "deprecated-commands" {
			out = append(out, r)
		}
	}
	return out
}

// verifLintNode is Linter.check from the decoded YAML document on: parser,
// visitor with the given rules, stable sort by position.
func verifLintNode(doc *yaml.Node, rules []Rule) []*Error {
	p := &parser{}
	w := p.parse(doc)
	all := p.errors
	if w != nil {
		v := NewVisitor()
		for _, r := range rules {
			v.AddPass(r)
		}
		if err := v.Visit(w); err != nil {
			verifCheck(false, "visitor-returned-error")
			return all
		}
		for _, r := range rules {
			all = append(all, r.Errs()...)
		}
	}
	sort.Stable(ByErrorPosition(all))
	return all
}

// verifParseOnly runs the workflow parser; verifVisit the rules on its result.
func verifParseOnly(doc *yaml.Node) (*Workflow, []*Error) {
	p := &parser{}
	w := p.parse(doc)
	return w, p.errors
}

func verifVisit(w *Workflow, parseErrs []*Error, rules []Rule) []*Error {
	all := parseErrs
	if w != nil {
		v := NewVisitor()
		for _, r := range rules {
			v.AddPass(r)
		}
		if err := v.Visit(w); err != nil {
			verifCheck(false, "visitor-returned-error")
			return all
		}
		for _, r := range rules {
			all = append(all, r.Errs()...)
		}
	}
	sort.Stable(ByErrorPosition(all))
	return all
}

// YAML tree builders (positions are assigned by verifPlace).
func yScalar(v string) *yaml.Node {
	return &yaml.Node{Kind: yaml.ScalarNode, Tag: "!!str", Value: v}
}
func yTagged(tag, v string) *yaml.Node {
	return &yaml.Node{Kind: yaml.ScalarNode, Tag: tag, Value: v}
}
func yNull() *yaml.Node { return &yaml.Node{Kind: yaml.ScalarNode, Tag: "!!null"} }
func yMap(kv ...*yaml.Node) *yaml.Node {
	return &yaml.Node{Kind: yaml.MappingNode, Tag: "!!map", Content: kv}
}
func ySeq(e ...*yaml.Node) *yaml.Node {
	return &yaml.Node{Kind: yaml.SequenceNode, Tag: "!!seq", Content: e}
}
func yDoc(n *yaml.Node) *yaml.Node {
	return &yaml.Node{Kind: yaml.DocumentNode, Content: []*yaml.Node{n}}
}
func yKV(k string, v *yaml.Node) []*yaml.Node { return []*yaml.Node{yScalar(k), v} }

// verifPlace gives every node a distinct (line, column): one line per node in
// pre-order, column = 1 + 2*depth. Returns the next free line.
func verifPlace(n *yaml.Node, line, depth int) int {
	n.Line = line
	n.Column = 1 + 2*depth
	line++
	for _, c := range n.Content {
		line = verifPlace(c, line, depth+1)
	}
	return line
}

func verifErrAt(errs []*Error, n *yaml.Node) int {
	c := 0
	for _, e := range errs {
		if e.Line == n.Line && e.Column == n.Column {
			c++
		}
	}
	return c
}

func HarnessSmokeWorkflow() {
	doc := verifParseYAML(`
on: push
jobs:
  test:
    runs-on: ubuntu-latest
    steps:
      - uses: actions/checkout@v4
      - run: echo ${{ github.event.issue.title }}
        id: foo
      - run: echo ${{ steps.foo.outputs.x }} ${{ matrix.x }}
`)
	errs := verifLintNode(doc, verifRules())
	for range errs {
		verifReach("err")
	}
	verifCheck(len(errs) == 2, "two-errors")
}

func verifErrText(errs []*Error) string {
	s := ""
	for _, e := range errs {
		s += e.Kind + ":" + e.Message + " | "
	}
	return s
}

// verifLinter: a Linter made by the repository's own constructor (no struct literal: the
// harnesses do not depend on the fields a Linter has). cwd "" = the process's working directory.
func verifLinter(cwd, shellcheck, pyflakes string) *Linter {
	l, err := NewLinter(io.Discard, &LinterOptions{WorkingDir: cwd, Shellcheck: shellcheck, Pyflakes: pyflakes})
	if err != nil || l == nil {
		verifCheck(false, "harness-linter-not-created")
		return &Linter{}
	}
	return l
}

func verifLinterFmt(cwd string, f *ErrorFormatter) *Linter {
	l := verifLinter(cwd, "", "")
	l.errFmt = f
	return l
}

// verifErrOnLine: diagnostics anywhere on the line of n (placeholders inside a scalar are reported at an offset).
func verifErrOnLine(errs []*Error, n *yaml.Node) int {
	c := 0
	for _, e := range errs {
		if e.Line == n.Line {
			c++
		}
	}
	return c
}
