//go:build verif && !verif_replay

package actionlint

func verifC15NativeCwd(cwd, arg string) {}

func verifC15NativeCheck(src, pat string, viaConfig bool) {}

func verifC15NativeMultiRepo(wf string, order, format int) {}
