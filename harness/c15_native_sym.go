//go:build verif && !verif_replay

package actionlint

func verifC15NativeCwd(cwd, arg string) {}
