//go:build verif

package actionlint

// C17 — filter patterns are validated exactly by the documented glob syntax.
//
// specGlob is the reference language of DESIGN.md Appendix A.3 written as a
// byte-at-a-time register automaton in "circuit style": no Go branch depends on
// a pattern byte, every state update is a verifIte*, so symbolic execution of
// it yields one SMT formula over the pattern bytes (and natively it is ordinary
// Go, which is what the replay runs).

const (
	gmNormal   = 0 // between items
	gmEsc      = 1 // just after a backslash (ref: must escape; path: may)
	gmClass0   = 2 // just after '['
	gmClassM   = 3 // inside class, expecting a member or ']'
	gmClassD   = 4 // inside class, member read, next is '-' (peeked) -> consume '-'
	gmClassE   = 5 // inside class, after "x-": expecting the end of range
)

// specGlob returns (valid, specified). specified=false marks inputs on which
// the documentation is silent (see Appendix A.3 "Unspecified").
func specGlob(pat string, isRef bool) (valid bool, specified bool) {
	n := len(pat)
	if n == 0 {
		return false, true
	}
	valid, specified = true, true
	mode := gmNormal
	prec := false    // previous item may take a quantifier
	chars := 0       // alternatives seen in the current class (saturates at 2)
	var start byte   // start of the current range
	var last byte    // last character of the last item (for the ref end rule)
	lastPlain := false // last item was a plain/escaped character (not a class)
	first := true    // at the very first byte

	for k := 0; k < n; k++ {
		c := pat[k]
		hasNext := k+1 < n
		var nx byte
		if hasNext {
			nx = pat[k+1]
		}
		isN := mode == gmNormal
		isE := mode == gmEsc
		isC0 := mode == gmClass0
		isCM := mode == gmClassM
		isCD := mode == gmClassD
		isCE := mode == gmClassE

		// unspecified bytes: NUL, >= 0x80; CR/LF inside a class
		specified = verifAnd(specified, verifAnd(c != 0, c < 0x80))
		inClass := verifOr(verifOr(isC0, isCM), verifOr(isCD, isCE))
		specified = verifAnd(specified, verifNot(verifAnd(inClass, verifOr(c == '\n', c == '\r'))))

		// ---- normal mode ----
		lead := verifAnd(isN, first)
		bang := verifAnd(lead, c == '!')
		// '!' alone is invalid
		valid = verifAnd(valid, verifNot(verifAnd(bang, !hasNext)))
		slash0 := verifAnd(lead, verifAnd(isRef, c == '/'))
		valid = verifAnd(valid, verifNot(slash0))

		nn := verifAnd(isN, verifNot(bang)) // ordinary processing in normal mode
		isQ := verifOr(c == '?', c == '+')
		valid = verifAnd(valid, verifNot(verifAnd(nn, verifAnd(isQ, verifNot(prec)))))
		isNL := verifOr(c == '\n', c == '\r')
		valid = verifAnd(valid, verifNot(verifAnd(nn, isNL)))
		refBad := verifOr(verifOr(c == ' ', c == '\t'), verifOr(c == '~', verifOr(c == '^', c == ':')))
		valid = verifAnd(valid, verifNot(verifAnd(nn, verifAnd(isRef, refBad))))
		isBS := c == '\\'
		isOpen := c == '['
		isStar := c == '*'
		escapable := verifOr(verifOr(nx == '[', nx == '?'), verifOr(nx == '*', verifOr(nx == '+', verifOr(nx == '\\', nx == '!'))))
		// backslash: ref -> must be followed by an escapable char; path -> escape only if escapable follows
		bsEsc := verifAnd(nn, verifAnd(isBS, verifAnd(hasNext, verifOr(isRef, escapable))))
		valid = verifAnd(valid, verifNot(verifAnd(nn, verifAnd(isBS, verifAnd(isRef, !hasNext)))))

		// ---- escape mode (c is the escaped character) ----
		escOK := verifOr(verifOr(c == '+', c == '\\'), c == '!')
		escGlob := verifOr(verifOr(c == '[', c == '?'), c == '*')
		// ref: \[ \? \* are invalid ref characters; anything else than the six is invalid
		valid = verifAnd(valid, verifNot(verifAnd(isE, verifAnd(isRef, verifNot(escOK)))))
		_ = escGlob

		// ---- class modes ----
		// '[' ']' : empty class
		valid = verifAnd(valid, verifNot(verifAnd(isC0, c == ']')))
		closeM := verifAnd(isCM, c == ']')
		// useless class: exactly one alternative
		valid = verifAnd(valid, verifNot(verifAnd(closeM, chars == 1)))
		member := verifOr(isC0, verifAnd(isCM, c != ']'))
		memberRange := verifAnd(member, verifAnd(hasNext, nx == '-'))
		memberSingle := verifAnd(member, verifNot(verifAnd(hasNext, nx == '-')))
		// "x-]" : missing end of range
		valid = verifAnd(valid, verifNot(verifAnd(isCE, c == ']')))
		// range order
		valid = verifAnd(valid, verifNot(verifAnd(isCE, verifAnd(c != ']', start > c))))

		// ---- next state ----
		newMode := mode
		newMode = verifIteInt(nn, verifIteInt(bsEsc, gmEsc, verifIteInt(isOpen, gmClass0, gmNormal)), newMode)
		newMode = verifIteInt(bang, gmNormal, newMode)
		newMode = verifIteInt(isE, gmNormal, newMode)
		newMode = verifIteInt(memberRange, gmClassD, newMode)
		newMode = verifIteInt(memberSingle, gmClassM, newMode)
		newMode = verifIteInt(closeM, gmNormal, newMode)
		newMode = verifIteInt(isCD, gmClassE, newMode)
		newMode = verifIteInt(isCE, gmClassM, newMode)

		newPrec := prec
		newPrec = verifIteBool(nn, verifNot(verifOr(isQ, isStar)), newPrec)
		newPrec = verifIteBool(bang, false, newPrec)
		newPrec = verifIteBool(slash0, true, newPrec)
		newPrec = verifIteBool(isE, true, newPrec)
		newPrec = verifIteBool(closeM, true, newPrec)

		newChars := chars
		newChars = verifIteInt(verifAnd(nn, isOpen), 0, newChars)
		newChars = verifIteInt(memberSingle, verifIteInt(chars == 0, 1, 2), newChars)
		newChars = verifIteInt(memberRange, 2, newChars)

		start = verifIteByte(memberRange, c, start)
		plainNow := verifOr(verifAnd(nn, verifNot(verifOr(isOpen, bsEsc))), isE)
		last = verifIteByte(plainNow, c, last)
		lastPlain = verifIteBool(plainNow, true, verifIteBool(closeM, false, lastPlain))
		lastPlain = verifIteBool(bang, false, lastPlain)

		mode, prec, chars = newMode, newPrec, newChars
		first = false
	}
	// end of input
	valid = verifAnd(valid, verifOr(mode == gmNormal, verifAnd(mode == gmEsc, verifNot(isRef)))) // unterminated class / ref escape at EOF
	valid = verifAnd(valid, verifNot(verifAnd(isRef, verifAnd(lastPlain, verifOr(last == '/', last == '.')))))
	return valid, specified
}

// specPathGlob adds the path-only rule: no leading or trailing space.
func specPathGlob(pat string) (bool, bool) {
	v, s := specGlob(pat, false)
	n := len(pat)
	if n > 0 {
		v = verifAnd(v, verifAnd(pat[0] != ' ', pat[n-1] != ' '))
	}
	return v, s
}

// HarnessC17Glob: impl ⇔ spec, column range, named character, ref ⇒ path.
func HarnessC17Glob(L int, isRef bool) {
	verifC17Glob(L, isRef, false)
}

// HarnessC17GlobSmall: the same obligations for longer patterns over the 15
// characters that matter to the syntax.
func HarnessC17GlobSmall(L int, isRef bool) {
	verifC17Glob(L, isRef, true)
}

const verifGlobAlphabet = "*?+[]\\-!/. ab\n~"

func verifC17Glob(L int, isRef bool, small bool) {
	pat := verifSymString("pat", L)
	if small {
		for i := 0; i < L; i++ {
			in := false
			for k := 0; k < len(verifGlobAlphabet); k++ {
				in = verifOr(in, pat[i] == verifGlobAlphabet[k])
			}
			verifAssumeNote(in, "C17 small alphabet: pattern bytes are among * ? + [ ] \\ - ! / . space a b LF ~")
		}
	}
	var errs []InvalidGlobPattern
	var valid, specified bool
	if isRef {
		errs = ValidateRefGlob(pat)
		valid, specified = specGlob(pat, true)
	} else {
		errs = ValidatePathGlob(pat)
		valid, specified = specPathGlob(pat)
	}
	accepted := len(errs) == 0
	if accepted {
		verifReach("accept")
		verifCheck(verifImplies(specified, valid), "accepted-but-invalid")
	} else {
		verifReach("reject")
		verifCheck(verifImplies(specified, verifNot(valid)), "rejected-but-valid")
	}
	for _, e := range errs {
		verifCheck(0 <= e.Column && e.Column <= L, "column-in-pattern")
		if r, ok := verifMsgQuotedRune(e.Message); ok && e.Column >= 1 && e.Column <= L {
			verifReach("named-char")
			b := pat[e.Column-1]
			// ASCII patterns only: column counts characters
			verifCheck(verifImplies(verifAllASCII(pat), rune(b) == r), "message-names-char-at-column")
		}
	}
}

// HarnessC17RefImpliesPath: every pattern accepted as a ref filter is accepted as a path filter.
func HarnessC17RefImpliesPath(L int) {
	pat := verifSymString("pat", L)
	if len(ValidateRefGlob(pat)) == 0 {
		verifReach("ref-accept")
		verifCheck(len(ValidatePathGlob(pat)) == 0, "ref-accepted-path-rejected")
	}
}

func verifAllASCII(s string) bool {
	r := true
	for k := 0; k < len(s); k++ {
		r = verifAnd(r, s[k] < 0x80)
	}
	return r
}

// HarnessC17Routing: which validator a filter key gets. A symbolic pattern is
// written under each of the six filter keys of push / pull_request /
// workflow_run; the glob rule reports it iff the validator that belongs to the
// key (Git ref syntax for branches / tags and their -ignore forms, path syntax
// for paths / paths-ignore) rejects it.
func HarnessC17Routing(L int) {
	pat := verifSymString("pat", L)
	keys := []string{"branches", "branches-ignore", "tags", "tags-ignore", "paths", "paths-ignore"}
	k := verifChoose("key", len(keys))
	hooks := []string{"push", "pull_request", "pull_request_target", "workflow_run"}
	hook := hooks[verifChoose("hook", len(hooks))]
	if hook == "workflow_run" && k >= 2 {
		return // workflow_run has branches / branches-ignore only
	}
	s := yScalar
	filter := ySeq(s(pat))
	ev := yMap(s(keys[k]), filter)
	if hook == "workflow_run" {
		ev = yMap(s("workflows"), ySeq(s("w")), s(keys[k]), filter)
	}
	doc := yDoc(yMap(s("on"), yMap(s(hook), ev), s("jobs"), yMap(s("j"), yMap(s("runs-on"), s("ubuntu-latest"), s("steps"), ySeq(yMap(s("run"), s("echo")))))))
	verifPlace(doc, 1, 0)
	errs := verifLintNode(doc, []Rule{NewRuleGlob()})
	var want []InvalidGlobPattern
	if k < 4 {
		want = ValidateRefGlob(pat)
	} else {
		want = ValidatePathGlob(pat)
	}
	verifReach("checked")
	if len(want) > 0 {
		verifReach("invalid")
	}
	verifCheckf(len(errs) == len(want), "filter-key-checked-with-the-wrong-syntax", keys[k])
}

// HarnessC17TwoFilters: the same pattern text written under two filter keys of
// two events (a path filter and a ref filter, either one first; or two ref
// filters): every occurrence gets the verdict of its own key's syntax — the
// glob rule keeps no verdict from one filter to the next.
func HarnessC17TwoFilters(L int) {
	pat := verifSymString("pat", L)
	pairs := [][2]string{{"paths", "branches"}, {"branches", "paths"}, {"paths-ignore", "tags"}, {"tags-ignore", "paths"}, {"branches", "tags"}}
	pr := pairs[verifChoose("pair", len(pairs))]
	s := yScalar
	f1, f2 := s(pat), s(pat)
	doc := yDoc(yMap(s("on"), yMap(
		s("push"), yMap(s(pr[0]), ySeq(f1)),
		s("pull_request"), yMap(s(pr[1]), ySeq(f2)),
	), s("jobs"), yMap(s("j"), yMap(s("runs-on"), s("ubuntu-latest"), s("steps"), ySeq(yMap(s("run"), s("echo")))))))
	verifPlace(doc, 1, 0)
	errs := verifLintNode(doc, []Rule{NewRuleGlob()})
	want := func(key string) int {
		if key == "paths" || key == "paths-ignore" {
			return len(ValidatePathGlob(pat))
		}
		return len(ValidateRefGlob(pat))
	}
	n1, n2 := 0, 0
	for _, e := range errs {
		if e.Line == f1.Line {
			n1++
		}
		if e.Line == f2.Line {
			n2++
		}
	}
	verifReach("checked")
	verifCheckf(n1 == want(pr[0]) && n2 == want(pr[1]), "filter-key-checked-with-the-wrong-syntax", pr[0]+" + "+pr[1])
}

// HarnessC17NonASCII: a character outside ASCII (every two-byte UTF-8 sequence,
// U+0080..U+07FF, as two symbolic bytes) is an ordinary character of a filter
// pattern: a pattern of L ASCII bytes with that character inserted at any
// position gets as many reports, and is accepted or rejected, exactly as the
// same pattern with the letter k in its place — as ref filter and as path
// filter.
func HarnessC17NonASCII(L int) {
	pat := verifSymString("pat", L)
	for i := 0; i < L; i++ {
		verifAssumeNote(verifAnd(verifAnd(pat[i] < 0x80, pat[i] != 0), pat[i] != '-'), "C17 non-ASCII: the rest of the pattern is ASCII without NUL and without '-' (in a range the character's order matters)")
	}
	ch := verifSymString("char", 2)
	verifAssumeNote(verifAnd(verifAnd(0xc2 <= ch[0], ch[0] <= 0xdf), verifAnd(0x80 <= ch[1], ch[1] <= 0xbf)), "C17 non-ASCII: one well-formed two-byte UTF-8 sequence")
	p := verifChoose("position", L+1)
	with := pat[:p] + ch + pat[p:]
	plain := pat[:p] + "k" + pat[p:]
	isRef := verifChoose("ref", 2) == 1
	var e1, e2 []InvalidGlobPattern
	if isRef {
		e1, e2 = ValidateRefGlob(with), ValidateRefGlob(plain)
	} else {
		e1, e2 = ValidatePathGlob(with), ValidatePathGlob(plain)
	}
	verifReach("compared")
	verifCheck(len(e1) == len(e2), "non-ASCII-character-not-treated-as-an-ordinary-character")
}

// HarnessC17Nul: NUL is an ASCII control character, which Git's ref-name rules
// forbid: a ref filter of L bytes that contains a NUL anywhere is reported.
func HarnessC17Nul(L int) {
	pat := verifSymString("pat", L)
	has := false
	for i := 0; i < L; i++ {
		verifAssumeNote(pat[i] < 0x80, "C17 NUL: ASCII pattern")
		has = verifOr(has, pat[i] == 0)
	}
	verifAssume(has)
	errs := ValidateRefGlob(pat)
	verifReach("checked")
	verifCheck(len(errs) >= 1, "accepted-but-invalid")
}

// HarnessC17ListGap: a filter list with an empty (or null) element before a
// pattern of L arbitrary bytes: the pattern after the gap is validated like any
// other.
func HarnessC17ListGap(L int) {
	pat := verifSymString("pat", L)
	keys := []string{"branches", "tags-ignore", "paths"}
	k := verifChoose("key", len(keys))
	s := yScalar
	gap := s("")
	if verifChoose("gap", 2) == 1 {
		gap = yTagged("!!null", "")
	}
	last := s(pat)
	doc := yDoc(yMap(s("on"), yMap(s("push"), yMap(s(keys[k]), ySeq(s("main"), gap, last))), s("jobs"), yMap(s("j"), yMap(s("runs-on"), s("ubuntu-latest"), s("steps"), ySeq(yMap(s("run"), s("echo")))))))
	verifPlace(doc, 1, 0)
	errs := verifLintNode(doc, []Rule{NewRuleGlob()})
	want := len(ValidateRefGlob(pat))
	if keys[k] == "paths" {
		want = len(ValidatePathGlob(pat))
	}
	n := 0
	for _, e := range errs {
		if e.Line == last.Line {
			n++
		}
	}
	verifReach("checked")
	verifCheck(n == want, "pattern-after-an-empty-element-not-validated")
}
