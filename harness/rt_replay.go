//go:build verif && verif_replay

package actionlint

// Harness runtime, native replay variant: symbolic inputs take the values of
// a model written by vcheck; checks report instead of asking a solver.

import (
	"gopkg.in/yaml.v3"
	"encoding/json"
	"fmt"
	"os"
	"reflect"
	"regexp"
	"strconv"
	"strings"
)

type verifReplayCase struct {
	ID      string            `json:"id"`
	Harness string            `json:"harness"`
	Args    []int64           `json:"args"`
	Model   map[string]uint64 `json:"model"`
	Choices map[string]int    `json:"choices"`
	Label   string            `json:"label"`
	Kind    string            `json:"kind"`
}

type verifReplayState struct {
	c        *verifReplayCase
	names    map[string]int
	failed   []string
	reached  map[string]int
	cut      bool
	frozen   []verifFrozen
	globals  map[string]string
	monitor  bool
}

type verifFrozen struct {
	name string
	ptr  interface{}
	snap string
}

var verifRS *verifReplayState

type verifCut struct{}

func verifFresh(name string) string {
	var sb strings.Builder
	for _, r := range name {
		if r >= 'a' && r <= 'z' || r >= 'A' && r <= 'Z' || r >= '0' && r <= '9' || r == '_' {
			sb.WriteRune(r)
		} else {
			sb.WriteByte('_')
		}
	}
	base := sb.String()
	verifRS.names[base]++
	if n := verifRS.names[base]; n > 1 {
		return fmt.Sprintf("%s_r%d", base, n)
	}
	return base
}

func verifSymString(name string, n int) string {
	name = verifFresh(name)
	b := make([]byte, n)
	for k := range b {
		b[k] = byte(verifRS.c.Model[fmt.Sprintf("%s__%d", name, k)])
	}
	return string(b)
}
func verifSymInt(name string) int   { return int(int64(verifRS.c.Model[verifFresh(name)])) }
func verifSymBool(name string) bool { return verifRS.c.Model[verifFresh(name)] != 0 }
func verifSymByte(name string) byte { return byte(verifRS.c.Model[verifFresh(name)]) }
func verifSymRune(name string) rune { return rune(int32(verifRS.c.Model[verifFresh(name)])) }
func verifChoose(name string, n int) int {
	return verifRS.c.Choices[verifFresh(name)]
}
func verifAssume(c bool) {
	if !c {
		panic(verifCut{})
	}
}
func verifAssumeNote(c bool, why string) { verifAssume(c) }
func verifCheck(c bool, label string) {
	if !c {
		verifRS.failed = append(verifRS.failed, label)
	}
}
func verifCheckf(c bool, label string, info string) {
	if !c {
		verifRS.failed = append(verifRS.failed, label)
		fmt.Printf("VERIF-INFO %s %s\n", label, strconv.Quote(info))
	}
}
func verifReach(label string)              { verifRS.reached[label]++ }
func verifMapOrder(on bool, fns ...string) {}
func verifOverride(fn string, repl interface{}) {
	panic("verifOverride has no native counterpart: replay through the public API")
}
func verifIsNative() bool { return true }
func verifAnd(a, b bool) bool             { return a && b }
func verifOr(a, b bool) bool              { return a || b }
func verifImplies(a, b bool) bool         { return !a || b }
func verifIff(a, b bool) bool             { return a == b }
func verifNot(a bool) bool                { return !a }
func verifIteInt(c bool, a, b int) int    { if c { return a }; return b }
func verifIteBool(c bool, a, b bool) bool { if c { return a }; return b }
func verifIteByte(c bool, a, b byte) byte { if c { return a }; return b }
func verifIsSymbolic(x interface{}) bool  { return false }
func verifNote(label string)              {}
func verifNative(name string) int         { return 0 }
func verifStringOf(s string) string       { return s }
func verifMsgHasRawNewline(msg string) bool {
	return strings.ContainsAny(msg, "\n\r")
}

var verifQuotedRuneRe = regexp.MustCompile(`character '`)

func verifMsgQuotedRune(msg string) (rune, bool) {
	k := strings.Index(msg, "character '")
	if k < 0 {
		return 0, false
	}
	rest := msg[k+len("character '"):]
	if strings.HasPrefix(rest, "\\' ") || strings.HasPrefix(rest, "\\'.") {
		return '\\', true
	}
	r, _, tail, err := strconv.UnquoteChar(rest, '\'')
	if err != nil || !strings.HasPrefix(tail, "'") {
		return 0, false
	}
	return r, true
}

func verifSnap(x interface{}) string { return fmt.Sprintf("%#v", verifDeep(reflect.ValueOf(x), 0)) }

// verifDeep renders a value structurally (pointers followed) for comparison.
func verifDeep(v reflect.Value, depth int) interface{} {
	if depth > 12 || !v.IsValid() {
		return nil
	}
	switch v.Kind() {
	case reflect.Ptr, reflect.Interface:
		if v.IsNil() {
			return nil
		}
		return verifDeep(v.Elem(), depth+1)
	case reflect.Struct:
		out := []interface{}{}
		for i := 0; i < v.NumField(); i++ {
			out = append(out, verifDeep(v.Field(i), depth+1))
		}
		return out
	case reflect.Slice, reflect.Array:
		out := []interface{}{}
		for i := 0; i < v.Len(); i++ {
			out = append(out, verifDeep(v.Index(i), depth+1))
		}
		return out
	case reflect.Map:
		keys := []string{}
		m := map[string]interface{}{}
		for _, k := range v.MapKeys() {
			ks := fmt.Sprint(verifDeep(k, depth+1))
			keys = append(keys, ks)
			m[ks] = verifDeep(v.MapIndex(k), depth+1)
		}
		return m
	case reflect.String:
		return v.String()
	case reflect.Bool:
		return v.Bool()
	case reflect.Int, reflect.Int8, reflect.Int16, reflect.Int32, reflect.Int64:
		return v.Int()
	case reflect.Uint, reflect.Uint8, reflect.Uint16, reflect.Uint32, reflect.Uint64, reflect.Uintptr:
		return v.Uint()
	case reflect.Float32, reflect.Float64:
		return v.Float()
	}
	return v.Kind().String()
}

func verifFreeze(name string, x interface{}) {
	verifRS.frozen = append(verifRS.frozen, verifFrozen{name, x, verifSnap(x)})
}

func verifMonitorGlobals(on bool) {
	if on && !verifRS.monitor {
		verifRS.monitor = true
		verifRS.globals = verifGlobalsSnap()
	}
}

func verifGlobalsSnap() map[string]string {
	return map[string]string{
		"AllWebhookTypes":            verifSnap(AllWebhookTypes),
		"BuiltinGlobalVariableTypes": verifSnap(BuiltinGlobalVariableTypes),
		"BuiltinFuncSignatures":      verifSnap(BuiltinFuncSignatures),
		"BuiltinUntrustedInputs":     verifSnap(BuiltinUntrustedInputs),
		"SpecialFunctionNames":       verifSnap(SpecialFunctionNames),
	}
}

// verifRunCase runs one replay case and prints its outcome.
func verifRunCase(c *verifReplayCase, run func(name string, args []int64) bool) {
	verifRS = &verifReplayState{c: c, names: map[string]int{}, reached: map[string]int{}}
	outcome := "ok"
	func() {
		defer func() {
			if p := recover(); p != nil {
				if _, ok := p.(verifCut); ok {
					outcome = "cut"
					return
				}
				outcome = "panic"
				fmt.Printf("VERIF-PANIC id=%s %s\n", c.ID, strconv.Quote(fmt.Sprint(p)))
			}
		}()
		if !run(c.Harness, c.Args) {
			outcome = "noharness"
		}
	}()
	for _, f := range verifRS.frozen {
		if verifSnap(f.ptr) != f.snap {
			verifRS.failed = append(verifRS.failed, "frozen-write:"+f.name)
		}
	}
	if verifRS.monitor {
		after := verifGlobalsSnap()
		for k, v := range verifRS.globals {
			if after[k] != v {
				verifRS.failed = append(verifRS.failed, "global-write:"+k)
			}
		}
	}
	r, _ := json.Marshal(verifRS.reached)
	f, _ := json.Marshal(verifRS.failed)
	fmt.Printf("VERIF-RESULT id=%s outcome=%s failed=%s reached=%s\n", c.ID, outcome, f, r)
}

func verifReplayAll(run func(name string, args []int64) bool) {
	path := os.Getenv("VERIF_REPLAY")
	b, err := os.ReadFile(path)
	if err != nil {
		panic(err)
	}
	var cases []*verifReplayCase
	if err := json.Unmarshal(b, &cases); err != nil {
		panic(err)
	}
	for _, c := range cases {
		verifRunCase(c, run)
	}
}

func verifParseYAML(src string) *yaml.Node {
	var n yaml.Node
	if err := yaml.Unmarshal([]byte(src), &n); err != nil {
		panic(err)
	}
	return &n
}

func verifDebug(label string, s string) { fmt.Printf("VERIF-DEBUG %s %s\n", label, strconv.Quote(s)) }

func verifSetCwd(dir string) {}

func verifRecordMapRangers(on bool) {}
func verifMapRangers() []string     { return nil }

func verifSetNumCPU(n int)        {}
func verifGoOrder(perm []int)     {}
func verifMapOrderBudget(n int)   {}
func verifTraceStart()            {}
func verifTraceEvent(kind string) {}
func verifScheduleCheck(cpus int, stepEncoding int) {}

func verifTraceAccesses(on bool) {}
func verifRaceCheck()            {}

func verifSetGOMAXPROCS(n int) {}
