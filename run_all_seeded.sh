#!/bin/sh
# Applies every seeded change in turn (see run_seeded.sh) and records the verdicts.
cd "$(dirname "$0")"
out=seeded/RESULTS.txt
: > $out.tmp
for d in seeded/*/; do
  n=$(basename $d)
  ./run_seeded.sh $n ${1:-quick} | head -1 | cut -c1-260 >> $out.tmp
done
mv $out.tmp $out
grep -c "exit=1" $out; grep -v "exit=1" $out
