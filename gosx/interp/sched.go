package interp

// Schedule-symbolic bounded model checking of a synchronisation protocol.
//
// Trace extraction: after verifTraceStart the interpreter keeps one event list
// per goroutine. `go f()` / errgroup.Go(f) create a new list and run f at once
// (one representative sequential run; the events a goroutine performs are
// assumed not to depend on the schedule — thread modularity, a stated
// assumption). Calls on sync primitives and the harness's process stub append
// events. verifScheduleCheck compiles the lists into bit-vector terms: the
// schedule is a vector of symbolic thread ids, one per step; the state after k
// steps is the vector of program counters, every counter (semaphore, wait
// group, errgroup, mutex, live processes) is a sum over the events already
// executed. The number of steps equals the number of events, so the unrolling
// is complete for the extracted threads. Each monitor is one obligation
// discharged by the solver: unsat = no schedule violates it.

import (
	"fmt"
	"os"
	"sort"
)

type schedEvent struct {
	kind  string
	obj   interface{}
	n     int64
	child int
	rest  []schedEvent // further events executed atomically with this one (after reduce)
}

func (e schedEvent) members() []schedEvent {
	out := []schedEvent{e}
	for _, r := range e.rest {
		out = append(out, r)
	}
	out[0].rest = nil
	return out
}

func schedBlocking(kind string) bool {
	switch kind {
	case "sem.Acquire", "(*sync.Mutex).Lock", "(*sync.RWMutex).Lock", "(*sync.WaitGroup).Wait", "eg.Wait":
		return true
	}
	return false
}

// reduce merges consecutive events of a goroutine into atomic blocks (Lipton
// reduction): a block is [first event] [both-movers]* [one non-mover]? [left
// movers / both-movers]*, only the first event may block, and a process start
// and its end are never in one block. Right movers: Acquire, Lock. Left movers:
// Release, Unlock, Done, errgroup done, spawn into a group only the spawner
// waits for. Non-movers: WaitGroup.Add, the two Wait operations, other spawns.
// Both-movers: the harness's own marks (process start / end, return).
func (t *traceState) reduce() {
	waiters := map[interface{}]map[int]bool{}
	for ti, th := range t.threads {
		for _, e := range th.events {
			if e.kind == "eg.Wait" {
				if waiters[e.obj] == nil {
					waiters[e.obj] = map[int]bool{}
				}
				waiters[e.obj][ti] = true
			}
		}
	}
	class := func(ti int, e schedEvent) byte {
		switch e.kind {
		case "sem.Acquire", "(*sync.Mutex).Lock", "(*sync.RWMutex).Lock":
			return 'R'
		case "sem.Release", "(*sync.Mutex).Unlock", "(*sync.RWMutex).Unlock", "(*sync.WaitGroup).Done", "eg.Done":
			return 'L'
		case "spawn":
			for w := range waiters[e.obj] {
				if w != ti {
					return 'N'
				}
			}
			return 'L'
		case "(*sync.WaitGroup).Add", "(*sync.WaitGroup).Wait", "eg.Wait":
			return 'N'
		}
		if len(e.kind) > 5 && e.kind[:5] == "user:" {
			return 'B'
		}
		return 'N'
	}
	newIdx := make([][]int, len(t.threads))
	for ti, th := range t.threads {
		var blocks []schedEvent
		phase := byte(0) // 0 no block, 'R' before the non-mover, 'L' after it
		newIdx[ti] = make([]int, len(th.events))
		for j, e := range th.events {
			c := class(ti, e)
			join := phase != 0 && !schedBlocking(e.kind) && e.kind != "user:proc-end"
			if join {
				switch {
				case c == 'B':
				case phase == 'R' && (c == 'N' || c == 'L'):
					phase = 'L'
				case phase == 'L' && c == 'L':
				default:
					join = false
				}
			}
			if join {
				b := &blocks[len(blocks)-1]
				b.rest = append(b.rest, e)
			} else {
				blocks = append(blocks, e)
				if c == 'R' || c == 'B' {
					phase = 'R'
				} else {
					phase = 'L'
				}
			}
			newIdx[ti][j] = len(blocks) - 1
		}
		th.events = blocks
	}
	for _, th := range t.threads {
		if th.parent >= 0 {
			th.spawnIdx = newIdx[th.parent][th.spawnIdx]
		}
	}
}

type schedThread struct {
	parent   int
	spawnIdx int
	events   []schedEvent
}

type traceState struct {
	threads []*schedThread
	cur     int
	semCap  map[interface{}]int64
	// data accesses (race analysis): per memory cell the accesses of every goroutine
	recAcc bool
	acc    map[interface{}][]accRec
	held   map[int][]heldLock
}

type heldLock struct {
	m     interface{}
	write bool
}

type accRec struct {
	g, pos int // goroutine, number of sync events it had performed
	write  bool
	locks  []heldLock
	site   string
}

func newTraceState() *traceState {
	return &traceState{threads: []*schedThread{{parent: -1}}, semCap: map[interface{}]int64{},
		acc: map[interface{}][]accRec{}, held: map[int][]heldLock{}}
}

// access records a read or write of a memory cell by the current goroutine.
func (t *traceState) access(cell interface{}, write bool, site string) {
	if !t.recAcc {
		return
	}
	pos := len(t.threads[t.cur].events)
	lst := t.acc[cell]
	// one record per (goroutine, position, kind, lock state) is enough
	for k := len(lst) - 1; k >= 0 && k >= len(lst)-4; k-- {
		r := lst[k]
		if r.g == t.cur && r.pos == pos && r.write == write && len(r.locks) == len(t.held[t.cur]) {
			return
		}
	}
	t.acc[cell] = append(lst, accRec{t.cur, pos, write, append([]heldLock{}, t.held[t.cur]...), site})
}

func (t *traceState) syncEvent(kind string, obj value, n int64) {
	var key interface{}
	if p, ok := obj.(*value); ok {
		key = p
	}
	th := t.threads[t.cur]
	th.events = append(th.events, schedEvent{kind: kind, obj: key, n: n})
	switch kind {
	case "(*sync.Mutex).Lock", "(*sync.RWMutex).Lock":
		t.held[t.cur] = append(t.held[t.cur], heldLock{key, true})
	case "(*sync.RWMutex).RLock":
		t.held[t.cur] = append(t.held[t.cur], heldLock{key, false})
	case "(*sync.Mutex).Unlock", "(*sync.RWMutex).Unlock", "(*sync.RWMutex).RUnlock":
		h := t.held[t.cur]
		for k := len(h) - 1; k >= 0; k-- {
			if h[k].m == key {
				t.held[t.cur] = append(append([]heldLock{}, h[:k]...), h[k+1:]...)
				break
			}
		}
	}
}

// spawn runs the new goroutine's function at once, recording its events in a list of its own.
func (t *traceState) spawn(i *interpreter, fr *frame, group value, fn value, args []value) {
	var g interface{}
	if p, ok := group.(*value); ok {
		g = p
	}
	parent := t.cur
	child := len(t.threads)
	pt := t.threads[parent]
	t.threads = append(t.threads, &schedThread{parent: parent, spawnIdx: len(pt.events)})
	pt.events = append(pt.events, schedEvent{kind: "spawn", obj: g, child: child})
	t.cur = child
	r := call(i, fr, 0, fn, args)
	t.cur = parent
	if g != nil {
		ct := t.threads[child]
		ct.events = append(ct.events, schedEvent{kind: "eg.Done", obj: g})
		if e, ok := r.(iface); ok && e.t != nil {
			if i.egErr == nil {
				i.egErr = map[*value]value{}
			}
			if _, seen := i.egErr[g.(*value)]; !seen {
				i.egErr[g.(*value)] = e
			}
		}
	}
}

func bitsFor(n int) int {
	w := 1
	for (1 << w) <= n {
		w++
	}
	return w
}

func (i *interpreter) scheduleCheck(cpus int, steps bool) {
	if steps || os.Getenv("VERIF_SCHED") == "steps" {
		i.scheduleCheckSteps(cpus)
		return
	}
	i.scheduleCheckPO(cpus)
}

// scheduleCheckSteps: the step-indexed encoding (sched[k] = goroutine of step k). Kept as the
// reference encoding the partial-order encoding below is diffed against (VERIF_SCHED=steps).
func (i *interpreter) scheduleCheckSteps(cpus int) {
	t := i.trace
	if t == nil {
		panic("verifScheduleCheck without verifTraceStart")
	}
	i.trace = nil
	tt := i.tt
	rawN := 0
	for _, th := range t.threads {
		rawN += len(th.events)
	}
	t.reduce()
	T := len(t.threads)
	N, maxLen := 0, 0
	for _, th := range t.threads {
		N += len(th.events)
		if len(th.events) > maxLen {
			maxLen = len(th.events)
		}
	}
	if T > 60 || N > 250 {
		panic(unsupported{fmt.Sprintf("schedule model too large: %d threads, %d events", T, N)})
	}
	i.reach[fmt.Sprintf("schedule-model threads=%d events=%d steps=%d", T, rawN, N)]++
	wT, wPC, wN := bitsFor(T), bitsFor(maxLen), bitsFor(N)
	// counters: for every object the events that change it
	type delta struct {
		t, j int
		d    int
	}
	counters := map[interface{}][]delta{}
	add := func(key interface{}, d delta) {
		for k := range counters[key] {
			if counters[key][k].t == d.t && counters[key][k].j == d.j {
				counters[key][k].d += d.d
				return
			}
		}
		counters[key] = append(counters[key], d)
	}
	type procKey struct{}
	for ti, th := range t.threads {
		for j, blk := range th.events {
			for _, e := range blk.members() {
				switch e.kind {
				case "sem.Acquire":
					add(e.obj, delta{ti, j, int(e.n)})
				case "sem.Release":
					add(e.obj, delta{ti, j, -int(e.n)})
				case "(*sync.WaitGroup).Add":
					add(e.obj, delta{ti, j, int(e.n)})
				case "(*sync.WaitGroup).Done":
					add(e.obj, delta{ti, j, -1})
				case "spawn":
					if e.obj != nil {
						add(e.obj, delta{ti, j, 1})
					}
				case "eg.Done":
					add(e.obj, delta{ti, j, -1})
				case "(*sync.Mutex).Lock", "(*sync.RWMutex).Lock":
					add(e.obj, delta{ti, j, 1})
				case "(*sync.Mutex).Unlock", "(*sync.RWMutex).Unlock":
					add(e.obj, delta{ti, j, -1})
				case "user:proc-start":
					add(procKey{}, delta{ti, j, 1})
				case "user:proc-end":
					add(procKey{}, delta{ti, j, -1})
				}
			}
		}
	}
	ctrW := map[interface{}]int{}
	for key, ds := range counters {
		pos := 0
		for _, d := range ds {
			if d.d > 0 {
				pos += d.d
			}
		}
		ctrW[key] = bitsFor(pos + 2)
	}
	// step variables
	sched := make([]*Term, N)
	for k := range sched {
		name := i.freshName(fmt.Sprintf("sched%02d", k))
		i.inputs = append(i.inputs, inputRec{name, "byte", 0})
		sched[k] = tt.Var(name, wT)
	}
	lenName := i.freshName("schedlen")
	nSteps := tt.Var(lenName, wN) // the run is observed after this many steps
	i.inputs = append(i.inputs, inputRec{lenName, "byte", 0})
	pcc := func(n int) *Term { return tt.Const(wPC, uint64(n)) }
	thc := func(n int) *Term { return tt.Const(wT, uint64(n)) }
	pc := make([][]*Term, N+1)
	pc[0] = make([]*Term, T)
	for ti := range pc[0] {
		pc[0][ti] = pcc(0)
	}
	// state variables with defining equations (kept flat: nested definitions make old z3 blow up)
	defs := tt.Bool(true)
	stateVar := func(name string, w int, def *Term) *Term {
		v := tt.Var(i.freshName(name), w)
		defs = tt.And(defs, tt.Eq(v, def))
		return v
	}
	chosen := make([][]*Term, N) // chosen[k][t]: step k runs thread t
	for k := 0; k < N; k++ {
		chosen[k] = make([]*Term, T)
		pc[k+1] = make([]*Term, T)
		for ti := 0; ti < T; ti++ {
			chosen[k][ti] = tt.Eq(sched[k], thc(ti))
			pc[k+1][ti] = stateVar(fmt.Sprintf("pc_%d_%d", k+1, ti), wPC, tt.Ite(chosen[k][ti], tt.Bin(OpAdd, pc[k][ti], pcc(1)), pc[k][ti]))
		}
	}
	atPC := func(k, ti, j int) *Term { return tt.Eq(pc[k][ti], pcc(j)) }
	fire := func(k, ti, j int) *Term { return tt.And(chosen[k][ti], atPC(k, ti, j)) }
	passed := func(k, ti, j int) *Term { return tt.Bin(OpUlt, pcc(j), pc[k][ti]) }
	// counters, updated by the one event a step executes
	ctrs := map[interface{}][]*Term{}
	for key, ds := range counters {
		w := ctrW[key]
		c := make([]*Term, N+1)
		c[0] = tt.Const(w, 0)
		for k := 0; k < N; k++ {
			nx := c[k]
			for _, d := range ds {
				if d.d == 0 {
					continue
				}
				nx = tt.Ite(fire(k, d.t, d.j), tt.Bin(OpAdd, c[k], tt.Const(w, uint64(int64(d.d))&((1<<uint(w))-1))), nx)
			}
			c[k+1] = stateVar(fmt.Sprintf("ctr%d_%d", len(ctrs), k+1), w, nx)
		}
		ctrs[key] = c
	}
	ctr := func(k int, key interface{}) *Term { return ctrs[key][k] }
	ctrConst := func(key interface{}, n int) *Term { return tt.Const(ctrW[key], uint64(n)) }
	started := func(k, ti int) *Term {
		th := t.threads[ti]
		if th.parent < 0 {
			return tt.Bool(true)
		}
		return passed(k, th.parent, th.spawnIdx)
	}
	done := func(k, ti int) *Term { return atPC(k, ti, len(t.threads[ti].events)) }
	allDone := func(k int) *Term {
		r := tt.Bool(true)
		for ti := 0; ti < T; ti++ {
			r = tt.And(r, done(k, ti))
		}
		return r
	}
	enabled := func(k, ti, j int) *Term {
		e := t.threads[ti].events[j]
		switch e.kind {
		case "sem.Acquire":
			cp, ok := t.semCap[e.obj]
			if !ok || cp >= int64(1)<<uint(ctrW[e.obj]-1) {
				return tt.Bool(true) // capacity can never be reached by the acquisitions of this run
			}
			// count + n <= cap, without overflow: count <= cap - n
			if cp < e.n {
				return tt.Bool(false)
			}
			return tt.Bin(OpUle, ctr(k, e.obj), ctrConst(e.obj, int(cp-e.n)))
		case "(*sync.WaitGroup).Wait", "eg.Wait":
			if _, ok := ctrs[e.obj]; !ok {
				return tt.Bool(true)
			}
			return tt.Eq(ctr(k, e.obj), ctrConst(e.obj, 0))
		case "(*sync.Mutex).Lock", "(*sync.RWMutex).Lock":
			return tt.Eq(ctr(k, e.obj), ctrConst(e.obj, 0))
		}
		return tt.Bool(true)
	}
	canMove := func(k, ti int) *Term {
		thOK := tt.Bool(false)
		for j := range t.threads[ti].events {
			thOK = tt.Or(thOK, tt.And(atPC(k, ti, j), enabled(k, ti, j)))
		}
		return tt.And(started(k, ti), thOK)
	}
	nc := func(n int) *Term { return tt.Const(wN, uint64(n)) }
	active := func(k int) *Term { return tt.Bin(OpUlt, nc(k), nSteps) }
	// validity of the schedule prefix
	valid := tt.And(defs, tt.Bin(OpUle, nSteps, nc(N)))
	for k := 0; k < N; k++ {
		stepOK := tt.Bool(false)
		for ti := 0; ti < T; ti++ {
			stepOK = tt.Or(stepOK, tt.And(chosen[k][ti], canMove(k, ti)))
		}
		valid = tt.And(valid, tt.Implies(active(k), stepOK))
	}
	// obligations: one-shot solver runs (non-incremental bit-blasting decides these; the incremental core does not)
	oblige := func(c *Term, label string) {
		i.stats.Checks++
		if c.IsTrue() {
			return
		}
		i.stats.CheckQueries++
		v, m := i.solver.CheckOneShot(append(append([]Lit{}, i.pc...), Lit{c, true}), 600000)
		switch v {
		case Sat:
			i.raise("check", label, "", m)
		case Unknown:
			i.raise("unknown", label, "solver answered unknown on obligation "+label, i.model)
		}
	}
	i.noteAssume("schedule model: goroutine event sequences do not depend on the schedule (thread modularity); semaphore / wait group / errgroup / mutex follow their documented blocking contracts; waiter wake-up order is free")
	i.pushPC(valid, false)

	// M1: never more live tool processes than CPUs
	if _, ok := ctrs[procKey{}]; ok && cpus < (1<<uint(ctrW[procKey{}]))-1 {
		m1 := tt.Bool(true)
		for k := 0; k <= N; k++ {
			m1 = tt.And(m1, tt.Implies(tt.Bin(OpUle, nc(k), nSteps), tt.Bin(OpUle, ctr(k, procKey{}), ctrConst(procKey{}, cpus))))
		}
		oblige(m1, "more-tool-processes-at-once-than-cpus")
	}
	// M2: when the main goroutine returns the results, every goroutine has finished
	m2 := tt.Bool(true)
	for j, blk := range t.threads[0].events {
		isRet := false
		for _, e := range blk.members() {
			isRet = isRet || e.kind == "user:return"
		}
		if !isRet {
			continue
		}
		for k := 0; k < N; k++ {
			all := tt.Bool(true)
			for ti := 1; ti < T; ti++ {
				all = tt.And(all, tt.Or(tt.Not(started(k, ti)), done(k, ti)))
			}
			m2 = tt.And(m2, tt.Implies(tt.And(active(k), fire(k, 0, j)), all))
		}
	}
	oblige(m2, "results-returned-before-every-tool-goroutine-finished")
	// M3: WaitGroup.Add is never executed after a Wait on the same group has passed
	m3 := tt.Bool(true)
	for ta, tha := range t.threads {
		for ja, ba := range tha.events {
			for _, ea := range ba.members() {
				if ea.kind != "(*sync.WaitGroup).Add" || ea.n <= 0 {
					continue
				}
				for tb, thb := range t.threads {
					for jb, bb := range thb.events {
						for _, eb := range bb.members() {
							if eb.kind != "(*sync.WaitGroup).Wait" || eb.obj != ea.obj {
								continue
							}
							for k := 0; k < N; k++ {
								m3 = tt.And(m3, tt.Not(tt.And(active(k), tt.And(fire(k, ta, ja), passed(k, tb, jb)))))
							}
						}
					}
				}
			}
		}
	}
	_ = m3 // WaitGroup.Add after a passed Wait is not an observable of the property (and cannot be confirmed natively); M2 covers its consequence
	// M4: no deadlock: in every reachable state some goroutine can move unless all have finished
	m4 := tt.Bool(true)
	for k := 0; k <= N; k++ {
		some := tt.Bool(false)
		for ti := 0; ti < T; ti++ {
			some = tt.Or(some, canMove(k, ti))
		}
		m4 = tt.And(m4, tt.Implies(tt.Eq(nSteps, nc(k)), tt.Or(allDone(k), some)))
	}
	oblige(m4, "deadlock")
	// vacuity guard: a complete run exists
	full := tt.And(tt.Eq(nSteps, nc(N)), allDone(N))
	v, _ := i.solver.CheckOneShot(append(append([]Lit{}, i.pc...), Lit{full, false}), 600000)
	if v == Sat {
		i.reach["complete-schedule-exists"]++
		i.pathReach["complete-schedule-exists"]++
	}
}


// scheduleCheckPO: partial-order encoding. Every atomic block b gets a boolean x(b)
// ("executed in this run prefix") and a time stamp tau(b); program order, spawn order and
// pairwise distinct time stamps make the executed blocks a linear run; a counter's value just
// before b is the sum of the deltas of executed blocks with a smaller time stamp. No per-step
// state, O(B^2) comparisons.
func (i *interpreter) scheduleCheckPO(cpus int) {
	t := i.trace
	if t == nil {
		panic("verifScheduleCheck without verifTraceStart")
	}
	i.trace = nil
	i.poBuild(t, cpus, true)
}

type poModel struct {
	valid, full *Term
	accA, accB  *Term // time stamps of the blocks holding the two access events (race queries)
}

// poBuild builds the partial-order model of t; with monitors it also discharges the schedule obligations.
func (i *interpreter) poBuild(t *traceState, cpus int, monitors bool) *poModel {
	tt := i.tt
	rawN := 0
	for _, th := range t.threads {
		rawN += len(th.events)
	}
	t.reduce()
	T := len(t.threads)
	type blk struct{ t, j int }
	var blocks []blk
	for ti, th := range t.threads {
		for j := range th.events {
			blocks = append(blocks, blk{ti, j})
		}
	}
	B := len(blocks)
	if B > 400 {
		panic(unsupported{fmt.Sprintf("schedule model too large: %d blocks", B)})
	}
	if monitors {
		i.reach[fmt.Sprintf("schedule-model threads=%d events=%d steps=%d", T, rawN, B)]++
	}
	w := bitsFor(B + 1)
	x := map[blk]*Term{}
	tau := map[blk]*Term{}
	for _, b := range blocks {
		xn := i.freshName(fmt.Sprintf("x_%d_%d", b.t, b.j))
		tn := i.freshName(fmt.Sprintf("at_%d_%d", b.t, b.j))
		if monitors {
			i.inputs = append(i.inputs, inputRec{xn, "bool", 0}, inputRec{tn, "byte", 0})
		}
		x[b] = tt.Var(xn, 0)
		tau[b] = tt.Var(tn, w)
	}
	type procKey struct{}
	type delta struct {
		b blk
		d int
	}
	counters := map[interface{}][]delta{}
	add := func(key interface{}, b blk, d int) {
		for k := range counters[key] {
			if counters[key][k].b == b {
				counters[key][k].d += d
				return
			}
		}
		counters[key] = append(counters[key], delta{b, d})
	}
	for _, b := range blocks {
		for _, e := range t.threads[b.t].events[b.j].members() {
			switch e.kind {
			case "sem.Acquire":
				add(e.obj, b, int(e.n))
			case "sem.Release":
				add(e.obj, b, -int(e.n))
			case "(*sync.WaitGroup).Add":
				add(e.obj, b, int(e.n))
			case "(*sync.WaitGroup).Done":
				add(e.obj, b, -1)
			case "spawn":
				if e.obj != nil {
					add(e.obj, b, 1)
				}
			case "eg.Done":
				add(e.obj, b, -1)
			case "(*sync.Mutex).Lock", "(*sync.RWMutex).Lock":
				add(e.obj, b, 1)
			case "(*sync.Mutex).Unlock", "(*sync.RWMutex).Unlock":
				add(e.obj, b, -1)
			case "user:proc-start":
				add(procKey{}, b, 1)
			case "user:proc-end":
				add(procKey{}, b, -1)
			}
		}
	}
	ctrW := map[interface{}]int{}
	for key, ds := range counters {
		pos := 0
		for _, d := range ds {
			if d.d > 0 {
				pos += d.d
			}
		}
		ctrW[key] = bitsFor(pos + 2)
	}
	cst := func(key interface{}, n int) *Term {
		wd := ctrW[key]
		return tt.Const(wd, uint64(int64(n))&((1<<uint(wd))-1))
	}
	// counter value seen by block b: executed blocks strictly before b (incl = false) or up to and including b
	count := func(key interface{}, when func(o blk) *Term) *Term {
		sum := cst(key, 0)
		for _, d := range counters[key] {
			if d.d == 0 {
				continue
			}
			sum = tt.Bin(OpAdd, sum, tt.Ite(when(d.b), cst(key, d.d), cst(key, 0)))
		}
		return sum
	}
	before := func(b blk) func(o blk) *Term {
		return func(o blk) *Term {
			if o == b {
				return tt.Bool(false)
			}
			return tt.And(x[o], tt.Bin(OpUlt, tau[o], tau[b]))
		}
	}
	upto := func(b blk) func(o blk) *Term {
		return func(o blk) *Term {
			if o == b {
				return x[b]
			}
			return tt.And(x[o], tt.Bin(OpUlt, tau[o], tau[b]))
		}
	}
	final := func(o blk) *Term { return x[o] }
	enabledAt := func(b blk, when func(o blk) *Term) *Term {
		e := t.threads[b.t].events[b.j]
		switch e.kind {
		case "sem.Acquire":
			cp, ok := t.semCap[e.obj]
			if !ok || cp >= int64(1)<<uint(ctrW[e.obj]-1) {
				return tt.Bool(true)
			}
			if cp < e.n {
				return tt.Bool(false)
			}
			return tt.Bin(OpUle, count(e.obj, when), cst(e.obj, int(cp-e.n)))
		case "(*sync.WaitGroup).Wait", "eg.Wait":
			if _, ok := counters[e.obj]; !ok {
				return tt.Bool(true)
			}
			return tt.Eq(count(e.obj, when), cst(e.obj, 0))
		case "(*sync.Mutex).Lock", "(*sync.RWMutex).Lock":
			return tt.Eq(count(e.obj, when), cst(e.obj, 0))
		}
		return tt.Bool(true)
	}
	// validity of the run prefix
	valid := tt.Bool(true)
	pred := func(b blk) (blk, bool) { // the block that must precede b
		if b.j > 0 {
			return blk{b.t, b.j - 1}, true
		}
		th := t.threads[b.t]
		if th.parent >= 0 {
			return blk{th.parent, th.spawnIdx}, true
		}
		return blk{}, false
	}
	for _, b := range blocks {
		if p, ok := pred(b); ok {
			valid = tt.And(valid, tt.Implies(x[b], tt.And(x[p], tt.Bin(OpUlt, tau[p], tau[b]))))
		}
		valid = tt.And(valid, tt.Implies(x[b], enabledAt(b, before(b))))
	}
	for a := 0; a < B; a++ {
		for c := a + 1; c < B; c++ {
			if blocks[a].t == blocks[c].t {
				continue
			}
			valid = tt.And(valid, tt.Not(tt.And(tt.And(x[blocks[a]], x[blocks[c]]), tt.Eq(tau[blocks[a]], tau[blocks[c]]))))
		}
	}
	if !monitors {
		m := &poModel{valid: valid, full: tt.Bool(true)}
		for _, b := range blocks {
			m.full = tt.And(m.full, x[b])
			for _, e := range t.threads[b.t].events[b.j].members() {
				if e.kind == "access:a" {
					m.accA = tau[b]
				}
				if e.kind == "access:b" {
					m.accB = tau[b]
				}
			}
		}
		return m
	}
	oblige := func(c *Term, label string) {
		i.stats.Checks++
		if c.IsTrue() {
			return
		}
		i.stats.CheckQueries++
		v, m := i.solver.CheckOneShot(append(append([]Lit{}, i.pc...), Lit{c, true}), 600000)
		switch v {
		case Sat:
			i.raise("check", label, "", m)
		case Unknown:
			i.raise("unknown", label, "solver answered unknown on obligation "+label, i.model)
		}
	}
	i.noteAssume("schedule model: goroutine event sequences do not depend on the schedule (thread modularity); semaphore / wait group / errgroup / mutex follow their documented blocking contracts; waiter wake-up order is free")
	i.pushPC(valid, false)

	// M1: right after any block that starts a process, at most cpus processes are alive
	if ds, ok := counters[procKey{}]; ok && cpus < (1<<uint(ctrW[procKey{}]))-1 {
		m1 := tt.Bool(true)
		for _, d := range ds {
			if d.d > 0 {
				m1 = tt.And(m1, tt.Implies(x[d.b], tt.Bin(OpUle, count(procKey{}, upto(d.b)), cst(procKey{}, cpus))))
			}
		}
		oblige(m1, "more-tool-processes-at-once-than-cpus")
	}
	// M2: when the main goroutine returns the results every started goroutine has finished
	m2 := tt.Bool(true)
	for j, b0 := range t.threads[0].events {
		isRet := false
		for _, e := range b0.members() {
			isRet = isRet || e.kind == "user:return"
		}
		if !isRet {
			continue
		}
		r := blk{0, j}
		for u := 1; u < T; u++ {
			th := t.threads[u]
			if len(th.events) == 0 {
				continue
			}
			sp := blk{th.parent, th.spawnIdx}
			last := blk{u, len(th.events) - 1}
			startedBefore := tt.And(x[sp], tt.Bin(OpUlt, tau[sp], tau[r]))
			if sp == r {
				startedBefore = tt.Bool(false)
			}
			m2 = tt.And(m2, tt.Implies(tt.And(x[r], startedBefore), tt.And(x[last], tt.Bin(OpUlt, tau[last], tau[r]))))
		}
	}
	oblige(m2, "results-returned-before-every-tool-goroutine-finished")
	// M4: no deadlock: if something is left to do, some next block is enabled in the final state
	notAll := tt.Bool(false)
	stuck := tt.Bool(true)
	for _, b := range blocks {
		notAll = tt.Or(notAll, tt.Not(x[b]))
		next := tt.Not(x[b])
		if p, ok := pred(b); ok {
			next = tt.And(next, x[p])
		}
		stuck = tt.And(stuck, tt.Implies(next, tt.Not(enabledAt(b, final))))
	}
	oblige(tt.Not(tt.And(notAll, stuck)), "deadlock")
	// vacuity guard: a complete run exists
	full := tt.Bool(true)
	for _, b := range blocks {
		full = tt.And(full, x[b])
	}
	v, _ := i.solver.CheckOneShot(append(append([]Lit{}, i.pc...), Lit{full, false}), 600000)
	if v == Sat {
		i.reach["complete-schedule-exists"]++
		i.pathReach["complete-schedule-exists"]++
	}
	return &poModel{valid: valid, full: full}
}

// ---- data races ----

func protectedBy(a, b accRec) bool {
	for _, x := range a.locks {
		for _, y := range b.locks {
			if x.m == y.m && (x.write || y.write) {
				return true
			}
		}
	}
	return false
}

// raceCheck: for every pair of accesses to one memory cell by two goroutines, at least one a
// write, not protected by a common mutex, the solver is asked whether both orders occur in
// complete valid schedules (the two accesses are inserted into the schedule model as
// non-mover events at their program positions). Both orders feasible = the accesses are not
// ordered by the synchronisation = data race.
func (i *interpreter) raceCheck() {
	t := i.trace
	if t == nil {
		panic("verifRaceCheck without verifTraceStart")
	}
	i.trace = nil
	type posPair struct{ g1, p1, g2, p2 int }
	cand := map[posPair]string{}
	nCells, nPairs := 0, 0
	for _, lst := range t.acc {
		multi := false
		for _, r := range lst[1:] {
			if r.g != lst[0].g {
				multi = true
				break
			}
		}
		if !multi {
			continue
		}
		nCells++
		for a := 0; a < len(lst); a++ {
			for b := a + 1; b < len(lst); b++ {
				x, y := lst[a], lst[b]
				if x.g == y.g || !(x.write || y.write) || protectedBy(x, y) {
					continue
				}
				nPairs++
				if x.g > y.g {
					x, y = y, x
				}
				k := posPair{x.g, x.pos, y.g, y.pos}
				if _, ok := cand[k]; !ok {
					kind := func(r accRec) string {
						if r.write {
							return "write in " + r.site
						}
						return "read in " + r.site
					}
					cand[k] = kind(x) + " / " + kind(y)
				}
			}
		}
	}
	i.reach[fmt.Sprintf("race-analysis shared-cells=%d unprotected-conflicting-pairs=%d distinct-position-pairs=%d", nCells, nPairs, len(cand))]++
	var keys []posPair
	for k := range cand {
		keys = append(keys, k)
	}
	sort.Slice(keys, func(a, b int) bool {
		x, y := keys[a], keys[b]
		if x.g1 != y.g1 {
			return x.g1 < y.g1
		}
		if x.p1 != y.p1 {
			return x.p1 < y.p1
		}
		if x.g2 != y.g2 {
			return x.g2 < y.g2
		}
		return x.p2 < y.p2
	})
	i.noteAssume("race analysis: accesses are recorded at memory-cell granularity on one sequential run; mutexes protect (write mode needed on one side); ordering by other synchronisation is decided by the solver on the schedule model")
	for _, k := range keys {
		if i.bothOrders(t, k.g1, k.p1, k.g2, k.p2) {
			i.raise("check", "data-race", cand[k], i.model)
		}
	}
	i.pathReach["race-analysis-done"]++
	i.reach["race-analysis-done"]++
}

// bothOrders builds the partial-order model with two extra access events and asks for both orders.
func (i *interpreter) bothOrders(t *traceState, g1, p1, g2, p2 int) bool {
	// copy the threads with the pseudo events inserted
	cp := &traceState{semCap: t.semCap}
	idx := map[[2]int]int{} // (thread, old event index) -> new index
	for ti, th := range t.threads {
		nt := &schedThread{parent: th.parent, spawnIdx: th.spawnIdx}
		for j := 0; j <= len(th.events); j++ {
			if ti == g1 && j == p1 {
				nt.events = append(nt.events, schedEvent{kind: "access:a"})
			}
			if ti == g2 && j == p2 {
				nt.events = append(nt.events, schedEvent{kind: "access:b"})
			}
			if j < len(th.events) {
				idx[[2]int{ti, j}] = len(nt.events)
				nt.events = append(nt.events, th.events[j])
			}
		}
		cp.threads = append(cp.threads, nt)
	}
	for _, th := range cp.threads {
		if th.parent >= 0 {
			th.spawnIdx = idx[[2]int{th.parent, th.spawnIdx}]
		}
	}
	m := i.poBuild(cp, 0, false)
	A, B := m.accA, m.accB
	if A == nil || B == nil {
		panic("race model: access events lost")
	}
	base := append(append([]Lit{}, i.pc...), Lit{m.valid, false}, Lit{m.full, false})
	v1, _ := i.solver.CheckOneShot(append(append([]Lit{}, base...), Lit{i.tt.Bin(OpUlt, A, B), false}), 300000)
	if v1 != Sat {
		if v1 == Unknown {
			i.raise("unknown", "data-race", "solver answered unknown on a race query", i.model)
		}
		return false
	}
	v2, _ := i.solver.CheckOneShot(append(append([]Lit{}, base...), Lit{i.tt.Bin(OpUlt, B, A), false}), 300000)
	if v2 == Unknown {
		i.raise("unknown", "data-race", "solver answered unknown on a race query", i.model)
	}
	return v2 == Sat
}
