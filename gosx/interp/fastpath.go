package interp

// Byte-domain fast path for branch feasibility (not for obligations): a
// condition whose support is a single 8-bit variable is evaluated for all 256
// values once (cached per term); the path keeps, per byte variable, the set of
// values allowed by the single-variable literals of the path condition. If no
// multi-variable literal mentions the variable this set is exact, so both
// sides' feasibility and a witness model are read off the bitmaps without a
// solver round trip (constraint independence, as in KLEE). With a
// multi-variable literal on the variable only "infeasible" is trusted.

type byteSet [4]uint64

func (b *byteSet) has(v uint8) bool { return b[v>>6]&(1<<(v&63)) != 0 }
func (b *byteSet) empty() bool      { return b[0]|b[1]|b[2]|b[3] == 0 }
func (b byteSet) and(o byteSet) byteSet {
	return byteSet{b[0] & o[0], b[1] & o[1], b[2] & o[2], b[3] & o[3]}
}
func (b byteSet) not() byteSet { return byteSet{^b[0], ^b[1], ^b[2], ^b[3]} }
func (b *byteSet) first() uint8 {
	for k := 0; k < 256; k++ {
		if b.has(uint8(k)) {
			return uint8(k)
		}
	}
	return 0
}

var fullByteSet = byteSet{^uint64(0), ^uint64(0), ^uint64(0), ^uint64(0)}

const (
	supUnknown = -2
	supNone    = -1
	supMany    = -3
)

// support returns the single variable term t depends on, or supNone / supMany.
func (t *Term) support() *Term {
	if t.supDone {
		return t.sup
	}
	t.supDone = true
	switch t.op {
	case OpConst:
		t.sup = nil
	case OpVar:
		t.sup = t
	default:
		var cur *Term
		many := false
		for _, x := range []*Term{t.a, t.b, t.c} {
			if x == nil {
				continue
			}
			s := x.support()
			if x.supMany {
				many = true
				break
			}
			if s != nil {
				if cur == nil {
					cur = s
				} else if cur != s {
					many = true
					break
				}
			}
		}
		if many {
			t.supMany = true
			t.sup = nil
		} else {
			t.sup = cur
		}
	}
	return t.sup
}

// vars appends the variables of t (deduplicated through seen).
func (t *Term) vars(seen map[*Term]bool, out *[]*Term) {
	if t == nil || seen[t] {
		return
	}
	seen[t] = true
	if t.op == OpVar {
		*out = append(*out, t)
		return
	}
	t.a.vars(seen, out)
	t.b.vars(seen, out)
	t.c.vars(seen, out)
}

// byteBitmap: for a boolean term over one 8-bit variable, the set of values
// making it true.
func (t *Term) byteBitmap() (*Term, *byteSet) {
	if t.w != 0 {
		return nil, nil
	}
	v := t.support()
	if v == nil || t.supMany || v.w != 8 {
		return nil, nil
	}
	if t.bm != nil {
		return v, t.bm
	}
	var bm byteSet
	m := make(Model, v.val+1)
	for k := 0; k < 256; k++ {
		m[v.val] = uint64(k)
		if t.Eval(m) != 0 {
			bm[k>>6] |= 1 << (uint(k) & 63)
		}
	}
	t.bm = &bm
	return v, t.bm
}

// An atom restricts one byte variable to a set; a clause is a disjunction of
// atoms. A literal whose boolean skeleton (and/or/not) over single-byte-variable
// leaves converts to a few clauses is handled exactly: unit clauses narrow the
// domains, longer ones are kept and decided by a small complete search.
type domAtom struct {
	v *Term
	s byteSet
}
type domClause []domAtom

const maxClauseProduct = 16

// toClauses converts (t, neg) to CNF over byte atoms, or fails.
func toClauses(t *Term, neg bool) ([]domClause, bool) {
	if v, bm := t.byteBitmap(); v != nil {
		s := *bm
		if neg {
			s = s.not()
		}
		return []domClause{{domAtom{v, s}}}, true
	}
	if t.w != 0 {
		return nil, false
	}
	switch t.op {
	case OpConst:
		if (t.val != 0) != neg {
			return nil, true
		}
		return []domClause{{}}, true
	case OpNot:
		return toClauses(t.a, !neg)
	case OpAnd, OpOr:
		ca, ok := toClauses(t.a, neg)
		if !ok {
			return nil, false
		}
		cb, ok := toClauses(t.b, neg)
		if !ok {
			return nil, false
		}
		if (t.op == OpAnd) != neg {
			return append(append([]domClause{}, ca...), cb...), true
		}
		if len(ca)*len(cb) > maxClauseProduct {
			return nil, false
		}
		var out []domClause
		for _, x := range ca {
			for _, y := range cb {
				out = append(out, mergeClause(x, y))
			}
		}
		return out, true
	}
	return nil, false
}

func mergeClause(x, y domClause) domClause {
	out := append(domClause{}, x...)
outer:
	for _, a := range y {
		for k := range out {
			if out[k].v == a.v {
				o := out[k].s
				out[k].s = byteSet{o[0] | a.s[0], o[1] | a.s[1], o[2] | a.s[2], o[3] | a.s[3]}
				continue outer
			}
		}
		out = append(out, a)
	}
	return out
}

type domState struct {
	dom     map[*Term]byteSet
	multi   map[*Term]bool
	clauses []domClause
}

func (d *domState) reset() {
	d.dom = map[*Term]byteSet{}
	d.multi = map[*Term]bool{}
	d.clauses = d.clauses[:0]
}

func (d *domState) get(v *Term) byteSet {
	if s, ok := d.dom[v]; ok {
		return s
	}
	return fullByteSet
}

// note records a literal pushed onto the path condition.
func (d *domState) note(t *Term, neg bool) {
	if cs, ok := toClauses(t, neg); ok {
		for _, c := range cs {
			if len(c) == 1 {
				d.dom[c[0].v] = d.get(c[0].v).and(c[0].s)
			} else {
				d.clauses = append(d.clauses, c)
			}
		}
		return
	}
	var vs []*Term
	t.vars(map[*Term]bool{}, &vs)
	for _, v := range vs {
		d.multi[v] = true
	}
}

type domAssign struct {
	v   *Term
	val uint8
}

// solve: is there an assignment within the domains satisfying every clause?
// Complete backtracking over the clauses (budgeted); returns the narrowed domains.
func domSolve(dom map[*Term]byteSet, clauses []domClause, budget *int) (map[*Term]byteSet, int) {
	get := func(v *Term) byteSet {
		if s, ok := dom[v]; ok {
			return s
		}
		return fullByteSet
	}
	for k, c := range clauses {
		// already satisfied for every value of some atom's domain?
		sat := false
		for _, a := range c {
			dv := get(a.v)
			out := dv.and(a.s.not())
			if out.empty() && !dv.empty() {
				sat = true
				break
			}
		}
		if sat {
			continue
		}
		rest := clauses[k+1:]
		for _, a := range c {
			nd := get(a.v).and(a.s)
			if nd.empty() {
				continue
			}
			*budget--
			if *budget < 0 {
				return nil, -1
			}
			d2 := make(map[*Term]byteSet, len(dom)+1)
			for kk, vv := range dom {
				d2[kk] = vv
			}
			d2[a.v] = nd
			if r, ok := domSolve(d2, rest, budget); ok == 1 {
				return r, 1
			} else if ok < 0 {
				return nil, -1
			}
		}
		return nil, 0
	}
	return dom, 1
}

// fastSide reports whether the literal (t, neg) is feasible together with the
// path condition: 1 yes (with the variables to change in the current model),
// 0 no, -1 unknown (ask the solver).
func (d *domState) fastSide(t *Term, neg bool, model Model) (int, []domAssign) {
	cs, ok := toClauses(t, neg)
	if !ok {
		return -1, nil
	}
	dom := make(map[*Term]byteSet, len(d.dom)+2)
	for k, v := range d.dom {
		dom[k] = v
	}
	var long []domClause
	for _, c := range cs {
		if len(c) == 0 {
			return 0, nil
		}
		if len(c) == 1 {
			v := c[0].v
			cur, ok := dom[v]
			if !ok {
				cur = fullByteSet
			}
			nd := cur.and(c[0].s)
			if nd.empty() {
				return 0, nil
			}
			dom[v] = nd
		} else {
			long = append(long, c)
		}
	}
	all := long
	if len(d.clauses) > 0 {
		all = append(append([]domClause{}, d.clauses...), long...)
	}
	budget := 4000
	res, verdict := domSolve(dom, all, &budget)
	if verdict < 0 {
		return -1, nil
	}
	if verdict == 0 {
		// the single-variable literals and clauses are implied by the path condition: infeasible
		return 0, nil
	}
	// witness: keep the model's value where allowed, change it otherwise; a change to a
	// variable that a non-decomposable literal mentions cannot be trusted
	var out []domAssign
	for v, s := range res {
		var cur uint8
		if v.val < uint64(len(model)) {
			cur = uint8(model[v.val])
		}
		if s.has(cur) {
			continue
		}
		if d.multi[v] {
			return -1, nil
		}
		out = append(out, domAssign{v, s.first()})
	}
	return 1, out
}
