package interp

// Byte-domain fast path for branch feasibility (not for obligations): a
// condition whose support is a single 8-bit variable is evaluated for all 256
// values once (cached per term); the path keeps, per byte variable, the set of
// values allowed by the single-variable literals of the path condition. If no
// multi-variable literal mentions the variable this set is exact, so both
// sides' feasibility and a witness model are read off the bitmaps without a
// solver round trip (constraint independence, as in KLEE). With a
// multi-variable literal on the variable only "infeasible" is trusted.

type byteSet [4]uint64

func (b *byteSet) has(v uint8) bool { return b[v>>6]&(1<<(v&63)) != 0 }
func (b *byteSet) empty() bool      { return b[0]|b[1]|b[2]|b[3] == 0 }
func (b byteSet) and(o byteSet) byteSet {
	return byteSet{b[0] & o[0], b[1] & o[1], b[2] & o[2], b[3] & o[3]}
}
func (b byteSet) not() byteSet { return byteSet{^b[0], ^b[1], ^b[2], ^b[3]} }
func (b *byteSet) first() uint8 {
	for k := 0; k < 256; k++ {
		if b.has(uint8(k)) {
			return uint8(k)
		}
	}
	return 0
}

var fullByteSet = byteSet{^uint64(0), ^uint64(0), ^uint64(0), ^uint64(0)}

const (
	supUnknown = -2
	supNone    = -1
	supMany    = -3
)

// support returns the single variable term t depends on, or supNone / supMany.
func (t *Term) support() *Term {
	if t.supDone {
		return t.sup
	}
	t.supDone = true
	switch t.op {
	case OpConst:
		t.sup = nil
	case OpVar:
		t.sup = t
	default:
		var cur *Term
		many := false
		for _, x := range []*Term{t.a, t.b, t.c} {
			if x == nil {
				continue
			}
			s := x.support()
			if x.supMany {
				many = true
				break
			}
			if s != nil {
				if cur == nil {
					cur = s
				} else if cur != s {
					many = true
					break
				}
			}
		}
		if many {
			t.supMany = true
			t.sup = nil
		} else {
			t.sup = cur
		}
	}
	return t.sup
}

// vars appends the variables of t (deduplicated through seen).
func (t *Term) vars(seen map[*Term]bool, out *[]*Term) {
	if t == nil || seen[t] {
		return
	}
	seen[t] = true
	if t.op == OpVar {
		*out = append(*out, t)
		return
	}
	t.a.vars(seen, out)
	t.b.vars(seen, out)
	t.c.vars(seen, out)
}

// byteBitmap: for a boolean term over one 8-bit variable, the set of values
// making it true.
func (t *Term) byteBitmap() (*Term, *byteSet) {
	if t.w != 0 {
		return nil, nil
	}
	v := t.support()
	if v == nil || t.supMany || v.w != 8 {
		return nil, nil
	}
	if t.bm != nil {
		return v, t.bm
	}
	var bm byteSet
	m := make(Model, v.val+1)
	for k := 0; k < 256; k++ {
		m[v.val] = uint64(k)
		if t.Eval(m) != 0 {
			bm[k>>6] |= 1 << (uint(k) & 63)
		}
	}
	t.bm = &bm
	return v, t.bm
}

type domState struct {
	dom   map[*Term]byteSet
	multi map[*Term]bool
}

func (d *domState) reset() {
	d.dom = map[*Term]byteSet{}
	d.multi = map[*Term]bool{}
}

func (d *domState) get(v *Term) byteSet {
	if s, ok := d.dom[v]; ok {
		return s
	}
	return fullByteSet
}

// note records a literal pushed onto the path condition.
func (d *domState) note(t *Term, neg bool) {
	if v, bm := t.byteBitmap(); v != nil {
		s := *bm
		if neg {
			s = s.not()
		}
		d.dom[v] = d.get(v).and(s)
		return
	}
	var vs []*Term
	t.vars(map[*Term]bool{}, &vs)
	for _, v := range vs {
		d.multi[v] = true
	}
}

// fastSide reports whether the literal (t, neg) is feasible: 1 yes (with the
// value to give the variable), 0 no, -1 unknown (ask the solver).
func (d *domState) fastSide(t *Term, neg bool) (int, *Term, uint8) {
	v, bm := t.byteBitmap()
	if v == nil {
		return -1, nil, 0
	}
	s := *bm
	if neg {
		s = s.not()
	}
	s = s.and(d.get(v))
	if s.empty() {
		return 0, v, 0
	}
	if d.multi[v] {
		return -1, v, 0
	}
	return 1, v, s.first()
}
