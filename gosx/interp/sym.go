package interp

import (
	"fmt"
	"go/token"
	"go/types"
)

// Sym is a symbolic scalar of Go basic kind k (Bool or an integer kind).
type Sym struct {
	t *Term
	k types.BasicKind
}

func (s *Sym) String() string { return fmt.Sprintf("sym<%s>%s", types.Typ[s.k], s.t) }

func kindWidth(k types.BasicKind) (w int, signed bool) {
	switch k {
	case types.Bool, types.UntypedBool:
		return 0, false
	case types.Int8:
		return 8, true
	case types.Uint8:
		return 8, false
	case types.Int16:
		return 16, true
	case types.Uint16:
		return 16, false
	case types.Int32, types.UntypedRune:
		return 32, true
	case types.Uint32:
		return 32, false
	case types.Int, types.Int64, types.UntypedInt:
		return 64, true
	case types.Uint, types.Uint64, types.Uintptr:
		return 64, false
	}
	panic(unsupported{fmt.Sprintf("kindWidth: kind %v", k)})
}

func basicKind(t types.Type) types.BasicKind {
	b, ok := t.Underlying().(*types.Basic)
	if !ok {
		panic(unsupported{"basicKind of " + t.String()})
	}
	k := b.Kind()
	switch k {
	case types.UntypedBool:
		return types.Bool
	case types.UntypedInt:
		return types.Int
	case types.UntypedRune:
		return types.Int32
	}
	return k
}

// concKind returns the basic kind of a concrete scalar value.
func concKind(v value) (types.BasicKind, uint64, bool) {
	switch x := v.(type) {
	case bool:
		return types.Bool, b2u(x), true
	case int:
		return types.Int, uint64(x), true
	case int8:
		return types.Int8, uint64(x), true
	case int16:
		return types.Int16, uint64(x), true
	case int32:
		return types.Int32, uint64(x), true
	case int64:
		return types.Int64, uint64(x), true
	case uint:
		return types.Uint, uint64(x), true
	case uint8:
		return types.Uint8, uint64(x), true
	case uint16:
		return types.Uint16, uint64(x), true
	case uint32:
		return types.Uint32, uint64(x), true
	case uint64:
		return types.Uint64, x, true
	case uintptr:
		return types.Uintptr, uint64(x), true
	}
	return 0, 0, false
}

// mkConc builds the concrete Go value of kind k from raw bits.
func mkConc(k types.BasicKind, v uint64) value {
	switch k {
	case types.Bool:
		return v != 0
	case types.Int:
		return int(v)
	case types.Int8:
		return int8(v)
	case types.Int16:
		return int16(v)
	case types.Int32:
		return int32(v)
	case types.Int64:
		return int64(v)
	case types.Uint:
		return uint(v)
	case types.Uint8:
		return uint8(v)
	case types.Uint16:
		return uint16(v)
	case types.Uint32:
		return uint32(v)
	case types.Uint64:
		return v
	case types.Uintptr:
		return uintptr(v)
	}
	panic(unsupported{fmt.Sprintf("mkConc kind %v", k)})
}

// mkSym wraps a term; constants collapse to concrete values.
func mkSym(t *Term, k types.BasicKind) value {
	if t.op == OpConst {
		w, _ := kindWidth(k)
		v := t.val
		if w > 0 {
			_, signed := kindWidth(k)
			if signed {
				v = uint64(sext64(v, w))
			}
		}
		return mkConc(k, v)
	}
	return &Sym{t, k}
}

// termOf lifts a scalar (concrete or symbolic) to a term.
func (i *interpreter) termOf(v value) (*Term, types.BasicKind) {
	if s, ok := v.(*Sym); ok {
		return s.t, s.k
	}
	k, bits, ok := concKind(v)
	if !ok {
		panic(unsupported{fmt.Sprintf("termOf %T", v)})
	}
	w, _ := kindWidth(k)
	return i.tt.Const(w, bits), k
}

func isSym(v value) bool { _, ok := v.(*Sym); return ok }

func (i *interpreter) symBinop(op token.Token, x, y value) value {
	tt := i.tt
	xt, xk := i.termOf(x)
	yt, yk := i.termOf(y)
	w, signed := kindWidth(xk)
	if xk == types.Bool {
		switch op {
		case token.EQL:
			return mkSym(tt.Eq(xt, yt), types.Bool)
		case token.NEQ:
			return mkSym(tt.Not(tt.Eq(xt, yt)), types.Bool)
		case token.AND, token.LAND:
			return mkSym(tt.And(xt, yt), types.Bool)
		case token.OR, token.LOR:
			return mkSym(tt.Or(xt, yt), types.Bool)
		}
		panic(unsupported{"bool binop " + op.String()})
	}
	switch op {
	case token.SHL, token.SHR:
		yw, _ := kindWidth(yk)
		// bring the count to the width of x, saturating
		switch {
		case yw < w:
			yt = tt.Zext(yt, w)
		case yw > w:
			big := tt.Bin(OpUle, tt.Const(yw, uint64(w)), yt)
			yt = tt.Ite(big, tt.Const(w, uint64(w)), tt.Extract(yt, 0, w))
		}
		switch {
		case op == token.SHL:
			return mkSym(tt.Bin(OpShl, xt, yt), xk)
		case signed:
			return mkSym(tt.Bin(OpAshr, xt, yt), xk)
		default:
			return mkSym(tt.Bin(OpLshr, xt, yt), xk)
		}
	}
	if xt.w != yt.w {
		panic(unsupported{fmt.Sprintf("symBinop width mismatch %v %v", xk, yk)})
	}
	pick := func(s, u Op) Op {
		if signed {
			return s
		}
		return u
	}
	switch op {
	case token.ADD:
		return mkSym(tt.Bin(OpAdd, xt, yt), xk)
	case token.SUB:
		return mkSym(tt.Bin(OpSub, xt, yt), xk)
	case token.MUL:
		return mkSym(tt.Bin(OpMul, xt, yt), xk)
	case token.QUO, token.REM:
		if i.decide(tt.Eq(yt, tt.Const(w, 0))) {
			panic(runtimeError("integer divide by zero"))
		}
		if op == token.QUO {
			return mkSym(tt.Bin(pick(OpSDiv, OpUDiv), xt, yt), xk)
		}
		return mkSym(tt.Bin(pick(OpSRem, OpURem), xt, yt), xk)
	case token.AND:
		return mkSym(tt.Bin(OpBAnd, xt, yt), xk)
	case token.OR:
		return mkSym(tt.Bin(OpBOr, xt, yt), xk)
	case token.XOR:
		return mkSym(tt.Bin(OpBXor, xt, yt), xk)
	case token.AND_NOT:
		return mkSym(tt.Bin(OpBAnd, xt, tt.Un(OpBNot, yt)), xk)
	case token.EQL:
		return mkSym(tt.Eq(xt, yt), types.Bool)
	case token.NEQ:
		return mkSym(tt.Not(tt.Eq(xt, yt)), types.Bool)
	case token.LSS:
		return mkSym(tt.Bin(pick(OpSlt, OpUlt), xt, yt), types.Bool)
	case token.LEQ:
		return mkSym(tt.Bin(pick(OpSle, OpUle), xt, yt), types.Bool)
	case token.GTR:
		return mkSym(tt.Bin(pick(OpSlt, OpUlt), yt, xt), types.Bool)
	case token.GEQ:
		return mkSym(tt.Bin(pick(OpSle, OpUle), yt, xt), types.Bool)
	}
	panic(unsupported{"symBinop " + op.String()})
}

func (i *interpreter) symUnop(op token.Token, x *Sym) value {
	tt := i.tt
	switch op {
	case token.NOT:
		return mkSym(tt.Not(x.t), types.Bool)
	case token.SUB:
		return mkSym(tt.Un(OpNeg, x.t), x.k)
	case token.XOR:
		return mkSym(tt.Un(OpBNot, x.t), x.k)
	}
	panic(unsupported{"symUnop " + op.String()})
}

// symConv converts a symbolic integer to another integer kind.
func (i *interpreter) symConv(dst types.Type, x *Sym) value {
	b, ok := dst.Underlying().(*types.Basic)
	if !ok {
		panic(unsupported{"symConv to " + dst.String()})
	}
	if b.Info()&types.IsString != 0 {
		// string(rune): UTF-8 encoding of a symbolic code point
		return i.symRuneToString(x)
	}
	if b.Info()&types.IsInteger == 0 {
		panic(unsupported{"symConv to " + dst.String()})
	}
	dk := basicKind(dst)
	dw, _ := kindWidth(dk)
	sw, ssigned := kindWidth(x.k)
	t := x.t
	switch {
	case dw == sw:
	case dw < sw:
		t = i.tt.Extract(t, 0, dw)
	case ssigned:
		t = i.tt.Sext(t, dw)
	default:
		t = i.tt.Zext(t, dw)
	}
	return mkSym(t, dk)
}

// boolTerm lifts a bool value (concrete or symbolic) to a term.
func (i *interpreter) boolTerm(v value) *Term {
	switch x := v.(type) {
	case bool:
		return i.tt.Bool(x)
	case *Sym:
		if x.k != types.Bool {
			panic(unsupported{"boolTerm of non-bool sym"})
		}
		return x.t
	}
	panic(unsupported{fmt.Sprintf("boolTerm %T", v)})
}

// truth forces a (possibly symbolic) bool to a concrete one by a decision.
func (i *interpreter) truth(v value) bool {
	switch x := v.(type) {
	case bool:
		return x
	case *Sym:
		return i.decide(x.t)
	}
	panic(unsupported{fmt.Sprintf("truth %T", v)})
}

// concInt forces a (possibly symbolic) integer to a concrete int64 in
// [lo, hi] by one k-ary decision: the model's value is followed, every other
// feasible value (and the out-of-range side) is queued as an alternative.
func (i *interpreter) concInt(v value, lo, hi int64) (int64, bool) {
	s, ok := v.(*Sym)
	if !ok {
		n := asInt64(v)
		return n, n >= lo && n <= hi
	}
	if i.summ != nil {
		panic(unsupported{"value concretisation inside a summarised function"})
	}
	w, signed := kindWidth(s.k)
	tt := i.tt
	cst := func(n int64) *Term { return tt.Const(w, uint64(n)) }
	var inRange *Term
	if signed {
		inRange = tt.And(tt.Bin(OpSle, cst(lo), s.t), tt.Bin(OpSle, s.t, cst(hi)))
	} else {
		if lo < 0 {
			lo = 0
		}
		inRange = tt.And(tt.Bin(OpUle, cst(lo), s.t), tt.Bin(OpUle, s.t, cst(hi)))
	}
	val := func(m Model) int64 {
		mv := s.t.Eval(m)
		if signed {
			return sext64(mv, w)
		}
		return int64(mv)
	}
	n := len(i.taken)
	var chosen int64
	if n < len(i.prefix) {
		chosen = i.prefix[n]
	} else {
		cur := val(i.model)
		chosen = cur
		if cur < lo || cur > hi {
			chosen = outOfRange
		}
		push := func(v int64, m Model) {
			alt := make([]int64, n+1)
			copy(alt, i.taken)
			alt[n] = v
			i.newWork = append(i.newWork, workItem{alt, m})
			i.stats.Forks++
		}
		lits := append(append([]Lit{}, i.pc...), Lit{inRange, false})
		if chosen != outOfRange {
			lits = append(lits, Lit{tt.Eq(s.t, cst(chosen)), true})
		}
		for k := 0; k < 1<<16; k++ {
			vd, m := i.solver.Check(lits)
			if vd == Unknown {
				i.stats.UnknownBranch++
			}
			if vd != Sat {
				break
			}
			nv := val(m)
			push(nv, m)
			lits = append(lits, Lit{tt.Eq(s.t, cst(nv)), true})
		}
		if chosen != outOfRange {
			vd, m := i.solver.Check(append(append([]Lit{}, i.pc...), Lit{inRange, true}))
			switch vd {
			case Sat:
				push(outOfRange, m)
			case Unknown:
				i.stats.UnknownBranch++
			}
		}
	}
	i.taken = append(i.taken, chosen)
	i.stats.Decisions++
	if chosen == outOfRange {
		i.pushPC(inRange, true)
		return 0, false
	}
	i.pushPC(tt.Eq(s.t, cst(chosen)), false)
	return chosen, true
}

type runtimeError string

func (e runtimeError) Error() string { return "runtime error: " + string(e) }
func (e runtimeError) RuntimeError() {}

// unsupported ends a path without a verdict.
type unsupported struct{ msg string }
