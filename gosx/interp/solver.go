package interp

// One long-lived SMT solver process per worker, spoken to over a pipe.
// All definitions live at assertion level 0; queries are
// (check-sat-assuming (lit ...)) over named literals p<id> <=> term.

import (
	"bufio"
	"fmt"
	"io"
	"os/exec"
	"strings"
	"time"
)

type Verdict int

const (
	Unsat Verdict = iota
	Sat
	Unknown
)

func (v Verdict) String() string { return [...]string{"unsat", "sat", "unknown"}[v] }

type SolverStats struct {
	Queries  int
	Sat      int
	Unsat    int
	Unknown  int
	Errors   int
	Restarts int
	Seconds  float64
}

func (s *SolverStats) add(o SolverStats) {
	s.Queries += o.Queries
	s.Sat += o.Sat
	s.Unsat += o.Unsat
	s.Unknown += o.Unknown
	s.Errors += o.Errors
	s.Restarts += o.Restarts
	s.Seconds += o.Seconds
}

type Solver struct {
	argv      []string
	cmd       *exec.Cmd
	in        io.WriteCloser
	out       *bufio.Reader
	epoch     int32
	ndefs     int
	declared  int // number of tt.vars declared in this epoch
	tt        *TermTab
	Stats     SolverStats
	TimeoutMs int
	buf       strings.Builder
	Log       io.Writer
}

// SolverArgv maps a solver name to its command line.
func SolverArgv(name string) []string {
	switch name {
	case "z3", "":
		return []string{"z3", "-in"}
	case "z3-new":
		return []string{"z3-new", "-in"}
	case "cvc5":
		return []string{"cvc5", "--incremental", "--produce-models", "--lang=smt2"}
	}
	return strings.Fields(name)
}

func NewSolver(tt *TermTab, argv []string) *Solver {
	s := &Solver{argv: argv, tt: tt, TimeoutMs: 10000}
	s.start()
	return s
}

func (s *Solver) start() {
	s.epoch++
	s.ndefs = 0
	s.declared = 0
	s.cmd = exec.Command(s.argv[0], s.argv[1:]...)
	in, err := s.cmd.StdinPipe()
	if err != nil {
		panic(err)
	}
	out, err := s.cmd.StdoutPipe()
	if err != nil {
		panic(err)
	}
	s.cmd.Stderr = nil
	if err := s.cmd.Start(); err != nil {
		panic(fmt.Sprintf("cannot start solver %v: %v", s.argv, err))
	}
	s.in = in
	s.out = bufio.NewReaderSize(out, 1<<16)
	s.send("(set-option :produce-models true)\n")
	if strings.HasPrefix(s.argv[0], "z3") {
		s.send(fmt.Sprintf("(set-option :timeout %d)\n", s.TimeoutMs))
	} else {
		s.send(fmt.Sprintf("(set-option :tlimit-per %d)\n(set-logic ALL)\n", s.TimeoutMs))
	}
}

func (s *Solver) Close() {
	if s.cmd != nil {
		s.in.Close()
		s.cmd.Process.Kill()
		s.cmd.Wait()
		s.cmd = nil
	}
}

func (s *Solver) restart() {
	s.Close()
	s.Stats.Restarts++
	s.start()
}

func (s *Solver) send(txt string) {
	if s.Log != nil {
		io.WriteString(s.Log, txt)
	}
	if _, err := io.WriteString(s.in, txt); err != nil {
		panic(fmt.Sprintf("solver pipe: %v", err))
	}
}

// define emits declarations / define-funs for everything t depends on.
func (s *Solver) define(t *Term) {
	switch t.op {
	case OpConst:
		return
	case OpVar:
		return // declared by declareVars
	}
	if t.defined == s.epoch {
		return
	}
	for _, x := range []*Term{t.a, t.b, t.c} {
		if x != nil {
			s.define(x)
		}
	}
	t.defined = s.epoch
	s.ndefs++
	fmt.Fprintf(&s.buf, "(define-fun t%d () %s %s)\n", t.id, sortOf(int(t.w)), t.body())
}

func (s *Solver) declareVars() {
	for ; s.declared < len(s.tt.vars); s.declared++ {
		v := s.tt.vars[s.declared]
		fmt.Fprintf(&s.buf, "(declare-const %s %s)\n", v.name, sortOf(int(v.w)))
	}
}

// lit returns the name of a level-0 boolean constant equivalent to t.
func (s *Solver) lit(t *Term) string {
	if t.op == OpVar {
		return t.name
	}
	if t.atom != s.epoch {
		s.define(t)
		t.atom = s.epoch
		fmt.Fprintf(&s.buf, "(declare-const p%d Bool)\n(assert (= p%d %s))\n", t.id, t.id, t.ref())
	}
	return fmt.Sprintf("p%d", t.id)
}

// Lit is a possibly negated boolean term.
type Lit struct {
	T   *Term
	Neg bool
}

// Check decides satisfiability of the conjunction of lits. On Sat the model of
// all variables declared so far is returned.
func (s *Solver) Check(lits []Lit) (Verdict, Model) {
	if s.ndefs > 20000 {
		s.restart()
	}
	t0 := time.Now()
	s.buf.Reset()
	s.declareVars()
	names := make([]string, 0, len(lits))
	for _, l := range lits {
		if l.T.op == OpConst {
			if (l.T.val != 0) == l.Neg {
				// literally false
				return Unsat, nil
			}
			continue
		}
		n := s.lit(l.T)
		if l.Neg {
			n = "(not " + n + ")"
		}
		names = append(names, n)
	}
	s.buf.WriteString("(check-sat-assuming (" + strings.Join(names, " ") + "))\n")
	s.send(s.buf.String())
	s.Stats.Queries++
	line := s.readLine()
	var v Verdict
	switch line {
	case "sat":
		v = Sat
		s.Stats.Sat++
	case "unsat":
		v = Unsat
		s.Stats.Unsat++
	case "unknown", "timeout":
		v = Unknown
		s.Stats.Unknown++
	default:
		// error or garbage: inconclusive; restart to resynchronise
		s.Stats.Errors++
		s.Stats.Unknown++
		if s.Log != nil {
			fmt.Fprintf(s.Log, "; solver said: %s\n", line)
		}
		s.restart()
		s.Stats.Seconds += time.Since(t0).Seconds()
		return Unknown, nil
	}
	var m Model
	if v == Sat {
		m = s.model()
	}
	s.Stats.Seconds += time.Since(t0).Seconds()
	return v, m
}

func (s *Solver) readLine() string {
	for {
		line, err := s.out.ReadString('\n')
		if err != nil {
			return "(error \"eof: " + err.Error() + "\")"
		}
		line = strings.TrimSpace(line)
		if line != "" {
			return line
		}
	}
}

// model reads the values of all declared variables.
func (s *Solver) model() Model {
	n := s.declared
	var maxIdx uint64
	for i := 0; i < n; i++ {
		if s.tt.vars[i].val > maxIdx {
			maxIdx = s.tt.vars[i].val
		}
	}
	m := make(Model, maxIdx+1)
	if n == 0 {
		return m
	}
	var sb strings.Builder
	sb.WriteString("(get-value (")
	for i := 0; i < n; i++ {
		sb.WriteString(s.tt.vars[i].name)
		sb.WriteByte(' ')
	}
	sb.WriteString("))\n")
	s.send(sb.String())
	// read a balanced s-expression
	depth := 0
	var txt strings.Builder
	started := false
	for !started || depth > 0 {
		b, err := s.out.ReadByte()
		if err != nil {
			panic("solver eof in get-value")
		}
		switch b {
		case '(':
			depth++
			started = true
		case ')':
			depth--
		}
		txt.WriteByte(b)
	}
	toks := strings.FieldsFunc(txt.String(), func(r rune) bool { return r == '(' || r == ')' || r == ' ' || r == '\n' || r == '\r' || r == '\t' })
	idx := map[string]int{}
	for i := 0; i < n; i++ {
		idx[s.tt.vars[i].name] = i
	}
	for i := 0; i+1 < len(toks); i++ {
		vi, ok := idx[toks[i]]
		if !ok {
			continue
		}
		val := toks[i+1]
		var x uint64
		switch {
		case val == "true":
			x = 1
		case val == "false":
			x = 0
		case strings.HasPrefix(val, "#x"):
			fmt.Sscanf(val[2:], "%x", &x)
		case strings.HasPrefix(val, "#b"):
			fmt.Sscanf(val[2:], "%b", &x)
		case val == "_" && i+2 < len(toks) && strings.HasPrefix(toks[i+2], "bv"):
			fmt.Sscanf(toks[i+2][2:], "%d", &x)
			i += 2
		}
		m[s.tt.vars[vi].val] = x
		i++
	}
	return m
}

// CheckOneShot decides the conjunction in a fresh, non-incremental solver
// process (assert + check-sat): the solver then chooses its bit-blasting
// tactic, which decides bounded-model-checking style queries that the
// incremental core does not finish.
func (s *Solver) CheckOneShot(lits []Lit, timeoutMs int) (Verdict, Model) {
	t0 := time.Now()
	defer func() { s.Stats.Seconds += time.Since(t0).Seconds() }()
	var sb strings.Builder
	sb.WriteString("(set-option :produce-models true)\n")
	if strings.HasPrefix(s.argv[0], "z3") {
		fmt.Fprintf(&sb, "(set-option :timeout %d)\n", timeoutMs)
	} else {
		fmt.Fprintf(&sb, "(set-option :tlimit-per %d)\n", timeoutMs)
	}
	sb.WriteString("(set-logic QF_BV)\n")
	nvars := len(s.tt.vars)
	for k := 0; k < nvars; k++ {
		v := s.tt.vars[k]
		fmt.Fprintf(&sb, "(declare-const %s %s)\n", v.name, sortOf(int(v.w)))
	}
	seen := map[*Term]bool{}
	var def func(t *Term)
	def = func(t *Term) {
		if t == nil || t.op == OpConst || t.op == OpVar || seen[t] {
			return
		}
		seen[t] = true
		def(t.a)
		def(t.b)
		def(t.c)
		fmt.Fprintf(&sb, "(define-fun t%d () %s %s)\n", t.id, sortOf(int(t.w)), t.body())
	}
	for _, l := range lits {
		if l.T.op == OpConst {
			if (l.T.val != 0) == l.Neg {
				return Unsat, nil
			}
			continue
		}
		def(l.T)
		if l.Neg {
			fmt.Fprintf(&sb, "(assert (not %s))\n", l.T.ref())
		} else {
			fmt.Fprintf(&sb, "(assert %s)\n", l.T.ref())
		}
	}
	sb.WriteString("(check-sat)\n")
	argv := s.argv
	if len(argv) > 0 && strings.HasPrefix(argv[0], "cvc5") {
		argv = []string{"cvc5", "--produce-models", "--lang=smt2", "--incremental"}
	}
	o := &Solver{argv: argv, tt: s.tt, TimeoutMs: timeoutMs}
	o.cmd = exec.Command(argv[0], argv[1:]...)
	in, err := o.cmd.StdinPipe()
	if err != nil {
		panic(err)
	}
	out, err := o.cmd.StdoutPipe()
	if err != nil {
		panic(err)
	}
	if err := o.cmd.Start(); err != nil {
		panic(fmt.Sprintf("cannot start solver %v: %v", argv, err))
	}
	o.in, o.out = in, bufio.NewReaderSize(out, 1<<16)
	defer o.Close()
	if s.Log != nil {
		io.WriteString(s.Log, "; ---- one-shot ----\n"+sb.String())
	}
	o.send(sb.String())
	s.Stats.Queries++
	switch o.readLine() {
	case "sat":
		s.Stats.Sat++
		o.declared = nvars
		return Sat, o.model()
	case "unsat":
		s.Stats.Unsat++
		return Unsat, nil
	}
	s.Stats.Unknown++
	return Unknown, nil
}
