package interp

// Symbolic-aware versions of the value operations: strings with symbolic
// bytes, equality, conversion, slicing, memory writes with the old/frozen
// cell monitor, table reads with a symbolic index.

import (
	"fmt"
	"go/token"
	"go/types"
	"os"
	"runtime/debug"
	"strconv"
	"strings"
	"unicode/utf8"

	"golang.org/x/tools/go/ssa"
)

// SymStr is a string of concrete length whose bytes are uint8 or *Sym(Uint8).
type SymStr []value

func (s SymStr) String() string {
	var sb strings.Builder
	sb.WriteString("symstr\"")
	for _, b := range s {
		if c, ok := b.(uint8); ok {
			if c >= 0x20 && c < 0x7f {
				sb.WriteByte(c)
			} else {
				fmt.Fprintf(&sb, "\\x%02x", c)
			}
		} else {
			sb.WriteString("?")
		}
	}
	sb.WriteString("\"")
	return sb.String()
}

// Rope is a string of unknown length: a formatted message with symbolic parts.
type Rope struct{ parts []ropePart }

type ropePart struct {
	lit  string // literal text
	raw  SymStr // bytes echoed verbatim (%s / %v / concatenation)
	verb string // otherwise: a formatting verb applied to arg (%q, %d, %c ...)
	arg  value
}

func isStr(v value) bool {
	switch v.(type) {
	case string, SymStr, *Rope:
		return true
	}
	return false
}

func isSymbolic(v value) bool {
	switch v.(type) {
	case *Sym, SymStr, *Rope:
		return true
	}
	return false
}

// strBytes returns the bytes of a concrete-length string.
func strBytes(v value) []value {
	switch s := v.(type) {
	case SymStr:
		return []value(s)
	case string:
		r := make([]value, len(s))
		for i := 0; i < len(s); i++ {
			r[i] = s[i]
		}
		return r
	case *Rope:
		return strBytes(resolveRope(s))
	}
	panic(fmt.Sprintf("strBytes %T", v))
}

// ropeElem is a formatted chunk of unknown length sitting in a []byte buffer
// (strconv.AppendQuote of symbolic text).
type ropeElem struct{ r *Rope }

// mkStr normalises a byte vector: all-concrete becomes a Go string, buffers
// holding formatted chunks become a Rope.
func mkStr(bs []value) value {
	hasRope := false
	for _, b := range bs {
		if _, ok := b.(ropeElem); ok {
			hasRope = true
		}
	}
	if hasRope {
		out := &Rope{}
		var run []value
		flush := func() {
			if len(run) > 0 {
				out.parts = append(out.parts, ropeOf(mkStr(run)).parts...)
				run = nil
			}
		}
		for _, b := range bs {
			if re, ok := b.(ropeElem); ok {
				flush()
				out.parts = append(out.parts, re.r.parts...)
			} else {
				run = append(run, b)
			}
		}
		flush()
		return out
	}
	for _, b := range bs {
		if _, ok := b.(uint8); !ok {
			return SymStr(bs)
		}
	}
	buf := make([]byte, len(bs))
	for i, b := range bs {
		buf[i] = b.(uint8)
	}
	return string(buf)
}

func ropeOf(v value) *Rope {
	switch s := v.(type) {
	case *Rope:
		return s
	case string:
		return &Rope{[]ropePart{{lit: s}}}
	case SymStr:
		return &Rope{[]ropePart{{raw: s}}}
	}
	panic(fmt.Sprintf("ropeOf %T", v))
}

func (i *interpreter) strConcat(x, y value) value {
	if xs, ok := x.(string); ok {
		if ys, ok := y.(string); ok {
			return xs + ys
		}
		if xs == "" {
			return y
		}
	}
	if ys, ok := y.(string); ok && ys == "" {
		return x
	}
	_, xr := x.(*Rope)
	_, yr := y.(*Rope)
	if xr || yr {
		a, b := ropeOf(x), ropeOf(y)
		return &Rope{append(append([]ropePart{}, a.parts...), b.parts...)}
	}
	xb, yb := strBytes(x), strBytes(y)
	return mkStr(append(append(make([]value, 0, len(xb)+len(yb)), xb...), yb...))
}

// byteEq is the term b1 == b2 for two bytes (uint8 or *Sym).
func (i *interpreter) byteEq(a, b value) *Term {
	ac, aok := a.(uint8)
	bc, bok := b.(uint8)
	if aok && bok {
		return i.tt.Bool(ac == bc)
	}
	at, _ := i.termOf(a)
	bt, _ := i.termOf(b)
	return i.tt.Eq(at, bt)
}

// strEqTerm is the term x == y for strings of concrete length.
func (i *interpreter) strEqTerm(x, y value) *Term {
	if xs, ok := x.(string); ok {
		if ys, ok := y.(string); ok {
			return i.tt.Bool(xs == ys)
		}
	}
	xb, yb := strBytes(x), strBytes(y)
	if len(xb) != len(yb) {
		return i.tt.False
	}
	r := i.tt.True
	for k := range xb {
		r = i.tt.And(r, i.byteEq(xb[k], yb[k]))
		if r.IsFalse() {
			return r
		}
	}
	return r
}

// strLessTerm is the term x < y (bytewise lexicographic).
func (i *interpreter) strLessTerm(x, y value) *Term {
	xb, yb := strBytes(x), strBytes(y)
	tt := i.tt
	n := len(xb)
	if len(yb) < n {
		n = len(yb)
	}
	// build from the end: less_k = x[k]<y[k] || (x[k]==y[k] && less_{k+1})
	r := tt.Bool(len(xb) < len(yb))
	for k := n - 1; k >= 0; k-- {
		at, _ := i.termOf(xb[k])
		bt, _ := i.termOf(yb[k])
		r = tt.Or(tt.Bin(OpUlt, at, bt), tt.And(tt.Eq(at, bt), r))
	}
	return r
}

func (i *interpreter) boolVal(t *Term) value { return mkSym(t, types.Bool) }

// binop dispatches to the symbolic or the concrete implementation.
func (i *interpreter) binop(op token.Token, t types.Type, x, y value) value {
	_, xs := x.(*Sym)
	_, ys := y.(*Sym)
	if xs || ys {
		if isFloat(x) || isFloat(y) {
			panic(unsupported{"float arithmetic on symbolic value"})
		}
		return i.symBinop(op, x, y)
	}
	if xf, ok := x.(*symFloat); ok {
		return i.symFloatCmp(op, xf, y, false)
	}
	if yf, ok := y.(*symFloat); ok {
		return i.symFloatCmp(op, yf, x, true)
	}
	if isStr(x) && isStr(y) && (isSymbolic(x) || isSymbolic(y)) {
		switch op {
		case token.ADD:
			return i.strConcat(x, y)
		case token.EQL:
			return i.boolVal(i.strEqTerm(x, y))
		case token.NEQ:
			return i.boolVal(i.tt.Not(i.strEqTerm(x, y)))
		case token.LSS:
			return i.boolVal(i.strLessTerm(x, y))
		case token.GTR:
			return i.boolVal(i.strLessTerm(y, x))
		case token.LEQ:
			return i.boolVal(i.tt.Not(i.strLessTerm(y, x)))
		case token.GEQ:
			return i.boolVal(i.tt.Not(i.strLessTerm(x, y)))
		}
	}
	if op == token.EQL || op == token.NEQ {
		r := i.eqVal(t, x, y)
		if op == token.NEQ {
			if b, ok := r.(bool); ok {
				return !b
			}
			return i.boolVal(i.tt.Not(r.(*Sym).t))
		}
		return r
	}
	if op == token.QUO || op == token.REM {
		if k, bits, ok := concKind(y); ok && k != types.Bool && bits == 0 {
			panic(runtimeError("integer divide by zero"))
		}
	}
	return binop(op, t, x, y)
}

func isFloat(v value) bool {
	switch v.(type) {
	case float32, float64, *symFloat:
		return true
	}
	return false
}

// eqVal is x == y for any comparable values; the result is bool or *Sym.
func (i *interpreter) eqVal(t types.Type, x, y value) value {
	switch x := x.(type) {
	case structure:
		y := y.(structure)
		r := i.tt.True
		var st *types.Struct
		if t != nil {
			st, _ = t.Underlying().(*types.Struct)
		}
		for k := range x {
			var ft types.Type
			if st != nil {
				if st.Field(k).Name() == "_" {
					continue
				}
				ft = st.Field(k).Type()
			}
			r = i.tt.And(r, i.boolTerm(i.eqVal(ft, x[k], y[k])))
		}
		return i.boolVal(r)
	case array:
		y := y.(array)
		r := i.tt.True
		for k := range x {
			r = i.tt.And(r, i.boolTerm(i.eqVal(nil, x[k], y[k])))
		}
		return i.boolVal(r)
	case iface:
		y, ok := y.(iface)
		if !ok {
			panic(fmt.Sprintf("eqVal iface vs %T", y))
		}
		if !sameType(x.t, y.t) {
			return false
		}
		if x.t == nil {
			return true
		}
		return i.eqVal(x.t, x.v, y.v)
	case string, SymStr:
		return i.boolVal(i.strEqTerm(x, y))
	case *Rope:
		panic(unsupported{"comparison of a formatted message with symbolic parts"})
	case *Sym:
		return i.symBinop(token.EQL, x, y)
	case *symFloat:
		panic(unsupported{"comparison of symbolic float"})
	case *nativeVal:
		yn, ok := y.(*nativeVal)
		return ok && x.v == yn.v
	}
	switch y.(type) {
	case *Sym:
		return i.symBinop(token.EQL, x, y)
	case SymStr:
		return i.boolVal(i.strEqTerm(x, y))
	}
	if t != nil {
		return eqnil(t, x, y)
	}
	return equals(nil, x, y)
}

// iteVal is cond ? a : b for scalars (term-level, no fork).
func (i *interpreter) iteVal(cond, a, b value) value {
	c := i.boolTerm(cond)
	if c.IsTrue() {
		return a
	}
	if c.IsFalse() {
		return b
	}
	if isStr(a) {
		ab, bb := strBytes(a), strBytes(b)
		if len(ab) != len(bb) {
			if i.decide(c) {
				return a
			}
			return b
		}
		out := make([]value, len(ab))
		for k := range ab {
			out[k] = i.iteVal(cond, ab[k], bb[k])
		}
		return mkStr(out)
	}
	at, ak := i.termOf(a)
	bt, _ := i.termOf(b)
	return mkSym(i.tt.Ite(c, at, bt), ak)
}

// conv handles conversions involving symbolic values, else the stock one.
func (i *interpreter) conv(tDst, tSrc types.Type, x value) value {
	switch x := x.(type) {
	case *Sym:
		return i.symConv(tDst, x)
	case *symFloat:
		if b, ok := tDst.Underlying().(*types.Basic); ok && b.Info()&types.IsFloat != 0 {
			return x
		}
		panic(unsupported{"conversion of symbolic float to " + tDst.String()})
	case SymStr:
		switch ut := tDst.Underlying().(type) {
		case *types.Basic:
			if ut.Kind() == types.String {
				return x
			}
		case *types.Slice:
			switch ut.Elem().Underlying().(*types.Basic).Kind() {
			case types.Byte:
				return append([]value{}, []value(x)...)
			case types.Rune:
				var out []value
				for p := 0; p < len(x); {
					r, n := i.decodeRune(x[p:])
					out = append(out, r)
					p += n
				}
				return out
			}
		}
		panic(unsupported{"conversion of symbolic string to " + tDst.String()})
	case *Rope:
		if b, ok := tDst.Underlying().(*types.Basic); ok && b.Kind() == types.String {
			return x
		}
		panic(unsupported{"conversion of formatted message to " + tDst.String()})
	case []value:
		if _, ok := tSrc.Underlying().(*types.Slice); ok {
			if b, ok := tDst.Underlying().(*types.Basic); ok && b.Kind() == types.String {
				// []byte / []rune -> string with symbolic elements
				elem := tSrc.Underlying().(*types.Slice).Elem().Underlying().(*types.Basic).Kind()
				anySym := false
				for _, e := range x {
					if isSym(e) {
						anySym = true
					}
				}
				if anySym {
					if elem == types.Byte {
						return mkStr(append([]value{}, x...))
					}
					var out []value
					for _, e := range x {
						out = append(out, strBytes(i.runeToString(e))...)
					}
					return mkStr(out)
				}
			}
		}
	}
	return conv(tDst, tSrc, x)
}

// runeToString is string(rune) for a concrete or symbolic rune.
func (i *interpreter) runeToString(r value) value {
	if s, ok := r.(*Sym); ok {
		return i.symRuneToString(s)
	}
	return string(rune(asInt64(r)))
}

// symRuneToString encodes a symbolic code point; the encoded length is decided.
func (i *interpreter) symRuneToString(x *Sym) value {
	tt := i.tt
	w, signed := kindWidth(x.k)
	t := x.t
	if w < 32 {
		if signed {
			t = tt.Sext(t, 32)
		} else {
			t = tt.Zext(t, 32)
		}
	} else if w > 32 {
		t = tt.Extract(t, 0, 32)
	}
	c := func(v uint64) *Term { return tt.Const(32, v) }
	b8 := func(t *Term) value { return mkSym(tt.Extract(t, 0, 8), types.Uint8) }
	if i.decide(tt.Bin(OpUlt, t, c(0x80))) {
		return mkStr([]value{b8(t)})
	}
	if i.decide(tt.Bin(OpUlt, t, c(0x800))) {
		return mkStr([]value{
			b8(tt.Bin(OpBOr, c(0xC0), tt.Bin(OpLshr, t, c(6)))),
			b8(tt.Bin(OpBOr, c(0x80), tt.Bin(OpBAnd, t, c(0x3F)))),
		})
	}
	// invalid: surrogates or > 0x10FFFF -> U+FFFD
	bad := tt.Or(tt.And(tt.Bin(OpUle, c(0xD800), t), tt.Bin(OpUle, t, c(0xDFFF))), tt.Bin(OpUlt, c(0x10FFFF), t))
	if i.decide(bad) {
		return "�"
	}
	if i.decide(tt.Bin(OpUlt, t, c(0x10000))) {
		return mkStr([]value{
			b8(tt.Bin(OpBOr, c(0xE0), tt.Bin(OpLshr, t, c(12)))),
			b8(tt.Bin(OpBOr, c(0x80), tt.Bin(OpBAnd, tt.Bin(OpLshr, t, c(6)), c(0x3F)))),
			b8(tt.Bin(OpBOr, c(0x80), tt.Bin(OpBAnd, t, c(0x3F)))),
		})
	}
	return mkStr([]value{
		b8(tt.Bin(OpBOr, c(0xF0), tt.Bin(OpLshr, t, c(18)))),
		b8(tt.Bin(OpBOr, c(0x80), tt.Bin(OpBAnd, tt.Bin(OpLshr, t, c(12)), c(0x3F)))),
		b8(tt.Bin(OpBOr, c(0x80), tt.Bin(OpBAnd, tt.Bin(OpLshr, t, c(6)), c(0x3F)))),
		b8(tt.Bin(OpBOr, c(0x80), tt.Bin(OpBAnd, t, c(0x3F)))),
	})
}

// decodeRune decodes the first UTF-8 sequence of bs (len(bs) > 0), deciding
// the sequence class. Returns the rune (int32 or *Sym) and its width.
func (i *interpreter) decodeRune(bs []value) (value, int) {
	b0 := bs[0]
	if c, ok := b0.(uint8); ok && c < 0x80 {
		return int32(c), 1
	}
	// all concrete prefix?
	conc := make([]byte, 0, 4)
	for k := 0; k < len(bs) && k < 4; k++ {
		c, ok := bs[k].(uint8)
		if !ok {
			conc = nil
			break
		}
		conc = append(conc, c)
	}
	if conc != nil {
		r, n := utf8.DecodeRune(conc)
		return r, n
	}
	tt := i.tt
	t0, _ := i.termOf(b0)
	c8 := func(v uint64) *Term { return tt.Const(8, v) }
	if i.decide(tt.Bin(OpUlt, t0, c8(0x80))) {
		return mkSym(tt.Zext(t0, 32), types.Int32), 1
	}
	inRange := func(t *Term, lo, hi uint64) *Term {
		return tt.And(tt.Bin(OpUle, c8(lo), t), tt.Bin(OpUle, t, c8(hi)))
	}
	cont := func(k int, lo, hi uint64) bool {
		if k >= len(bs) {
			return false
		}
		t, _ := i.termOf(bs[k])
		return i.decide(inRange(t, lo, hi))
	}
	z := func(k int, m uint64) *Term {
		t, _ := i.termOf(bs[k])
		return tt.Zext(tt.Bin(OpBAnd, t, c8(m)), 32)
	}
	sh := func(t *Term, n uint64) *Term { return tt.Bin(OpShl, t, tt.Const(32, n)) }
	bad := func() (value, int) { return int32(utf8.RuneError), 1 }
	switch {
	case i.decide(inRange(t0, 0xC2, 0xDF)):
		if !cont(1, 0x80, 0xBF) {
			return bad()
		}
		return mkSym(tt.Bin(OpBOr, sh(z(0, 0x1F), 6), z(1, 0x3F)), types.Int32), 2
	case i.decide(inRange(t0, 0xE0, 0xEF)):
		lo, hi := uint64(0x80), uint64(0xBF)
		if i.decide(tt.Eq(t0, c8(0xE0))) {
			lo = 0xA0
		} else if i.decide(tt.Eq(t0, c8(0xED))) {
			hi = 0x9F
		}
		if !cont(1, lo, hi) || !cont(2, 0x80, 0xBF) {
			return bad()
		}
		return mkSym(tt.Bin(OpBOr, tt.Bin(OpBOr, sh(z(0, 0x0F), 12), sh(z(1, 0x3F), 6)), z(2, 0x3F)), types.Int32), 3
	case i.decide(inRange(t0, 0xF0, 0xF4)):
		lo, hi := uint64(0x80), uint64(0xBF)
		if i.decide(tt.Eq(t0, c8(0xF0))) {
			lo = 0x90
		} else if i.decide(tt.Eq(t0, c8(0xF4))) {
			hi = 0x8F
		}
		if !cont(1, lo, hi) || !cont(2, 0x80, 0xBF) || !cont(3, 0x80, 0xBF) {
			return bad()
		}
		return mkSym(tt.Bin(OpBOr, tt.Bin(OpBOr, tt.Bin(OpBOr, sh(z(0, 0x07), 18), sh(z(1, 0x3F), 12)), sh(z(2, 0x3F), 6)), z(3, 0x3F)), types.Int32), 4
	}
	return bad()
}

// slice returns x[lo:hi:max].  Any of lo, hi and max may be nil.
func (i *interpreter) slice(x, lo, hi, max value) value {
	var Len, Cap int
	switch x := x.(type) {
	case string:
		Len = len(x)
		Cap = Len
	case SymStr:
		Len = len(x)
		Cap = Len
	case *Rope:
		panic(unsupported{"slicing a formatted message with symbolic parts"})
	case []value:
		Len = len(x)
		Cap = cap(x)
	case *value: // *array
		a := (*x).(array)
		Len = len(a)
		Cap = cap(a)
	}
	bound := func(v value, def int64) int64 {
		if v == nil {
			return def
		}
		n, ok := i.concInt(v, 0, int64(Cap))
		if !ok {
			panic(runtimeError("slice bounds out of range"))
		}
		return n
	}
	l := bound(lo, 0)
	h := bound(hi, int64(Len))
	m := bound(max, int64(Cap))
	if l > h || h > m {
		panic(runtimeError(fmt.Sprintf("slice bounds out of range [%d:%d:%d] with capacity %d", l, h, m, Cap)))
	}
	switch x := x.(type) {
	case string:
		return x[l:h]
	case SymStr:
		return mkStr([]value(x[l:h]))
	case []value:
		return x[l:h:m]
	case *value: // *array
		a := (*x).(array)
		return []value(a)[l:h:m]
	}
	panic(fmt.Sprintf("slice: unexpected X type: %T", x))
}

// symSelect reads arr[idx] for a symbolic idx: value-grouped ite over the
// elements (which may themselves be symbolic scalars or small structs).
func (i *interpreter) symSelect(arr []value, idx *Sym) value {
	n := len(arr)
	if n == 0 {
		panic(runtimeError("index out of range [symbolic] with length 0"))
	}
	tt := i.tt
	w, signed := kindWidth(idx.k)
	// out-of-range side (compared at 64 bits so that n never wraps)
	var inb *Term
	if signed {
		x := tt.Sext(idx.t, 64)
		inb = tt.And(tt.Bin(OpSle, tt.Const(64, 0), x), tt.Bin(OpSlt, x, tt.Const(64, uint64(n))))
	} else {
		inb = tt.Bin(OpUlt, tt.Zext(idx.t, 64), tt.Const(64, uint64(n)))
	}
	if !i.decide(inb) {
		panic(runtimeError(fmt.Sprintf("index out of range [symbolic] with length %d", n)))
	}
	if st, ok := arr[0].(structure); ok {
		out := make(structure, len(st))
		for f := range st {
			col := make([]value, n)
			for k := range arr {
				col[k] = arr[k].(structure)[f]
			}
			out[f] = i.selectCol(col, idx.t, w)
		}
		return out
	}
	return i.selectCol(arr, idx.t, w)
}

func (i *interpreter) selectCol(col []value, idx *Term, w int) value {
	tt := i.tt
	type rng struct {
		lo, hi int
		t      *Term
	}
	var rs []rng
	var kind types.BasicKind
	for k, v := range col {
		t, kd := i.termOf(v)
		kind = kd
		if n := len(rs); n > 0 && rs[n-1].t == t {
			rs[n-1].hi = k
		} else {
			rs = append(rs, rng{k, k, t})
		}
	}
	term := rs[len(rs)-1].t
	for k := len(rs) - 2; k >= 0; k-- {
		// ranges are consecutive: idx <= hi suffices going left to right
		cond := tt.Bin(OpUle, idx, tt.Const(w, uint64(rs[k].hi)))
		term = tt.Ite(cond, rs[k].t, term)
	}
	return mkSym(term, kind)
}

// ---- memory writes: old / frozen cell monitor ----

func (i *interpreter) noteWrite(addr *value) {
	if idx, ok := i.old[addr]; ok {
		i.undo = append(i.undo, undoRec{addr, *addr})
		i.oldWrite(i.oldNames[idx])
	}
	if len(i.frozen) > 0 {
		if idx, ok := i.frozen[addr]; ok {
			i.frozenWrite(idx)
		}
	}
}

func (i *interpreter) writeCell(addr *value, v value) {
	if i.trace != nil && i.trace.recAcc {
		i.trace.access(addr, true, i.siteName())
	}
	i.noteWrite(addr)
	*addr = v
}

// store stores value v of type T into *addr.
func (i *interpreter) store(T types.Type, addr *value, v value) {
	if addr == nil {
		panic(runtimeError("invalid memory address or nil pointer dereference"))
	}
	switch T := T.Underlying().(type) {
	case *types.Struct:
		lhs := (*addr).(structure)
		rhs := v.(structure)
		for k := range lhs {
			i.store(T.Field(k).Type(), &lhs[k], rhs[k])
		}
	case *types.Array:
		lhs := (*addr).(array)
		rhs := v.(array)
		for k := range lhs {
			i.store(T.Elem(), &lhs[k], rhs[k])
		}
	default:
		i.writeCell(addr, v)
	}
}

// ---- range ----

type symStrIter struct {
	i  *interpreter
	s  []value
	at int
}

func (it *symStrIter) next() tuple {
	if it.at >= len(it.s) {
		return tuple{false, nil, nil}
	}
	r, n := it.i.decodeRune(it.s[it.at:])
	t := tuple{true, it.at, r}
	it.at += n
	return t
}

func (i *interpreter) rangeIter(x value, t types.Type) iter {
	switch x := x.(type) {
	case *amap:
		return i.newMapIter(x)
	case string:
		return &stringIter{Reader: strings.NewReader(x)}
	case SymStr:
		return &symStrIter{i: i, s: []value(x)}
	}
	panic(fmt.Sprintf("cannot range over %T", x))
}

// lookup returns x[idx] where x is a map.
func (i *interpreter) lookup(instr *ssa.Lookup, x, idx value) value {
	m, ok := x.(*amap)
	if !ok {
		panic(fmt.Sprintf("unexpected x type in Lookup: %T", x))
	}
	v, found := i.mapLookup(m, idx)
	if !found {
		v = zero(instr.X.Type().Underlying().(*types.Map).Elem())
	}
	if instr.CommaOk {
		return tuple{v, found}
	}
	return v
}

// symElem is the address base[idx] (optionally .field) for a symbolic idx:
// loads become value-grouped ite terms, stores concretise the index.
type symElem struct {
	base  []value
	idx   *Sym
	field int
}

func (i *interpreter) loadSymElem(se *symElem) value {
	if se.field < 0 {
		return i.symSelect(se.base, se.idx)
	}
	col := make([]value, len(se.base))
	for k := range se.base {
		col[k] = se.base[k].(structure)[se.field]
	}
	return i.symSelect(col, se.idx)
}

func (i *interpreter) concSymElem(se *symElem) *value {
	k := i.index(se.idx, len(se.base))
	if se.field < 0 {
		return &se.base[k]
	}
	return &se.base[k].(structure)[se.field]
}

// symFloatCmp: comparisons on an opaque float. NaN compares false (!= true);
// otherwise the outcome is a free boolean, one per (value, operator, operand).
func (i *interpreter) symFloatCmp(op token.Token, f *symFloat, other value, flipped bool) value {
	switch op {
	case token.EQL, token.NEQ, token.LSS, token.LEQ, token.GTR, token.GEQ:
	default:
		panic(unsupported{"float arithmetic on an opaque float value"})
	}
	if f.class == fNaN {
		return op == token.NEQ
	}
	i.freeStub("comparison on a float parsed from symbolic text (free outcome)")
	name := fmt.Sprintf("uf_fcmp_%d_%s_%v_%v", f.id, sanitize(op.String()), flipped, sanitize(fmt.Sprint(other)))
	return i.boolVal(i.tt.Var(name, 0))
}

// ropeLen: the length of a formatted message; %d of a symbolic integer forks
// over its number of decimal characters (sign and magnitude class).
func (i *interpreter) ropeLen(r *Rope) int {
	n := 0
	for _, p := range r.parts {
		switch {
		case p.verb == "" && p.raw != nil:
			n += len(p.raw)
		case p.verb == "":
			n += len(p.lit)
		case p.verb == "%d":
			s, ok := p.arg.(*Sym)
			if !ok {
				panic(unsupported{"len of a formatted message: %d of non-integer"})
			}
			n += i.decimalLen(s)
		case p.verb == "%q" || p.verb == "%c":
			n += len(strBytes(resolveRope(&Rope{[]ropePart{p}})))
		default:
			panic(unsupported{"len of a formatted message with a " + p.verb + " operand"})
		}
	}
	return n
}

func (i *interpreter) decimalLen(s *Sym) int {
	tt := i.tt
	w, signed := kindWidth(s.k)
	t := s.t
	extra := 0
	if signed {
		if i.decide(tt.Bin(OpSlt, t, tt.Const(w, 0))) {
			extra = 1
			// magnitude of the most negative value has the same digit count as max+1
			if i.decide(tt.Eq(t, tt.Const(w, uint64(1)<<uint(w-1)))) {
				return 1 + len(fmt.Sprint(uint64(1)<<uint(w-1)))
			}
			t = tt.Un(OpNeg, t)
		}
	}
	lim := uint64(10)
	for d := 1; d < 20; d++ {
		if lim > mask(w) {
			return extra + d
		}
		if i.decide(tt.Bin(OpUlt, t, tt.Const(w, lim))) {
			return extra + d
		}
		if lim > ^uint64(0)/10 {
			return extra + d + 1
		}
		lim *= 10
	}
	return extra + 20
}

// ropeOwner finds the interpreter a formatted message belongs to (through any
// symbolic operand).
func ropeOwner(r *Rope) *interpreter {
	var find func(v value) *interpreter
	find = func(v value) *interpreter {
		switch x := v.(type) {
		case *Sym:
			return x.t.tab.owner
		case SymStr:
			for _, b := range x {
				if s, ok := b.(*Sym); ok {
					return s.t.tab.owner
				}
			}
		case *Rope:
			return ropeOwner(x)
		}
		return nil
	}
	for _, p := range r.parts {
		if p.raw != nil {
			if i := find(p.raw); i != nil {
				return i
			}
		}
		if p.arg != nil {
			if i := find(p.arg); i != nil {
				return i
			}
		}
	}
	return nil
}

// resolveRope turns a formatted message into bytes when some operation needs
// them (sorting, comparing, indexing): %q operands are quoted byte-wise after
// deciding each symbolic byte's class. Only plain printable ASCII and the two
// escaped characters are supported; anything else ends the path as unsupported.
func resolveRope(r *Rope) value {
	i := ropeOwner(r)
	var out []value
	for _, p := range r.parts {
		switch {
		case p.verb == "" && p.raw != nil:
			out = append(out, []value(p.raw)...)
		case p.verb == "":
			out = append(out, strBytes(p.lit)...)
		case p.verb == "%q":
			switch a := p.arg.(type) {
			case string:
				out = append(out, strBytes(strconv.Quote(a))...)
			case SymStr:
				if i == nil {
					panic(unsupported{"resolveRope without interpreter"})
				}
				out = append(out, uint8('"'))
				for _, b := range a {
					out = append(out, i.quoteByte(b, '"')...)
				}
				out = append(out, uint8('"'))
			case *Sym:
				if i == nil {
					panic(unsupported{"resolveRope without interpreter"})
				}
				w, _ := kindWidth(a.k)
				if !i.decide(i.tt.Bin(OpUlt, a.t, i.tt.Const(w, 0x80))) {
					panic(unsupported{"quoting a symbolic non-ASCII rune"})
				}
				out = append(out, uint8('\''))
				out = append(out, i.quoteByte(mkSym(i.tt.Extract(a.t, 0, 8), types.Uint8), '\'')...)
				out = append(out, uint8('\''))
			case *Rope:
				panic(unsupported{"quoting a formatted message"})
			default:
				panic(unsupported{fmt.Sprintf("resolveRope %%q of %T", a)})
			}
		case p.verb == "%c":
			if i == nil {
				panic(unsupported{"resolveRope without interpreter"})
			}
			out = append(out, strBytes(i.runeToString(p.arg))...)
		default:
			panic(unsupported{"bytes of a formatted message with a " + p.verb + " operand"})
		}
	}
	return mkStr(out)
}

// quoteByte renders one byte inside a Go quoted string/rune literal.
func (i *interpreter) quoteByte(b value, quote byte) []value {
	if c, ok := b.(uint8); ok {
		q := strconv.Quote(string(rune(c)))
		if c >= 0x80 {
			panic(unsupported{"quoting non-ASCII byte inside partly symbolic text"})
		}
		if quote == '\'' {
			q = strconv.QuoteRune(rune(c))
		}
		return strBytes(q[1 : len(q)-1])
	}
	tt := i.tt
	t := b.(*Sym).t
	c8 := func(v uint64) *Term { return tt.Const(8, v) }
	if i.decide(tt.Or(tt.Eq(t, c8(uint64(quote))), tt.Eq(t, c8('\\')))) {
		return []value{uint8('\\'), b}
	}
	if i.decide(tt.And(tt.Bin(OpUle, c8(0x20), t), tt.Bin(OpUle, t, c8(0x7e)))) {
		return []value{b}
	}
	if os.Getenv("VERIF_DEBUG_UNSUPPORTED") != "" {
		for _, f := range i.curFn {
			fmt.Fprintln(os.Stderr, "  in", f.Name())
		}
		fmt.Fprintf(os.Stderr, "%s\n", debug.Stack())
	}
	panic(unsupported{"quoting a symbolic control or non-ASCII byte (length depends on the value)"})
}

// siteName: the function the interpreter is executing (for attributing memory accesses).
func (i *interpreter) siteName() string {
	for k := len(i.curFn) - 1; k >= 0; k-- {
		fn := i.curFn[k]
		if fn.Pkg != nil && fn.Pkg.Pkg.Path() == "github.com/rhysd/actionlint" {
			return fn.Name()
		}
	}
	if len(i.curFn) > 0 {
		return i.curFn[len(i.curFn)-1].Name()
	}
	return "?"
}

// noteRead records the cells a load of type T from addr reads.
func (i *interpreter) noteRead(T types.Type, addr *value) {
	if addr == nil {
		return
	}
	switch T := T.Underlying().(type) {
	case *types.Struct:
		if v, ok := (*addr).(structure); ok {
			for k := range v {
				i.noteRead(T.Field(k).Type(), &v[k])
			}
		}
	case *types.Array:
		if v, ok := (*addr).(array); ok {
			for k := range v {
				i.noteRead(T.Elem(), &v[k])
			}
		}
	default:
		i.trace.access(addr, false, i.siteName())
	}
}
