package interp

// Intrinsics: the harness API (verif*), term-level models of library
// functions, contract stubs and native pass-through. Every entry is part of
// the trusted base of the checks that hit it (recorded in Result.Stubs).

import (
	"github.com/bmatcuk/doublestar/v4"
	"gopkg.in/yaml.v3"
	"encoding/json"
	"fmt"
	"go/types"
	"math"
	"net/url"
	"path/filepath"
	"regexp"
	"sort"
	"strconv"
	"strings"
	"time"
	"unicode"

	runewidth "github.com/mattn/go-runewidth"
	cron "github.com/robfig/cron/v3"
)

type intrinsic func(fr *frame, args []value) value

var intrinsics = map[string]intrinsic{}

// packages whose init functions are executed
var initAllowed = map[string]bool{
	"github.com/rhysd/actionlint": true,
	"io":                          true,
	"unicode":                     true,
	"unicode/utf8":                true,
	"text/scanner":                true,
	"strings":                     true,
	"sort":                        true,
	"slices":                      true,
	"cmp":                         true,
	"path":                        true,
	"errors":                      false,
	"github.com/robfig/cron/v3":   true,
	"math/bits":                   true,
	"bufio":                       true,
	"bytes":                       true,
	"strconv":                     true,
}

var interpPkgs = map[string]bool{
	"github.com/rhysd/actionlint": true,
	"io":                          true,
	"unicode":                     true,
	"unicode/utf8":                true,
	"text/scanner":                true,
	"strings":                     true,
	"sort":                        true,
	"slices":                      true,
	"cmp":                         true,
	"path":                        true,
	"errors":                      true,
	"github.com/robfig/cron/v3":   true,
	"math/bits":                   true,
	"bufio":                       true,
	"bytes":                       true,
	"gopkg.in/yaml.v3":            false,
	"strconv":                     true,
	"encoding/json":               true, // only (*SyntaxError).Error is ever reached; Unmarshal is an intrinsic
}

func interpretedPkg(path string) bool { return interpPkgs[path] }

// pure helper functions of packages that are otherwise not interpreted
var interpFuncs = map[string]bool{
	"(*gopkg.in/yaml.v3.Node).ShortTag":        true,
	"(*gopkg.in/yaml.v3.Node).LongTag":         true,
	"(*gopkg.in/yaml.v3.Node).indicatedString": true,
	"(*gopkg.in/yaml.v3.Node).IsZero":          true,
	"gopkg.in/yaml.v3.shortTag":                true,
	"gopkg.in/yaml.v3.longTag":                 true,
}

const pkgPrefix = "github.com/rhysd/actionlint."

func reg(name string, f intrinsic) { intrinsics[name] = f }

func (i *interpreter) stub(name string) { i.stubsHit[name]++ }

// freeStub marks the path as depending on a free (uninterpreted) outcome: such
// paths are not used for native cross-validation.
func (i *interpreter) freeStub(name string) {
	i.stubsHit[name]++
	i.tainted = true
}

// sanitize makes an SMT-safe symbol.
func sanitize(s string) string {
	var sb strings.Builder
	for _, r := range s {
		if r >= 'a' && r <= 'z' || r >= 'A' && r <= 'Z' || r >= '0' && r <= '9' || r == '_' {
			sb.WriteRune(r)
		} else {
			sb.WriteByte('_')
		}
	}
	return sb.String()
}

type inputRec struct {
	Name string
	Kind string // str | int | bool | byte | rune
	N    int
}

// freshName returns a unique input name for this path.
func (i *interpreter) freshName(base string) string {
	base = sanitize(base)
	i.symNames[base]++
	if n := i.symNames[base]; n > 1 {
		return fmt.Sprintf("%s_r%d", base, n)
	}
	return base
}

func (i *interpreter) symString(name string, n int) value {
	name = i.freshName(name)
	i.inputs = append(i.inputs, inputRec{name, "str", n})
	bs := make([]value, n)
	for k := range bs {
		bs[k] = &Sym{i.tt.Var(fmt.Sprintf("%s__%d", name, k), 8), types.Uint8}
	}
	return mkStr(bs)
}

// renderInputs shows the inputs of the current path under a model.
func (i *interpreter) renderInputs(m map[string]uint64) map[string]string {
	out := map[string]string{}
	for _, in := range i.inputs {
		switch in.Kind {
		case "str":
			b := make([]byte, in.N)
			for k := range b {
				b[k] = byte(m[fmt.Sprintf("%s__%d", in.Name, k)])
			}
			out[in.Name] = strconv.Quote(string(b))
		case "bool":
			out[in.Name] = fmt.Sprint(m[in.Name] != 0)
		case "int":
			out[in.Name] = fmt.Sprint(int64(m[in.Name]))
		case "choice":
			out[in.Name] = fmt.Sprint(in.N)
		default:
			out[in.Name] = fmt.Sprint(m[in.Name])
		}
	}
	return out
}

// assumeTerm restricts the path to c; the path is cut if that is infeasible.
func (i *interpreter) assumeTerm(c *Term, why string) {
	if c.IsTrue() {
		return
	}
	if i.summ != nil {
		panic(unsupported{"assumption inside a summarised function: " + why})
	}
	if !c.IsFalse() {
		if c.Eval(i.model) != 0 {
			i.pushPC(c, false)
			return
		}
		v, m := i.solver.Check(append(append([]Lit{}, i.pc...), Lit{c, false}))
		if v == Sat {
			i.model = m
			i.pushPC(c, false)
			return
		}
		if v == Unknown {
			i.stats.UnknownBranch++
		}
	}
	i.stats.AssumeCut++
	panic(pathEnd{"assume:" + why})
}

func (i *interpreter) check(c *Term, label, info string) {
	i.stats.Checks++
	if c.IsTrue() {
		return
	}
	if i.summ != nil {
		panic(unsupported{"check inside a summarised function"})
	}
	if c.IsFalse() || c.Eval(i.model) == 0 {
		i.raise("check", label, info, i.model)
		if c.IsFalse() {
			panic(pathEnd{"violation:" + label})
		}
		i.assumeTerm(c, "after violation "+label)
		return
	}
	i.stats.CheckQueries++
	v, m := i.solver.Check(append(append([]Lit{}, i.pc...), Lit{c, true}))
	switch v {
	case Sat:
		i.raise("check", label, info, m)
	case Unknown:
		i.raise("unknown", label, "solver answered unknown on obligation "+label, i.model)
	}
	i.pushPC(c, false)
}

func init() {
	// ---------------- harness API ----------------
	reg(pkgPrefix+"verifSymString", func(fr *frame, a []value) value {
		return fr.i.symString(mustString(a[0], "verifSymString"), int(asInt64(a[1])))
	})
	symScalar := func(kind string, k types.BasicKind) intrinsic {
		return func(fr *frame, a []value) value {
			i := fr.i
			name := i.freshName(mustString(a[0], "verifSym"))
			i.inputs = append(i.inputs, inputRec{name, kind, 0})
			w, _ := kindWidth(k)
			return &Sym{i.tt.Var(name, w), k}
		}
	}
	reg(pkgPrefix+"verifSymInt", symScalar("int", types.Int))
	reg(pkgPrefix+"verifSymBool", symScalar("bool", types.Bool))
	reg(pkgPrefix+"verifSymByte", symScalar("byte", types.Uint8))
	reg(pkgPrefix+"verifSymRune", symScalar("rune", types.Int32))
	reg(pkgPrefix+"verifChoose", func(fr *frame, a []value) value {
		i := fr.i
		name := i.freshName(mustString(a[0], "verifChoose"))
		n := int(asInt64(a[1]))
		c := i.choose(n, name)
		i.inputs = append(i.inputs, inputRec{name, "choice", c})
		return c
	})
	reg(pkgPrefix+"verifAssume", func(fr *frame, a []value) value {
		fr.i.assumeTerm(fr.i.boolTerm(a[0]), "harness")
		return nil
	})
	reg(pkgPrefix+"verifAssumeNote", func(fr *frame, a []value) value {
		why := mustString(a[1], "verifAssumeNote")
		fr.i.noteAssume(why)
		fr.i.assumeTerm(fr.i.boolTerm(a[0]), why)
		return nil
	})
	reg(pkgPrefix+"verifCheck", func(fr *frame, a []value) value {
		fr.i.check(fr.i.boolTerm(a[0]), mustString(a[1], "verifCheck"), "")
		return nil
	})
	reg(pkgPrefix+"verifCheckf", func(fr *frame, a []value) value {
		info := ""
		if s, ok := a[2].(string); ok {
			info = s
		} else {
			info = toString(a[2])
		}
		fr.i.check(fr.i.boolTerm(a[0]), mustString(a[1], "verifCheckf"), info)
		return nil
	})
	reg(pkgPrefix+"verifReach", func(fr *frame, a []value) value {
		l := mustString(a[0], "verifReach")
		fr.i.reach[l]++
		fr.i.pathReach[l]++
		return nil
	})
	reg(pkgPrefix+"verifMapOrder", func(fr *frame, a []value) value {
		i := fr.i
		i.mapOrder = a[0].(bool)
		i.mapOrderFns = nil
		if len(a) > 1 {
			for _, f := range a[1].([]value) {
				if i.mapOrderFns == nil {
					i.mapOrderFns = map[string]bool{}
				}
				i.mapOrderFns[f.(string)] = true
			}
		}
		return nil
	})
	// verifMapOrderBudget(n): at most n symbolic iteration-order decisions per path
	// (later iterations follow insertion order); 0 = unlimited
	reg(pkgPrefix+"verifMapOrderBudget", func(fr *frame, a []value) value {
		fr.i.mapOrderBudget = int(asInt64(a[0]))
		fr.i.mapOrderUsed = 0
		return nil
	})
	reg(pkgPrefix+"verifRecordMapRangers", func(fr *frame, a []value) value {
		fr.i.recordRangers = a[0].(bool)
		return nil
	})
	reg(pkgPrefix+"verifMapRangers", func(fr *frame, a []value) value {
		out := make([]value, len(fr.i.mapRangers))
		for k, r := range fr.i.mapRangers {
			out[k] = r
		}
		return out
	})
	reg(pkgPrefix+"verifMonitorGlobals", func(fr *frame, a []value) value {
		fr.i.monitor = a[0].(bool)
		return nil
	})
	reg(pkgPrefix+"verifFreeze", func(fr *frame, a []value) value {
		i := fr.i
		name := mustString(a[0], "verifFreeze")
		idx := int32(len(i.frozenNames))
		i.frozenNames = append(i.frozenNames, name)
		if i.frozen == nil {
			i.frozen = map[*value]int32{}
		}
		walkValue(a[1], func(c *value) bool {
			if _, ok := i.frozen[c]; ok {
				return false
			}
			if _, ok := i.old[c]; ok {
				return false // already monitored as old memory
			}
			i.frozen[c] = idx
			return true
		}, func(m *amap) bool {
			if m.froz > 0 || m.old > 0 {
				return false
			}
			m.froz = idx + 1
			i.frozenMaps = append(i.frozenMaps, m)
			return true
		})
		return nil
	})
	reg(pkgPrefix+"verifOverride", func(fr *frame, a []value) value {
		name := mustString(a[0], "verifOverride")
		// unqualified names refer to the package under test
		switch {
		case strings.HasPrefix(name, "(*"):
			if recv := name[2:strings.Index(name, ")")]; !strings.Contains(recv, ".") {
				name = "(*github.com/rhysd/actionlint." + name[2:]
			}
		case strings.HasPrefix(name, "("):
			if recv := name[1:strings.Index(name, ")")]; !strings.Contains(recv, ".") {
				name = "(github.com/rhysd/actionlint." + name[1:]
			}
		case !strings.Contains(name, "."):
			name = pkgPrefix + name
		}
		fr.i.overrides[name] = a[1].(iface).v
		return nil
	})
	boolOp := func(f func(tt *TermTab, x, y *Term) *Term) intrinsic {
		return func(fr *frame, a []value) value {
			i := fr.i
			return i.boolVal(f(i.tt, i.boolTerm(a[0]), i.boolTerm(a[1])))
		}
	}
	reg(pkgPrefix+"verifAnd", boolOp(func(tt *TermTab, x, y *Term) *Term { return tt.And(x, y) }))
	reg(pkgPrefix+"verifOr", boolOp(func(tt *TermTab, x, y *Term) *Term { return tt.Or(x, y) }))
	reg(pkgPrefix+"verifImplies", boolOp(func(tt *TermTab, x, y *Term) *Term { return tt.Implies(x, y) }))
	reg(pkgPrefix+"verifIff", boolOp(func(tt *TermTab, x, y *Term) *Term { return tt.Eq(x, y) }))
	reg(pkgPrefix+"verifNot", func(fr *frame, a []value) value {
		return fr.i.boolVal(fr.i.tt.Not(fr.i.boolTerm(a[0])))
	})
	ite := func(fr *frame, a []value) value { return fr.i.iteVal(a[0], a[1], a[2]) }
	reg(pkgPrefix+"verifIteInt", ite)
	reg(pkgPrefix+"verifIteBool", ite)
	reg(pkgPrefix+"verifIteByte", ite)
	reg(pkgPrefix+"verifIsSymbolic", func(fr *frame, a []value) value {
		v := a[0]
		if it, ok := v.(iface); ok {
			v = it.v
		}
		return isSymbolic(v)
	})
	reg(pkgPrefix+"verifNote", func(fr *frame, a []value) value {
		// free-form sample text; kept only as a reach counter by label
		fr.i.reach["note:"+mustString(a[0], "verifNote")]++
		return nil
	})
	reg(pkgPrefix+"verifMsgHasRawNewline", func(fr *frame, a []value) value {
		return fr.i.boolVal(fr.i.msgHasRaw(a[0], func(b byte) bool { return b == '\n' || b == '\r' }))
	})
	reg(pkgPrefix+"verifMsgQuotedRune", func(fr *frame, a []value) value {
		switch m := a[0].(type) {
		case string:
			r, ok := ParseQuotedRune(m)
			return tuple{r, ok}
		case *Rope:
			for _, p := range m.parts {
				if p.verb == "%q" || p.verb == "%c" {
					switch x := p.arg.(type) {
					case *Sym:
						if x.k == types.Int32 {
							return tuple{x, true}
						}
					case int32:
						return tuple{x, true}
					}
				}
				if p.verb == "" && p.raw == nil {
					if r, ok := ParseQuotedRune(p.lit); ok {
						return tuple{r, true}
					}
				}
			}
			return tuple{int32(0), false}
		}
		return tuple{int32(0), false}
	})
	reg(pkgPrefix+"verifParseYAML", func(fr *frame, a []value) value {
		return fr.i.parseYAML(mustString(a[0], "verifParseYAML"))
	})
	reg(pkgPrefix+"verifNative", func(fr *frame, a []value) value {
		// harness-specific native data (ints) provided by the driver
		name := mustString(a[0], "verifNative")
		v, ok := fr.i.cfg.Native[name]
		if !ok {
			panic("verifNative: no datum " + name)
		}
		switch x := v.(type) {
		case int:
			return x
		case string:
			return x
		}
		panic("verifNative: unsupported datum type")
	})
	reg(pkgPrefix+"verifStringOf", func(fr *frame, a []value) value {
		// concretise a symbolic string under the current model (adds equalities)
		i := fr.i
		bs := strBytes(a[0])
		out := make([]byte, len(bs))
		for k, b := range bs {
			if c, ok := b.(uint8); ok {
				out[k] = c
				continue
			}
			v, ok := i.concInt(b, 0, 255)
			if !ok {
				panic("verifStringOf")
			}
			out[k] = byte(v)
		}
		return string(out)
	})

	// ---------------- strings ----------------
	reg("strings.HasPrefix", func(fr *frame, a []value) value {
		i := fr.i
		s, p := strBytes(a[0]), strBytes(a[1])
		if len(p) > len(s) {
			return false
		}
		return i.boolVal(i.strEqTerm(mkStr(s[:len(p)]), mkStr(p)))
	})
	reg("strings.HasSuffix", func(fr *frame, a []value) value {
		i := fr.i
		s, p := strBytes(a[0]), strBytes(a[1])
		if len(p) > len(s) {
			return false
		}
		return i.boolVal(i.strEqTerm(mkStr(s[len(s)-len(p):]), mkStr(p)))
	})
	reg("strings.TrimPrefix", func(fr *frame, a []value) value {
		i := fr.i
		s, p := strBytes(a[0]), strBytes(a[1])
		if len(p) > len(s) {
			return a[0]
		}
		if i.decide(i.strEqTerm(mkStr(s[:len(p)]), mkStr(p))) {
			return mkStr(s[len(p):])
		}
		return a[0]
	})
	reg("strings.TrimSuffix", func(fr *frame, a []value) value {
		i := fr.i
		s, p := strBytes(a[0]), strBytes(a[1])
		if len(p) > len(s) {
			return a[0]
		}
		if i.decide(i.strEqTerm(mkStr(s[len(s)-len(p):]), mkStr(p))) {
			return mkStr(s[:len(s)-len(p)])
		}
		return a[0]
	})
	reg("strings.Index", func(fr *frame, a []value) value { return fr.i.strIndex(a[0], a[1]) })
	reg("strings.Contains", func(fr *frame, a []value) value {
		i := fr.i
		if r, ok := a[0].(*Rope); ok {
			// formatted message with symbolic operands: a concrete needle is looked
			// for in the literal text only (it is assumed not to arise from operands)
			needle := mustString(a[1], "strings.Contains on a formatted message")
			i.stub("strings.Contains on a formatted message: literal parts only")
			lit := ""
			for _, p := range r.parts {
				if p.verb == "" && p.raw == nil {
					lit += p.lit
				} else {
					lit += "\x00"
				}
			}
			return strings.Contains(lit, needle)
		}
		if s, ok := a[0].(string); ok {
			if p, ok := a[1].(string); ok {
				return strings.Contains(s, p)
			}
		}
		return i.boolVal(i.containsTerm(strBytes(a[0]), strBytes(a[1])))
	})
	reg("strings.IndexByte", func(fr *frame, a []value) value {
		return fr.i.strIndex(a[0], mkStr([]value{a[1]}))
	})
	reg("strings.IndexRune", func(fr *frame, a []value) value {
		return fr.i.strIndex(a[0], fr.i.runeToString(a[1]))
	})
	reg("strings.ContainsRune", func(fr *frame, a []value) value {
		i := fr.i
		return i.boolVal(i.containsTerm(strBytes(a[0]), strBytes(i.runeToString(a[1]))))
	})
	reg("strings.ContainsAny", func(fr *frame, a []value) value {
		i := fr.i
		chars := mustString(a[1], "strings.ContainsAny chars")
		r := i.tt.False
		for _, c := range chars {
			r = i.tt.Or(r, i.containsTerm(strBytes(a[0]), strBytes(string(c))))
		}
		return i.boolVal(r)
	})
	reg("strings.LastIndex", func(fr *frame, a []value) value {
		i := fr.i
		s, p := strBytes(a[0]), strBytes(a[1])
		for k := len(s) - len(p); k >= 0; k-- {
			if i.decide(i.strEqTerm(mkStr(s[k:k+len(p)]), mkStr(p))) {
				return k
			}
		}
		return -1
	})
	reg("strings.Count", func(fr *frame, a []value) value {
		i := fr.i
		if s, ok := a[0].(string); ok {
			if p, ok := a[1].(string); ok {
				return strings.Count(s, p)
			}
		}
		s, p := strBytes(a[0]), strBytes(a[1])
		if len(p) == 0 {
			panic(unsupported{"strings.Count with empty separator on symbolic string"})
		}
		n := 0
		for k := 0; k+len(p) <= len(s); {
			if i.decide(i.strEqTerm(mkStr(s[k:k+len(p)]), mkStr(p))) {
				n++
				k += len(p)
			} else {
				k++
			}
		}
		return n
	})
	caseMap := func(upper bool, name string) intrinsic {
		return func(fr *frame, a []value) value {
			i := fr.i
			if s, ok := a[0].(string); ok {
				if upper {
					return strings.ToUpper(s)
				}
				return strings.ToLower(s)
			}
			tt := i.tt
			bs := strBytes(a[0])
			out := make([]value, len(bs))
			for k, b := range bs {
				c, ok := b.(uint8)
				if ok {
					if c >= 0x80 {
						// concrete non-ASCII inside a partly symbolic string
						panic(unsupported{name + ": non-ASCII byte in partly symbolic string"})
					}
					if upper {
						out[k] = strings.ToUpper(string(rune(c)))[0]
					} else {
						out[k] = strings.ToLower(string(rune(c)))[0]
					}
					continue
				}
				t := b.(*Sym).t
				i.noteAssume(name + " on symbolic text: bytes < 0x80 (non-ASCII case mapping is outside the claim)")
				i.assumeTerm(tt.Bin(OpUlt, t, tt.Const(8, 0x80)), name+" ASCII")
				var isC *Term
				var to *Term
				if upper {
					isC = tt.And(tt.Bin(OpUle, tt.Const(8, 'a'), t), tt.Bin(OpUle, t, tt.Const(8, 'z')))
					to = tt.Bin(OpSub, t, tt.Const(8, 0x20))
				} else {
					isC = tt.And(tt.Bin(OpUle, tt.Const(8, 'A'), t), tt.Bin(OpUle, t, tt.Const(8, 'Z')))
					to = tt.Bin(OpAdd, t, tt.Const(8, 0x20))
				}
				out[k] = mkSym(tt.Ite(isC, to, t), types.Uint8)
			}
			return mkStr(out)
		}
	}
	reg("strings.ToLower", caseMap(false, "strings.ToLower"))
	reg("strings.ToUpper", caseMap(true, "strings.ToUpper"))
	reg("strings.EqualFold", func(fr *frame, a []value) value {
		i := fr.i
		if s, ok := a[0].(string); ok {
			if p, ok := a[1].(string); ok {
				return strings.EqualFold(s, p)
			}
		}
		lo := intrinsics["strings.ToLower"]
		x := lo(fr, []value{a[0]})
		y := lo(fr, []value{a[1]})
		return i.boolVal(i.strEqTerm(x, y))
	})
	reg("strings.Repeat", func(fr *frame, a []value) value {
		i := fr.i
		n, ok := i.concInt(a[1], 0, 1<<16)
		if !ok {
			if s, isSym := a[1].(*Sym); isSym {
				// negative or huge count
				w, _ := kindWidth(s.k)
				if i.decide(i.tt.Bin(OpSlt, s.t, i.tt.Const(w, 0))) {
					panic(targetPanic{iface{t: types.Typ[types.String], v: "strings: negative Repeat count"}})
				}
				panic(budgetExceeded{"strings.Repeat with count > 65536"})
			}
			if asInt64(a[1]) < 0 {
				panic(targetPanic{iface{t: types.Typ[types.String], v: "strings: negative Repeat count"}})
			}
			panic(budgetExceeded{"strings.Repeat with count > 65536"})
		}
		if s, ok := a[0].(string); ok {
			return strings.Repeat(s, int(n))
		}
		bs := strBytes(a[0])
		var out []value
		for k := int64(0); k < n; k++ {
			out = append(out, bs...)
		}
		return mkStr(out)
	})
	reg("strings.Join", func(fr *frame, a []value) value {
		i := fr.i
		elems := a[0].([]value)
		var r value = ""
		for k, e := range elems {
			if k > 0 {
				r = i.strConcat(r, a[1])
			}
			r = i.strConcat(r, e)
		}
		return r
	})
	reg("strings.TrimSpace", func(fr *frame, a []value) value {
		i := fr.i
		if s, ok := a[0].(string); ok {
			return strings.TrimSpace(s)
		}
		bs := strBytes(a[0])
		isSp := func(b value) *Term { return i.asciiSpaceTerm(b) }
		lo, hi := 0, len(bs)
		for lo < hi && i.decide(isSp(bs[lo])) {
			lo++
		}
		for hi > lo && i.decide(isSp(bs[hi-1])) {
			hi--
		}
		return mkStr(bs[lo:hi])
	})
	reg("strings.ReplaceAll", func(fr *frame, a []value) value {
		i := fr.i
		if s, ok := a[0].(string); ok {
			if o, ok := a[1].(string); ok {
				if n, ok := a[2].(string); ok {
					return strings.ReplaceAll(s, o, n)
				}
			}
		}
		s, o, n := strBytes(a[0]), strBytes(a[1]), strBytes(a[2])
		if len(o) == 0 {
			panic(unsupported{"strings.ReplaceAll with empty old"})
		}
		var out []value
		for k := 0; k < len(s); {
			if k+len(o) <= len(s) && i.decide(i.strEqTerm(mkStr(s[k:k+len(o)]), mkStr(o))) {
				out = append(out, n...)
				k += len(o)
			} else {
				out = append(out, s[k])
				k++
			}
		}
		return mkStr(out)
	})
	reg("strings.Compare", func(fr *frame, a []value) value {
		i := fr.i
		if s, ok := a[0].(string); ok {
			if p, ok := a[1].(string); ok {
				return strings.Compare(s, p)
			}
		}
		if i.decide(i.strEqTerm(a[0], a[1])) {
			return 0
		}
		if i.decide(i.strLessTerm(a[0], a[1])) {
			return -1
		}
		return 1
	})
	reg("strings.Split", func(fr *frame, a []value) value {
		i := fr.i
		s, sep := strBytes(a[0]), strBytes(a[1])
		if len(sep) == 0 {
			panic(unsupported{"strings.Split with empty separator"})
		}
		var out []value
		start := 0
		for k := 0; k+len(sep) <= len(s); {
			if i.decide(i.strEqTerm(mkStr(s[k:k+len(sep)]), mkStr(sep))) {
				out = append(out, mkStr(s[start:k]))
				k += len(sep)
				start = k
			} else {
				k++
			}
		}
		out = append(out, mkStr(s[start:]))
		return out
	})
	reg("strings.Fields", func(fr *frame, a []value) value {
		i := fr.i
		bs := strBytes(a[0])
		var out []value
		start := -1
		for k := 0; k < len(bs); k++ {
			if i.decide(i.asciiSpaceTerm(bs[k])) {
				if start >= 0 {
					out = append(out, mkStr(bs[start:k]))
					start = -1
				}
			} else if start < 0 {
				start = k
			}
		}
		if start >= 0 {
			out = append(out, mkStr(bs[start:]))
		}
		return out
	})
	// strings.Builder: contents kept in a side table keyed by receiver cell
	bget := func(i *interpreter, recv value) value {
		if v, ok := i.builders[recv.(*value)]; ok {
			return v
		}
		return ""
	}
	reg("(*strings.Builder).WriteString", func(fr *frame, a []value) value {
		i := fr.i
		i.builderSet(a[0], i.strConcat(bget(i, a[0]), a[1]))
		if _, isRope := a[1].(*Rope); isRope {
			// the byte count of a formatted chunk may depend on symbolic values (quoting): leave it unconstrained
			return tuple{&Sym{i.tt.Var(i.freshName("written"), 64), types.Int}, iface{}}
		}
		return tuple{i.strLenOr(a[1]), iface{}}
	})
	reg("(*strings.Builder).WriteByte", func(fr *frame, a []value) value {
		i := fr.i
		i.builderSet(a[0], i.strConcat(bget(i, a[0]), mkStr([]value{a[1]})))
		return iface{}
	})
	reg("(*strings.Builder).WriteRune", func(fr *frame, a []value) value {
		i := fr.i
		s := i.runeToString(a[1])
		i.builderSet(a[0], i.strConcat(bget(i, a[0]), s))
		return tuple{i.strLenOr(s), iface{}}
	})
	reg("(*strings.Builder).Write", func(fr *frame, a []value) value {
		i := fr.i
		bs := a[1].([]value)
		i.builderSet(a[0], i.strConcat(bget(i, a[0]), mkStr(append([]value{}, bs...))))
		return tuple{len(bs), iface{}}
	})
	reg("(*strings.Builder).String", func(fr *frame, a []value) value { return bget(fr.i, a[0]) })
	reg("(*strings.Builder).Len", func(fr *frame, a []value) value { return fr.i.strLenOr(bget(fr.i, a[0])) })
	reg("(*strings.Builder).Grow", func(fr *frame, a []value) value { return nil })
	reg("(*strings.Builder).Reset", func(fr *frame, a []value) value {
		fr.i.builderSet(a[0], "")
		return nil
	})

	// ---------------- bytes ----------------
	reg("bytes.IndexByte", func(fr *frame, a []value) value {
		return fr.i.strIndex(mkStr(append([]value{}, a[0].([]value)...)), mkStr([]value{a[1]}))
	})
	reg("bytes.Index", func(fr *frame, a []value) value {
		return fr.i.strIndex(mkStr(append([]value{}, a[0].([]value)...)), mkStr(append([]value{}, a[1].([]value)...)))
	})
	reg("bytes.Equal", func(fr *frame, a []value) value {
		i := fr.i
		return i.boolVal(i.strEqTerm(mkStr(append([]value{}, a[0].([]value)...)), mkStr(append([]value{}, a[1].([]value)...))))
	})

	// ---------------- unicode ----------------
	uni := func(name string, ascii func(b byte) bool, full func(r rune) bool) intrinsic {
		return func(fr *frame, a []value) value {
			i := fr.i
			s, ok := a[0].(*Sym)
			if !ok {
				return full(rune(asInt64(a[0])))
			}
			return i.boolVal(i.runeClassTerm(name, s, ascii))
		}
	}
	reg("unicode.IsSpace", uni("unicode.IsSpace", func(b byte) bool { return unicode.IsSpace(rune(b)) }, unicode.IsSpace))
	reg("unicode.IsDigit", uni("unicode.IsDigit", func(b byte) bool { return unicode.IsDigit(rune(b)) }, unicode.IsDigit))
	reg("unicode.IsLetter", uni("unicode.IsLetter", func(b byte) bool { return unicode.IsLetter(rune(b)) }, unicode.IsLetter))
	reg("unicode.IsPrint", uni("unicode.IsPrint", func(b byte) bool { return unicode.IsPrint(rune(b)) }, unicode.IsPrint))
	reg("unicode.IsUpper", uni("unicode.IsUpper", func(b byte) bool { return unicode.IsUpper(rune(b)) }, unicode.IsUpper))
	reg("unicode.IsLower", uni("unicode.IsLower", func(b byte) bool { return unicode.IsLower(rune(b)) }, unicode.IsLower))
	reg("unicode.IsControl", uni("unicode.IsControl", func(b byte) bool { return unicode.IsControl(rune(b)) }, unicode.IsControl))

	// ---------------- go-runewidth: contract stub ----------------
	reg("github.com/mattn/go-runewidth.RuneWidth", func(fr *frame, a []value) value {
		i := fr.i
		s, ok := a[0].(*Sym)
		if !ok {
			return runewidth.RuneWidth(rune(asInt64(a[0])))
		}
		// printable ASCII: 1; control: 0; otherwise free in [0,2]
		tt := i.tt
		w, _ := kindWidth(s.k)
		t := s.t
		if i.decide(tt.And(tt.Bin(OpSle, tt.Const(w, 0x20), t), tt.Bin(OpSlt, t, tt.Const(w, 0x7f)))) {
			return 1
		}
		if i.decide(tt.And(tt.Bin(OpSle, tt.Const(w, 0), t), tt.Bin(OpSlt, t, tt.Const(w, 0x20)))) {
			return 0
		}
		i.freeStub("runewidth.RuneWidth on a symbolic non-ASCII rune (free in [0,2])")
		return i.choose(3, "runewidth")
	})
	reg("github.com/mattn/go-runewidth.StringWidth", func(fr *frame, a []value) value {
		i := fr.i
		if s, ok := a[0].(string); ok {
			return runewidth.StringWidth(s)
		}
		bs := strBytes(a[0])
		tt := i.tt
		n := 0
		for _, b := range bs {
			if c, ok := b.(uint8); ok {
				if c >= 0x80 {
					panic(unsupported{"runewidth.StringWidth: non-ASCII byte in partly symbolic string"})
				}
				n += runewidth.RuneWidth(rune(c))
				continue
			}
			t := b.(*Sym).t
			i.noteAssume("runewidth.StringWidth on symbolic text: bytes < 0x80 (display width of non-ASCII text is outside the claim)")
			i.assumeTerm(tt.Bin(OpUlt, t, tt.Const(8, 0x80)), "StringWidth ASCII")
			if i.decide(tt.And(tt.Bin(OpUle, tt.Const(8, 0x20), t), tt.Bin(OpUlt, t, tt.Const(8, 0x7f)))) {
				n++
			}
		}
		return n
	})

	// ---------------- strconv ----------------
	reg("strconv.Itoa", func(fr *frame, a []value) value {
		if s, ok := a[0].(*Sym); ok {
			return &Rope{[]ropePart{{verb: "%d", arg: s}}}
		}
		return strconv.Itoa(int(asInt64(a[0])))
	})
	reg("strconv.Quote", func(fr *frame, a []value) value {
		if s, ok := a[0].(string); ok {
			return strconv.Quote(s)
		}
		return &Rope{[]ropePart{{verb: "%q", arg: a[0]}}}
	})
	reg("strconv.QuoteRune", func(fr *frame, a []value) value {
		if s, ok := a[0].(*Sym); ok {
			return &Rope{[]ropePart{{verb: "%q", arg: s}}}
		}
		return strconv.QuoteRune(rune(asInt64(a[0])))
	})
	reg("strconv.AppendQuote", func(fr *frame, a []value) value {
		s, ok := a[1].(string)
		if !ok {
			return append(a[0].([]value), ropeElem{&Rope{[]ropePart{{verb: "%q", arg: a[1]}}}})
		}
		return append(a[0].([]value), strBytes(strconv.Quote(s))...)
	})
	reg("strconv.AppendQuoteRune", func(fr *frame, a []value) value {
		if sr, ok := a[1].(*Sym); ok {
			return append(a[0].([]value), ropeElem{&Rope{[]ropePart{{verb: "%q", arg: sr}}}})
		}
		return append(a[0].([]value), strBytes(strconv.QuoteRune(rune(asInt64(a[1]))))...)
	})
	reg("strconv.Atoi", func(fr *frame, a []value) value {
		i := fr.i
		if s, ok := a[0].(string); ok {
			n, err := strconv.Atoi(s)
			if err != nil {
				return tuple{n, i.newError(err.Error())}
			}
			return tuple{n, iface{}}
		}
		return fr.interpretSelf(a)
	})
	reg("strconv.ParseInt", func(fr *frame, a []value) value {
		i := fr.i
		base := int(asInt64(a[1]))
		bits := int(asInt64(a[2]))
		if s, ok := a[0].(string); ok {
			n, err := strconv.ParseInt(s, base, bits)
			if err != nil {
				return tuple{n, i.newError(err.Error())}
			}
			return tuple{n, iface{}}
		}
		_ = bits
		return fr.interpretSelf(a)
	})
	reg("strconv.ParseFloat", func(fr *frame, a []value) value {
		i := fr.i
		if s, ok := a[0].(string); ok {
			f, err := strconv.ParseFloat(s, int(asInt64(a[1])))
			if err != nil {
				return tuple{f, i.newError(err.Error())}
			}
			return tuple{f, iface{}}
		}
		return i.parseFloatStub(a[0])
	})
	reg("strconv.ParseBool", func(fr *frame, a []value) value {
		i := fr.i
		s := mustString(a[0], "strconv.ParseBool")
		b, err := strconv.ParseBool(s)
		if err != nil {
			return tuple{b, i.newError(err.Error())}
		}
		return tuple{b, iface{}}
	})
	reg("strconv.FormatInt", func(fr *frame, a []value) value {
		return strconv.FormatInt(asInt64(a[0]), int(asInt64(a[1])))
	})

	reg("internal/stringslite.Clone", func(fr *frame, a []value) value { return a[0] })
	reg("strings.Clone", func(fr *frame, a []value) value { return a[0] })
	// ---------------- math ----------------
	reg("math.IsNaN", func(fr *frame, a []value) value {
		if f, ok := a[0].(*symFloat); ok {
			return f.class == fNaN
		}
		return math.IsNaN(a[0].(float64))
	})
	reg("math.IsInf", func(fr *frame, a []value) value {
		if f, ok := a[0].(*symFloat); ok {
			return f.class == fInf
		}
		return math.IsInf(a[0].(float64), int(asInt64(a[1])))
	})

	// ---------------- regexp (native, concrete only) ----------------
	reg("regexp.MustCompile", func(fr *frame, a []value) value {
		return nativePtr(regexp.MustCompile(mustString(a[0], "regexp.MustCompile")))
	})
	reg("regexp.Compile", func(fr *frame, a []value) value {
		i := fr.i
		re, err := regexp.Compile(mustString(a[0], "regexp.Compile"))
		if err != nil {
			return tuple{(*value)(nil), i.newError(err.Error())}
		}
		return tuple{nativePtr(re), iface{}}
	})
	reg("(*regexp.Regexp).MatchString", func(fr *frame, a []value) value {
		i := fr.i
		re := nativeOf(a[0]).(*regexp.Regexp)
		if s, ok := a[1].(string); ok {
			return re.MatchString(s)
		}
		return i.matchStub(re, a[1])
	})
	reg("(*regexp.Regexp).FindAllStringSubmatch", func(fr *frame, a []value) value {
		re := nativeOf(a[0]).(*regexp.Regexp)
		s, ok := a[1].(string)
		if !ok {
			// symbolic text: leftmost-first backtracking over the compiled program,
			// every byte test is a decision
			i := fr.i
			bs := strBytes(a[1])
			limit := int(asInt64(a[2]))
			var out []value
			pos := 0
			for pos <= len(bs) && (limit < 0 || len(out) < limit) {
				caps := i.regexFindSubmatchIndex(re, bs, pos)
				if caps == nil {
					break
				}
				groups := make([]value, len(caps)/2)
				for g := range groups {
					if caps[2*g] >= 0 && caps[2*g+1] >= 0 {
						groups[g] = mkStr(append([]value{}, bs[caps[2*g]:caps[2*g+1]]...))
					} else {
						groups[g] = ""
					}
				}
				out = append(out, groups)
				if caps[1] == caps[0] {
					pos = caps[1] + 1
				} else {
					pos = caps[1]
				}
			}
			if out == nil {
				return []value(nil)
			}
			return out
		}
		return nativeToValue(re.FindAllStringSubmatch(s, int(asInt64(a[2]))))
	})
	reg("(*regexp.Regexp).FindStringSubmatch", func(fr *frame, a []value) value {
		re := nativeOf(a[0]).(*regexp.Regexp)
		if _, ok := a[1].(string); !ok {
			i := fr.i
			bs := strBytes(a[1])
			caps := i.regexFindSubmatchIndex(re, bs, 0)
			if caps == nil {
				return []value(nil)
			}
			groups := make([]value, len(caps)/2)
			for g := range groups {
				if caps[2*g] >= 0 && caps[2*g+1] >= 0 {
					groups[g] = mkStr(append([]value{}, bs[caps[2*g]:caps[2*g+1]]...))
				} else {
					groups[g] = ""
				}
			}
			return groups
		}
		return nativeToValue(re.FindStringSubmatch(mustString(a[1], "FindStringSubmatch")))
	})
	reg("(*regexp.Regexp).String", func(fr *frame, a []value) value {
		return nativeOf(a[0]).(*regexp.Regexp).String()
	})

	// ---------------- encoding/json (native on concrete data) ----------------
	// yaml.Unmarshal of concrete bytes into a *yaml.Node (the only use in the repo's Parse): native parse,
	// the node tree is imported as interpreter values.
	reg("gopkg.in/yaml.v3.Unmarshal", func(fr *frame, a []value) value {
		i := fr.i
		data, ok := toNative(a[0])
		if !ok {
			panic(unsupported{"yaml.Unmarshal of symbolic data"})
		}
		b, _ := data.([]byte)
		var n yaml.Node
		if err := yaml.Unmarshal(b, &n); err != nil {
			return i.newError(err.Error())
		}
		if n.Kind == 0 {
			return iface{} // empty document: the target is left untouched
		}
		return i.yamlDecodeTarget(fr, &n, a[1])
	})
	reg("(*gopkg.in/yaml.v3.Node).Decode", func(fr *frame, a []value) value {
		n := fr.i.nodeToNative(a[0], map[*value]*yaml.Node{})
		if n == nil {
			panic(runtimeError("invalid memory address or nil pointer dereference (yaml.Node.Decode)"))
		}
		return fr.i.yamlDecodeTarget(fr, n, a[1])
	})

	reg("github.com/bmatcuk/doublestar/v4.ValidatePattern", func(fr *frame, a []value) value {
		return doublestar.ValidatePattern(mustString(a[0], "doublestar pattern"))
	})
	reg("github.com/bmatcuk/doublestar/v4.MatchUnvalidated", func(fr *frame, a []value) value {
		return doublestar.MatchUnvalidated(mustString(a[0], "doublestar pattern"), mustString(a[1], "doublestar name"))
	})

	reg("encoding/json.Unmarshal", func(fr *frame, a []value) value {
		i := fr.i
		data, ok := toNative(a[0])
		if !ok {
			panic(unsupported{"json.Unmarshal of symbolic data"})
		}
		b, _ := data.([]byte)
		if sl, isS := data.([]string); isS && len(sl) == 0 {
			b = []byte{}
		}
		target := a[1].(iface)
		ptr, isPtr := target.v.(*value)
		pt, isPT := target.t.Underlying().(*types.Pointer)
		if !isPtr || !isPT {
			panic(unsupported{"json.Unmarshal target " + target.t.String()})
		}
		if _, isIface := pt.Elem().Underlying().(*types.Interface); !isIface {
			panic(unsupported{"json.Unmarshal into " + pt.Elem().String() + " (reflection-driven decoding)"})
		}
		var out interface{}
		if err := json.Unmarshal(b, &out); err != nil {
			if se, ok := err.(*json.SyntaxError); ok {
				// keep the dynamic type: callers type-assert *json.SyntaxError and read Offset
				if jp := i.prog.ImportedPackage("encoding/json"); jp != nil && jp.Type("SyntaxError") != nil {
					var sv value = structure{se.Error(), se.Offset}
					return iface{t: types.NewPointer(jp.Type("SyntaxError").Type()), v: &sv}
				}
			}
			return i.newError(err.Error())
		}
		*ptr = i.jsonToValue(out)
		return iface{}
	})

	// path/filepath: pure functions, native on concrete strings. The working
	// directory is virtual (verifSetCwd), "/" by default.
	s1 := func(name string, f func(string) string) {
		reg("path/filepath."+name, func(fr *frame, a []value) value { return f(mustString(a[0], "filepath."+name)) })
	}
	for _, n := range []string{"ToSlash", "FromSlash"} {
		name := n
		reg("path/filepath."+name, func(fr *frame, a []value) value {
			if cs, ok := a[0].(string); ok {
				if name == "ToSlash" {
					return filepath.ToSlash(cs)
				}
				return filepath.FromSlash(cs)
			}
			return a[0] // the separator is '/' here: identity
		})
	}
	s1("Dir", filepath.Dir)
	s1("Base", filepath.Base)
	s1("Clean", filepath.Clean)
	s1("Ext", filepath.Ext)
	reg("path/filepath.IsAbs", func(fr *frame, a []value) value { return filepath.IsAbs(mustString(a[0], "filepath.IsAbs")) })
	reg("path/filepath.Join", func(fr *frame, a []value) value {
		var parts []string
		sym := false
		for _, e := range a[0].([]value) {
			if _, ok := e.(string); !ok {
				sym = true
			}
		}
		if sym {
			// symbolic path elements: joined with separators but not cleaned (the only consumers are
			// the virtual file system of a harness and messages that echo the path)
			fr.i.stubsHit["filepath.Join with symbolic elements = concatenation without cleaning"]++
			var out value = ""
			for k, e := range a[0].([]value) {
				if k > 0 {
					out = fr.i.strConcat(out, "/")
				}
				out = fr.i.strConcat(out, e)
			}
			return out
		}
		for _, e := range a[0].([]value) {
			parts = append(parts, mustString(e, "filepath.Join"))
		}
		return filepath.Join(parts...)
	})
	reg("path/filepath.Rel", func(fr *frame, a []value) value {
		r, err := filepath.Rel(mustString(a[0], "filepath.Rel"), mustString(a[1], "filepath.Rel"))
		if err != nil {
			return tuple{"", fr.i.newError(err.Error())}
		}
		return tuple{r, iface{}}
	})
	reg("os.Getwd", func(fr *frame, a []value) value { return tuple{fr.i.cwd(), iface{}} })
	reg(pkgPrefix+"verifSetCwd", func(fr *frame, a []value) value {
		fr.i.vcwd = mustString(a[0], "verifSetCwd")
		return nil
	})
	reg("path/filepath.Abs", func(fr *frame, a []value) value {
		i := fr.i
		if s, ok := a[0].(string); ok {
			if filepath.IsAbs(s) {
				return tuple{filepath.Clean(s), iface{}}
			}
			return tuple{filepath.Join(i.cwd(), s), iface{}}
		}
		bs := strBytes(a[0])
		if len(bs) == 0 {
			panic(unsupported{"filepath.Abs of empty symbolic path"})
		}
		// contract: an absolute, clean path is returned unchanged
		i.noteAssume("filepath.Abs on symbolic path: the path is absolute and clean (identity)")
		i.assumeTerm(i.byteEq(bs[0], uint8('/')), "filepath.Abs absolute")
		return tuple{a[0], iface{}}
	})
	reg("net/url.Parse", func(fr *frame, a []value) value {
		i := fr.i
		if _, ok := a[0].(string); !ok {
			// contract stub: the error is free; url.Error renders the URL with %q
			i.freeStub("net/url.Parse on symbolic text (free error, message quotes the URL)")
			if i.decide(i.freshBool("url_Parse_err")) {
				return tuple{(*value)(nil), i.newError(&Rope{[]ropePart{{lit: "parse "}, {verb: "%q", arg: a[0]}, {lit: ": invalid URL"}}})}
			}
			return tuple{nativePtr("url"), iface{}}
		}
		_, err := url.Parse(mustString(a[0], "url.Parse"))
		if err != nil {
			return tuple{(*value)(nil), i.newError(err.Error())}
		}
		return tuple{nativePtr("url"), iface{}} // opaque: callers only look at the error
	})

	// ---------------- cron / time (native on concrete data) ----------------
	reg("(github.com/robfig/cron/v3.Parser).Parse", func(fr *frame, a []value) value {
		i := fr.i
		spec, ok := a[1].(string)
		if !ok {
			return fr.interpretSelf(a)
		}
		opts := asInt64(a[0].(structure)[0])
		sched, err := cron.NewParser(cron.ParseOption(opts)).Parse(spec)
		if err != nil {
			return tuple{iface{}, i.newError(err.Error())}
		}
		t := types.NewPointer(i.namedType("github.com/robfig/cron/v3", "SpecSchedule"))
		return tuple{iface{t: t, v: nativePtr(sched)}, iface{}}
	})
	reg("(*github.com/robfig/cron/v3.SpecSchedule).Next", func(fr *frame, a []value) value {
		if p, ok := a[0].(*value); ok && p != nil {
			if _, native := (*p).(*nativeVal); !native {
				// a schedule parsed from symbolic text: its activation times are unknown
				fr.i.stubsHit["cron.SpecSchedule.Next on a symbolic schedule = unknown time"]++
				return &nativeVal{timeUnknown{}}
			}
		}
		if _, unk := a[1].(*nativeVal).v.(timeUnknown); unk {
			return &nativeVal{timeUnknown{}}
		}
		sched := nativeOf(a[0]).(cron.Schedule)
		t := a[1].(*nativeVal).v.(time.Time)
		return &nativeVal{sched.Next(t)}
	})
	reg("time.Unix", func(fr *frame, a []value) value {
		return &nativeVal{time.Unix(asInt64(a[0]), asInt64(a[1]))}
	})
	reg("(time.Time).Sub", func(fr *frame, a []value) value {
		_, u0 := a[0].(*nativeVal).v.(timeUnknown)
		_, u1 := a[1].(*nativeVal).v.(timeUnknown)
		if u0 || u1 {
			return &Sym{fr.i.tt.Var(fr.i.freshName("duration"), 64), types.Int64}
		}
		return int64(a[0].(*nativeVal).v.(time.Time).Sub(a[1].(*nativeVal).v.(time.Time)))
	})
	reg("(time.Duration).Seconds", func(fr *frame, a []value) value {
		if _, sym := a[0].(*Sym); sym {
			fr.i.symN++
			return &symFloat{class: fFinite, id: fr.i.symN}
		}
		return time.Duration(asInt64(a[0])).Seconds()
	})
	reg("time.LoadLocation", func(fr *frame, a []value) value {
		i := fr.i
		name, ok := a[0].(string)
		if !ok {
			// unknown zone name: either it does not exist or it is some zone
			i.stubsHit["time.LoadLocation of a symbolic name = error or some zone"]++
			if i.choose(2, "loadlocation") == 0 {
				return tuple{(*value)(nil), i.newError("unknown time zone")}
			}
			return tuple{nativePtr(time.UTC), iface{}}
		}
		loc, err := time.LoadLocation(name)
		if err != nil {
			return tuple{(*value)(nil), i.newError(err.Error())}
		}
		return tuple{nativePtr(loc), iface{}}
	})
	reg("(time.Duration).Milliseconds", func(fr *frame, a []value) value {
		return time.Duration(asInt64(a[0])).Milliseconds()
	})

	// ---------------- sync: no-ops in sequential harnesses ----------------
	nop := func(fr *frame, a []value) value { return nil }
	for _, n := range []string{"(*sync.Mutex).Lock", "(*sync.Mutex).Unlock", "(*sync.RWMutex).Lock", "(*sync.RWMutex).Unlock",
		"(*sync.RWMutex).RLock", "(*sync.RWMutex).RUnlock"} {
		name := n
		reg(name, func(fr *frame, a []value) value {
			if fr.i.trace != nil {
				fr.i.trace.syncEvent(name, a[0], 1)
			}
			return nil
		})
	}
	sortSlice := func(stable bool) intrinsic {
		return func(fr *frame, a []value) value {
			i := fr.i
			xs, ok := a[0].(iface).v.([]value)
			if !ok {
				panic(unsupported{"sort.Slice of non-slice"})
			}
			before := append([]value{}, xs...)
			// sort a permutation with the interpreted less function, then apply it
			idx := make([]int, len(xs))
			for k := range idx {
				idx[k] = k
			}
			less := func(p, q int) bool {
				// less refers to the slice by index: evaluate it on the original order
				return i.truth(call(i, fr, 0, a[1], []value{idx[p], idx[q]}))
			}
			if stable {
				sort.SliceStable(idx, less)
			} else {
				sort.SliceStable(idx, less) // deterministic for replay; any valid result of sort.Slice is allowed
			}
			for k, p := range idx {
				if p != k {
					i.noteWrite(&xs[k])
				}
			}
			for k, p := range idx {
				xs[k] = before[p]
			}
			return nil
		}
	}
	reg("sort.Slice", sortSlice(false))
	reg("sort.SliceStable", sortSlice(true))
	reg("runtime.NumCPU", func(fr *frame, a []value) value {
		if fr.i.numCPU > 0 {
			return fr.i.numCPU
		}
		return 4
	})
	// GOMAXPROCS is a setting of its own: in the model it is never equal to the number of CPUs
	// (NumCPU + 3), so that code which bounds something by the wrong one of the two is visible
	reg("runtime.GOMAXPROCS", func(fr *frame, a []value) value {
		if fr.i.gomaxprocs > 0 {
			return fr.i.gomaxprocs
		}
		if fr.i.numCPU > 0 {
			return fr.i.numCPU + 3
		}
		return 7
	})
	reg(pkgPrefix+"verifSetGOMAXPROCS", func(fr *frame, a []value) value {
		fr.i.gomaxprocs = int(asInt64(a[0]))
		return nil
	})
	reg("(*regexp.Regexp).ReplaceAllStringFunc", func(fr *frame, a []value) value {
		re := nativeOf(a[0]).(*regexp.Regexp)
		i := fr.i
		if s, ok := a[1].(string); ok {
			return re.ReplaceAllStringFunc(s, func(m string) string {
				r := call(i, fr, 0, a[2], []value{m})
				return mustString(r, "ReplaceAllStringFunc result")
			})
		}
		// symbolic text: leftmost-first matches found by the backtracking matcher
		bs := strBytes(a[1])
		var out value = ""
		pos, last := 0, 0
		for pos <= len(bs) {
			caps := i.regexFindSubmatchIndex(re, bs, pos)
			if caps == nil {
				break
			}
			out = i.strConcat(out, mkStr(append([]value{}, bs[last:caps[0]]...)))
			out = i.strConcat(out, call(i, fr, 0, a[2], []value{mkStr(append([]value{}, bs[caps[0]:caps[1]]...))}))
			last = caps[1]
			if caps[1] == caps[0] {
				pos = caps[1] + 1
			} else {
				pos = caps[1]
			}
		}
		return i.strConcat(out, mkStr(append([]value{}, bs[last:]...)))
	})
	reg(pkgPrefix+"verifSetNumCPU", func(fr *frame, a []value) value {
		fr.i.numCPU = int(asInt64(a[0]))
		return nil
	})
	reg(pkgPrefix+"verifTraceStart", func(fr *frame, a []value) value {
		fr.i.trace = newTraceState()
		return nil
	})
	reg(pkgPrefix+"verifTraceEvent", func(fr *frame, a []value) value {
		if fr.i.trace != nil {
			fr.i.trace.syncEvent("user:"+mustString(a[0], "verifTraceEvent"), nil, 1)
		}
		return nil
	})
	reg(pkgPrefix+"verifTraceAccesses", func(fr *frame, a []value) value {
		if fr.i.trace != nil {
			fr.i.trace.recAcc = fr.i.truth(a[0])
		}
		return nil
	})
	reg(pkgPrefix+"verifRaceCheck", func(fr *frame, a []value) value {
		fr.i.raceCheck()
		return nil
	})
	reg(pkgPrefix+"verifScheduleCheck", func(fr *frame, a []value) value {
		fr.i.scheduleCheck(int(asInt64(a[0])), len(a) > 1 && asInt64(a[1]) != 0)
		return nil
	})
	reg("context.Background", func(fr *frame, a []value) value { return iface{} })
	reg("golang.org/x/sync/semaphore.NewWeighted", func(fr *frame, a []value) value {
		p := nativePtr("semaphore")
		if fr.i.trace != nil {
			fr.i.trace.semCap[p] = asInt64(a[0])
		}
		return p
	})
	reg("(*golang.org/x/sync/semaphore.Weighted).Acquire", func(fr *frame, a []value) value {
		if fr.i.trace != nil {
			fr.i.trace.syncEvent("sem.Acquire", a[0], asInt64(a[2]))
		}
		return iface{}
	})
	reg("(*golang.org/x/sync/semaphore.Weighted).Release", func(fr *frame, a []value) value {
		if fr.i.trace != nil {
			fr.i.trace.syncEvent("sem.Release", a[0], asInt64(a[1]))
		}
		return nil
	})
	for _, n := range []string{"Add", "Done", "Wait"} {
		name := "(*sync.WaitGroup)." + n
		reg(name, func(fr *frame, a []value) value {
			if fr.i.trace != nil {
				n := int64(1)
				if len(a) > 1 {
					n = asInt64(a[1])
				}
				fr.i.trace.syncEvent(name, a[0], n)
			}
			return nil
		})
	}
	// errgroup in sequential harnesses: Go runs the function at once, Wait
	// returns the first error
	reg("(*golang.org/x/sync/errgroup.Group).Go", func(fr *frame, a []value) value {
		i := fr.i
		if i.trace != nil {
			i.trace.spawn(i, fr, a[0], a[1], nil)
			return nil
		}
		if i.goOrder != nil {
			// goroutine-order mode: the functions run at Wait, in the order the harness chose
			i.goPending = append(i.goPending, [2]value{a[0], a[1]})
			return nil
		}
		r := call(i, fr, 0, a[1], nil)
		if e, ok := r.(iface); ok && e.t != nil {
			if i.egErr == nil {
				i.egErr = map[*value]value{}
			}
			if _, seen := i.egErr[a[0].(*value)]; !seen {
				i.egErr[a[0].(*value)] = e
			}
		}
		return nil
	})
	reg("(*golang.org/x/sync/errgroup.Group).Wait", func(fr *frame, a []value) value {
		if fr.i.trace != nil {
			fr.i.trace.syncEvent("eg.Wait", a[0], 1)
		}
		if i := fr.i; i.goOrder != nil {
			var mine, rest [][2]value
			for _, p := range i.goPending {
				if p[0].(*value) == a[0].(*value) {
					mine = append(mine, p)
				} else {
					rest = append(rest, p)
				}
			}
			i.goPending = rest
			done := make([]bool, len(mine))
			runOne := func(k int) {
				if k < 0 || k >= len(mine) || done[k] {
					return
				}
				done[k] = true
				r := call(i, fr, 0, mine[k][1], nil)
				if e, ok := r.(iface); ok && e.t != nil {
					if i.egErr == nil {
						i.egErr = map[*value]value{}
					}
					if _, seen := i.egErr[a[0].(*value)]; !seen {
						i.egErr[a[0].(*value)] = e
					}
				}
			}
			for _, k := range i.goOrder {
				runOne(k)
			}
			for k := range mine {
				runOne(k)
			}
		}
		if e, ok := fr.i.egErr[a[0].(*value)]; ok {
			return e
		}
		return iface{}
	})
	// verifGoOrder(perm): goroutines started through an errgroup run as wholes, in the
	// given order, when the group is waited for (nil: at once, in spawn order)
	reg(pkgPrefix+"verifGoOrder", func(fr *frame, a []value) value {
		fr.i.goOrder = nil
		fr.i.goPending = nil
		if sl, ok := a[0].([]value); ok && sl != nil {
			fr.i.goOrder = []int{}
			for _, v := range sl {
				fr.i.goOrder = append(fr.i.goOrder, int(asInt64(v)))
			}
		}
		return nil
	})
	// yaml.v3's implicit-tag resolution, reached from (*Node).ShortTag for a scalar without a tag:
	// native on concrete text (only the tag is used by the caller)
	reg("gopkg.in/yaml.v3.resolve", func(fr *frame, a []value) value {
		tag, ok1 := a[0].(string)
		in, ok2 := a[1].(string)
		if ok1 && tag == "" && !ok2 {
			// symbolic text: exact for the null spellings; any other text gets one of the other
			// implicit tags (free choice: an over-approximation, replayed natively before it is believed)
			i := fr.i
			for _, sp := range []string{"", "~", "null", "Null", "NULL"} {
				if i.decide(i.strEqTerm(a[1], sp)) {
					return tuple{"!!null", iface{}}
				}
			}
			tags := []string{"!!str", "!!bool", "!!int", "!!float", "!!timestamp", "!!merge"}
			return tuple{tags[i.choose(len(tags), "yaml-implicit-tag")], iface{}}
		}
		if !ok1 || !ok2 || tag != "" {
			panic(unsupported{"yaml.v3 resolve with an explicit tag"})
		}
		n := yaml.Node{Kind: yaml.ScalarNode, Value: in}
		return tuple{n.ShortTag(), iface{}}
	})
	// sync.Map: an association list per receiver (empty at the start of every path, as in a fresh
	// process); concurrency is the schedule back end's business, not this model's
	smap := func(fr *frame, recv value) *amap {
		i := fr.i
		p := recv.(*value)
		if i.syncMaps == nil {
			i.syncMaps = map[*value]*amap{}
		}
		m := i.syncMaps[p]
		if m == nil {
			m = &amap{}
			i.syncMaps[p] = m
		}
		return m
	}
	reg("(*sync.Map).Load", func(fr *frame, a []value) value {
		v, ok := fr.i.mapLookup(smap(fr, a[0]), a[1])
		if !ok {
			return tuple{iface{}, false}
		}
		return tuple{v, true}
	})
	reg("(*sync.Map).Store", func(fr *frame, a []value) value {
		fr.i.mapInsert(smap(fr, a[0]), a[1], a[2])
		return nil
	})
	reg("(*sync.Map).LoadOrStore", func(fr *frame, a []value) value {
		m := smap(fr, a[0])
		if v, ok := fr.i.mapLookup(m, a[1]); ok {
			return tuple{v, true}
		}
		fr.i.mapInsert(m, a[1], a[2])
		return tuple{a[2], false}
	})
	reg("(*sync.Map).Delete", func(fr *frame, a []value) value {
		fr.i.mapDelete(smap(fr, a[0]), a[1])
		return nil
	})
	reg("(*sync.Map).Range", func(fr *frame, a []value) value {
		m := smap(fr, a[0])
		ks, vs := append([]value{}, m.keys...), append([]value{}, m.vals...)
		for k := range ks {
			r := call(fr.i, fr, 0, a[1], []value{ks[k], vs[k]})
			if b, ok := r.(bool); ok && !b {
				break
			}
		}
		return nil
	})
	reg("(*sync.Once).Do", func(fr *frame, a []value) value {
		i := fr.i
		p := a[0].(*value)
		if i.initOnce[p] || i.onceDone[p] {
			return nil
		}
		i.onceDone[p] = true
		call(i, fr, 0, a[1], nil)
		return nil
	})
	_ = nop
}

// ---- helpers used by intrinsics ----

func (i *interpreter) cwd() string {
	if i.vcwd == "" {
		return "/"
	}
	return i.vcwd
}

func (i *interpreter) noteAssume(s string) {
	for _, a := range i.assumes {
		if a == s {
			return
		}
	}
	i.assumes = append(i.assumes, s)
}

func (i *interpreter) builderSet(recv value, v value) {
	if i.builders == nil {
		i.builders = map[*value]value{}
	}
	i.builders[recv.(*value)] = v
}

func (i *interpreter) strLenOr(v value) value {
	switch s := v.(type) {
	case string:
		return len(s)
	case SymStr:
		return len(s)
	}
	if r, ok := v.(*Rope); ok {
		return i.ropeLen(r)
	}
	panic(unsupported{"length of a formatted message with symbolic parts"})
}

// containsTerm is the term "s contains p" (no fork).
func (i *interpreter) containsTerm(s, p []value) *Term {
	r := i.tt.False
	for k := 0; k+len(p) <= len(s); k++ {
		r = i.tt.Or(r, i.strEqTerm(mkStr(s[k:k+len(p)]), mkStr(p)))
	}
	return r
}

// strIndex decides the first match position.
func (i *interpreter) strIndex(sv, pv value) value {
	if s, ok := sv.(string); ok {
		if p, ok := pv.(string); ok {
			return strings.Index(s, p)
		}
	}
	s, p := strBytes(sv), strBytes(pv)
	for k := 0; k+len(p) <= len(s); k++ {
		if i.decide(i.strEqTerm(mkStr(s[k:k+len(p)]), mkStr(p))) {
			return k
		}
	}
	return -1
}

func (i *interpreter) asciiSpaceTerm(b value) *Term {
	if c, ok := b.(uint8); ok {
		return i.tt.Bool(c == ' ' || c == '\t' || c == '\n' || c == '\r' || c == '\v' || c == '\f' || c == 0x85 || c == 0xA0)
	}
	tt := i.tt
	t := b.(*Sym).t
	r := tt.False
	for _, c := range []uint64{' ', '\t', '\n', '\r', '\v', '\f'} {
		r = tt.Or(r, tt.Eq(t, tt.Const(8, c)))
	}
	i.noteAssume("whitespace trimming on symbolic text: bytes < 0x80")
	i.assumeTerm(tt.Bin(OpUlt, t, tt.Const(8, 0x80)), "TrimSpace ASCII")
	return r
}

// runeClassTerm: exact for code points < 0x80, an uninterpreted predicate
// (one fresh boolean per distinct rune term) above.
func (i *interpreter) runeClassTerm(name string, s *Sym, ascii func(b byte) bool) *Term {
	tt := i.tt
	w, _ := kindWidth(s.k)
	t := s.t
	exact := tt.False
	// group consecutive ASCII members into ranges
	for lo := 0; lo < 128; lo++ {
		if !ascii(byte(lo)) {
			continue
		}
		hi := lo
		for hi+1 < 128 && ascii(byte(hi+1)) {
			hi++
		}
		if lo == hi {
			exact = tt.Or(exact, tt.Eq(t, tt.Const(w, uint64(lo))))
		} else {
			exact = tt.Or(exact, tt.And(tt.Bin(OpUle, tt.Const(w, uint64(lo)), t), tt.Bin(OpUle, t, tt.Const(w, uint64(hi)))))
		}
		lo = hi
	}
	isASCII := tt.Bin(OpUlt, t, tt.Const(w, 0x80))
	if isASCII.IsTrue() {
		return exact
	}
	i.freeStub(name + " (non-ASCII: uninterpreted)")
	uf := tt.Var(fmt.Sprintf("uf_%s_t%d", sanitize(name), t.id), 0)
	return tt.Ite(isASCII, exact, uf)
}

func (i *interpreter) freshBool(base string) *Term {
	i.symN++
	return i.tt.Var(fmt.Sprintf("nd_%s_%d", sanitize(base), i.symN), 0)
}

func (i *interpreter) freshBV(base string, w int) *Term {
	i.symN++
	return i.tt.Var(fmt.Sprintf("nd_%s_%d", sanitize(base), i.symN), w)
}

// parseIntStub: contract stub for integer parsing of symbolic text:
// (v, err) with err free and v free within the bit size.
func (i *interpreter) parseIntStub(name string, s value, k types.BasicKind, bits int) value {
	i.freeStub(name + " (contract stub on symbolic text)")
	if i.decide(i.freshBool(name + "_err")) {
		return tuple{mkConc(k, 0), i.newError(&Rope{[]ropePart{{lit: name + ": parsing "}, {verb: "%q", arg: s}, {lit: ": invalid syntax"}}})}
	}
	v := i.freshBV(name+"_val", 64)
	if bits > 0 && bits < 64 {
		tt := i.tt
		lo := tt.Const(64, uint64(-(int64(1) << uint(bits-1))))
		hi := tt.Const(64, uint64((int64(1)<<uint(bits-1))-1))
		i.assumeTerm(tt.And(tt.Bin(OpSle, lo, v), tt.Bin(OpSle, v, hi)), name+" range")
	}
	return tuple{mkSym(v, k), iface{}}
}

type floatClass int

const (
	fFinite floatClass = iota
	fNaN
	fInf
)

// symFloat is an opaque float: only its class is known.
// timeUnknown stands for a time.Time the engine knows nothing about.
type timeUnknown struct{}

type symFloat struct {
	class floatClass
	id    int
}

// parseFloatStub follows strconv.ParseFloat's contract: the special forms
// (inf, infinity, nan, any case, optional sign) give Inf/NaN with nil error;
// everything else gives either an error or an unknown finite value.
func (i *interpreter) parseFloatStub(s value) value {
	if cs, ok := i.uniqueString(s); ok {
		f, err := strconv.ParseFloat(cs, 64)
		if err != nil {
			return tuple{f, i.newError(err.Error())}
		}
		return tuple{f, iface{}}
	}
	i.freeStub("strconv.ParseFloat (contract stub on symbolic text: special forms exact, otherwise free)")
	bs := strBytes(s)
	lower := func(b value) value {
		if c, ok := b.(uint8); ok {
			if c >= 'A' && c <= 'Z' {
				return c + 0x20
			}
			return c
		}
		tt := i.tt
		t := b.(*Sym).t
		isU := tt.And(tt.Bin(OpUle, tt.Const(8, 'A'), t), tt.Bin(OpUle, t, tt.Const(8, 'Z')))
		return mkSym(tt.Ite(isU, tt.Bin(OpAdd, t, tt.Const(8, 0x20)), t), types.Uint8)
	}
	matches := func(bs []value, word string) *Term {
		if len(bs) != len(word) {
			return i.tt.False
		}
		lw := make([]value, len(bs))
		for k := range bs {
			lw[k] = lower(bs[k])
		}
		return i.strEqTerm(mkStr(lw), word)
	}
	special := func(rest []value) (floatClass, bool) {
		if i.decide(matches(rest, "nan")) {
			return fNaN, true
		}
		if i.decide(matches(rest, "inf")) || i.decide(matches(rest, "infinity")) {
			return fInf, true
		}
		return 0, false
	}
	i.symN++
	if len(bs) > 0 {
		rest := bs
		signed := false
		if i.decide(i.tt.Or(i.byteEq(bs[0], uint8('+')), i.byteEq(bs[0], uint8('-')))) {
			rest = bs[1:]
			signed = true
		}
		if c, ok := special(rest); ok {
			if !(c == fNaN && signed) {
				return tuple{&symFloat{class: c, id: i.symN}, iface{}}
			}
		}
	}
	if i.decide(i.freshBool("ParseFloat_err")) {
		return tuple{float64(0), i.newError(&Rope{[]ropePart{{lit: "strconv.ParseFloat: parsing "}, {verb: "%q", arg: s}, {lit: ": invalid syntax"}}})}
	}
	return tuple{&symFloat{class: fFinite, id: i.symN}, iface{}}
}

// matchStub: a regular expression applied to symbolic text is a free boolean,
// functionally consistent per (pattern, subject term) pair.
func (i *interpreter) matchStub(re *regexp.Regexp, s value) value {
	if _, isRope := s.(*Rope); !isRope {
		return i.boolVal(i.regexMatchTerm(re, strBytes(s)))
	}
	i.freeStub("(*regexp.Regexp).MatchString (uninterpreted on symbolic text)")
	key := fmt.Sprintf("%p", re)
	for _, b := range strBytes(s) {
		if sb, ok := b.(*Sym); ok {
			key += fmt.Sprintf("_t%d", sb.t.id)
		} else {
			key += fmt.Sprintf("_%02x", b.(uint8))
		}
	}
	return i.boolVal(i.tt.Var("uf_match_"+sanitize(key), 0))
}

// msgHasRaw: can a byte satisfying pred reach the message un-quoted?
func (i *interpreter) msgHasRaw(msg value, pred func(byte) bool) *Term {
	tt := i.tt
	byteT := func(b value) *Term {
		if c, ok := b.(uint8); ok {
			return tt.Bool(pred(c))
		}
		t := b.(*Sym).t
		r := tt.False
		for c := 0; c < 256; c++ {
			if pred(byte(c)) {
				r = tt.Or(r, tt.Eq(t, tt.Const(8, uint64(c))))
			}
		}
		return r
	}
	switch m := msg.(type) {
	case string:
		for k := 0; k < len(m); k++ {
			if pred(m[k]) {
				return tt.True
			}
		}
		return tt.False
	case SymStr:
		r := tt.False
		for _, b := range m {
			r = tt.Or(r, byteT(b))
		}
		return r
	case *Rope:
		r := tt.False
		for _, p := range m.parts {
			switch {
			case p.verb == "":
				if p.raw != nil {
					r = tt.Or(r, i.msgHasRaw(p.raw, pred))
				} else {
					r = tt.Or(r, i.msgHasRaw(p.lit, pred))
				}
			case p.verb == "%q" || p.verb == "%d" || p.verb == "%x" || p.verb == "%U" || p.verb == "%t" || p.verb == "%g" || p.verb == "%f" || p.verb == "%e":
				// quoted / numeric renderings never contain raw control bytes
			case p.verb == "%c":
				if s, ok := p.arg.(*Sym); ok {
					w, _ := kindWidth(s.k)
					rr := tt.False
					for c := 0; c < 128; c++ {
						if pred(byte(c)) {
							rr = tt.Or(rr, tt.Eq(s.t, tt.Const(w, uint64(c))))
						}
					}
					r = tt.Or(r, rr)
				}
			default:
				panic(unsupported{"msgHasRaw: verb " + p.verb})
			}
		}
		return r
	}
	panic(unsupported{fmt.Sprintf("msgHasRaw %T", msg)})
}

// ParseQuotedRune extracts the character named by a message of the form
// "... character 'x' ..." (either %q or '%c' rendering).
func ParseQuotedRune(msg string) (rune, bool) {
	k := strings.Index(msg, "character '")
	if k < 0 {
		return 0, false
	}
	rest := msg[k+len("character '"):]
	if strings.HasPrefix(rest, "\\' ") || strings.HasPrefix(rest, "\\'.") {
		return '\\', true // '%c' rendering of a backslash
	}
	r, _, tail, err := strconv.UnquoteChar(rest, '\'')
	if err != nil || !strings.HasPrefix(tail, "'") {
		return 0, false
	}
	return r, true
}

var emptyIface = types.NewInterfaceType(nil, nil).Complete()

// jsonToValue imports a decoded JSON value as an interface{} value.
func (i *interpreter) jsonToValue(x interface{}) value {
	switch v := x.(type) {
	case nil:
		return iface{}
	case bool:
		return iface{t: types.Typ[types.Bool], v: v}
	case float64:
		return iface{t: types.Typ[types.Float64], v: v}
	case string:
		return iface{t: types.Typ[types.String], v: v}
	case []interface{}:
		out := make([]value, len(v))
		for k := range v {
			out[k] = i.jsonToValue(v[k])
		}
		return iface{t: types.NewSlice(emptyIface), v: out}
	case map[string]interface{}:
		m := &amap{}
		keys := make([]string, 0, len(v))
		for k := range v {
			keys = append(keys, k)
		}
		sort.Strings(keys)
		for _, k := range keys {
			m.keys = append(m.keys, k)
			m.vals = append(m.vals, i.jsonToValue(v[k]))
		}
		return iface{t: types.NewMap(types.Typ[types.String], emptyIface), v: m}
	}
	panic(unsupported{fmt.Sprintf("jsonToValue %T", x)})
}

// uniqueString: if the path condition pins a symbolic string to one value,
// return it (one solver query); stubs use it to fall back to the real library.
func (i *interpreter) uniqueString(v value) (string, bool) {
	if cs, ok := v.(string); ok {
		return cs, true
	}
	ss, ok := v.(SymStr)
	if !ok || i.summ != nil {
		return "", false
	}
	cur := make([]byte, len(ss))
	diff := i.tt.False
	for k, b := range ss {
		if c, ok := b.(uint8); ok {
			cur[k] = c
			continue
		}
		t := b.(*Sym).t
		cur[k] = byte(t.Eval(i.model))
		diff = i.tt.Or(diff, i.tt.Not(i.tt.Eq(t, i.tt.Const(8, uint64(cur[k])))))
	}
	if diff.IsFalse() {
		return string(cur), true
	}
	vd, _ := i.solver.Check(append(append([]Lit{}, i.pc...), Lit{diff, false}))
	if vd == Unsat {
		return string(cur), true
	}
	return "", false
}
