package interp

// Symbolic regular-expression matching: the pattern's compiled program
// (regexp/syntax) is simulated Pike-style over a string of concrete length
// whose bytes may be symbolic; thread liveness is a boolean term per program
// counter, so the result is one term and nothing forks. Subject bytes are
// assumed ASCII (one byte = one rune); the assumption is recorded.

import (
	"regexp"
	"regexp/syntax"
)

type reProg struct {
	prog *syntax.Prog
}

func (i *interpreter) compiledProg(re *regexp.Regexp) *syntax.Prog {
	if i.reProgs == nil {
		i.reProgs = map[*regexp.Regexp]*syntax.Prog{}
	}
	if p, ok := i.reProgs[re]; ok {
		return p
	}
	parsed, err := syntax.Parse(re.String(), syntax.Perl)
	if err != nil {
		panic(unsupported{"regexp/syntax.Parse: " + err.Error()})
	}
	prog, err := syntax.Compile(parsed.Simplify())
	if err != nil {
		panic(unsupported{"regexp/syntax.Compile: " + err.Error()})
	}
	i.reProgs[re] = prog
	return prog
}

func isWordByte(c byte) bool {
	return c == '_' || (c >= '0' && c <= '9') || (c >= 'a' && c <= 'z') || (c >= 'A' && c <= 'Z')
}

func (i *interpreter) byteClassTerm(b value, pred func(byte) bool) *Term {
	if c, ok := b.(uint8); ok {
		return i.tt.Bool(pred(c))
	}
	tt := i.tt
	t := b.(*Sym).t
	r := tt.False
	for lo := 0; lo < 128; lo++ {
		if !pred(byte(lo)) {
			continue
		}
		hi := lo
		for hi+1 < 128 && pred(byte(hi+1)) {
			hi++
		}
		if lo == hi {
			r = tt.Or(r, tt.Eq(t, tt.Const(8, uint64(lo))))
		} else {
			r = tt.Or(r, tt.And(tt.Bin(OpUle, tt.Const(8, uint64(lo)), t), tt.Bin(OpUle, t, tt.Const(8, uint64(hi)))))
		}
		lo = hi
	}
	return r
}

func (i *interpreter) runeInstTerm(in *syntax.Inst, b value) *Term {
	switch in.Op {
	case syntax.InstRuneAny:
		return i.tt.True
	case syntax.InstRuneAnyNotNL:
		return i.byteClassTerm(b, func(c byte) bool { return c != '\n' })
	}
	rs := in.Rune
	fold := syntax.Flags(in.Arg)&syntax.FoldCase != 0
	return i.byteClassTerm(b, func(c byte) bool {
		r := rune(c)
		match := func(r rune) bool {
			if len(rs) == 1 {
				return rs[0] == r
			}
			for k := 0; k+1 < len(rs); k += 2 {
				if rs[k] <= r && r <= rs[k+1] {
					return true
				}
			}
			return false
		}
		if match(r) {
			return true
		}
		if fold && len(rs) == 1 {
			if r >= 'a' && r <= 'z' && match(r-0x20) {
				return true
			}
			if r >= 'A' && r <= 'Z' && match(r+0x20) {
				return true
			}
		}
		return false
	})
}

// regexMatchTerm is the term "re matches somewhere in bs".
func (i *interpreter) regexMatchTerm(re *regexp.Regexp, bs []value) *Term {
	tt := i.tt
	prog := i.compiledProg(re)
	n := len(bs)
	for _, b := range bs {
		if s, ok := b.(*Sym); ok {
			i.noteAssume("regular expressions on symbolic text: subject bytes < 0x80 (one byte per rune)")
			i.assumeTerm(tt.Bin(OpUlt, s.t, tt.Const(8, 0x80)), "regexp ASCII subject")
		} else if b.(uint8) >= 0x80 {
			panic(unsupported{"regexp on partly symbolic non-ASCII text"})
		}
	}
	matched := tt.False
	emptyCond := func(flags syntax.EmptyOp, pos int) *Term {
		c := tt.True
		if flags&syntax.EmptyBeginText != 0 && pos != 0 {
			return tt.False
		}
		if flags&syntax.EmptyEndText != 0 && pos != n {
			return tt.False
		}
		if flags&syntax.EmptyBeginLine != 0 && pos != 0 {
			c = tt.And(c, i.byteClassTerm(bs[pos-1], func(b byte) bool { return b == '\n' }))
		}
		if flags&syntax.EmptyEndLine != 0 && pos != n {
			c = tt.And(c, i.byteClassTerm(bs[pos], func(b byte) bool { return b == '\n' }))
		}
		if flags&(syntax.EmptyWordBoundary|syntax.EmptyNoWordBoundary) != 0 {
			prev, cur := tt.False, tt.False
			if pos > 0 {
				prev = i.byteClassTerm(bs[pos-1], isWordByte)
			}
			if pos < n {
				cur = i.byteClassTerm(bs[pos], isWordByte)
			}
			boundary := tt.Not(tt.Eq(prev, cur))
			if flags&syntax.EmptyWordBoundary != 0 {
				c = tt.And(c, boundary)
			}
			if flags&syntax.EmptyNoWordBoundary != 0 {
				c = tt.And(c, tt.Not(boundary))
			}
		}
		return c
	}
	cur := map[uint32]*Term{}
	var add func(list map[uint32]*Term, pc uint32, cond *Term, pos int, depth int)
	add = func(list map[uint32]*Term, pc uint32, cond *Term, pos int, depth int) {
		if cond.IsFalse() || depth > 2000 {
			return
		}
		in := &prog.Inst[pc]
		switch in.Op {
		case syntax.InstFail:
		case syntax.InstAlt, syntax.InstAltMatch:
			add(list, in.Out, cond, pos, depth+1)
			add(list, in.Arg, cond, pos, depth+1)
		case syntax.InstCapture, syntax.InstNop:
			add(list, in.Out, cond, pos, depth+1)
		case syntax.InstEmptyWidth:
			add(list, in.Out, tt.And(cond, emptyCond(syntax.EmptyOp(in.Arg), pos)), pos, depth+1)
		case syntax.InstMatch:
			matched = tt.Or(matched, cond)
		default: // rune instructions
			if old, ok := list[pc]; ok {
				// an empty-width loop can reach the same pc again: or the conditions; if nothing new, stop
				nc := tt.Or(old, cond)
				if nc == old {
					return
				}
				list[pc] = nc
			} else {
				list[pc] = cond
			}
		}
	}
	for pos := 0; pos <= n; pos++ {
		add(cur, uint32(prog.Start), tt.True, pos, 0) // unanchored search: a match may start anywhere
		if pos == n {
			break
		}
		next := map[uint32]*Term{}
		// deterministic order
		for pc := 0; pc < len(prog.Inst); pc++ {
			cond, ok := cur[uint32(pc)]
			if !ok {
				continue
			}
			in := &prog.Inst[pc]
			m := i.runeInstTerm(in, bs[pos])
			add(next, in.Out, tt.And(cond, m), pos+1, 0)
		}
		cur = next
	}
	return matched
}

// ---- submatches on symbolic text: a backtracking matcher with decisions ----

type reBT struct {
	i       *interpreter
	prog    *syntax.Prog
	bs      []value
	n       int
	caps    []int
	visited map[[2]int]bool
	steps   int
}

func (b *reBT) emptyTerm(flags syntax.EmptyOp, pos int) *Term {
	i, tt, bs, n := b.i, b.i.tt, b.bs, b.n
	c := tt.True
	if flags&syntax.EmptyBeginText != 0 && pos != 0 {
		return tt.False
	}
	if flags&syntax.EmptyEndText != 0 && pos != n {
		return tt.False
	}
	if flags&syntax.EmptyBeginLine != 0 && pos != 0 {
		c = tt.And(c, i.byteClassTerm(bs[pos-1], func(x byte) bool { return x == '\n' }))
	}
	if flags&syntax.EmptyEndLine != 0 && pos != n {
		c = tt.And(c, i.byteClassTerm(bs[pos], func(x byte) bool { return x == '\n' }))
	}
	if flags&(syntax.EmptyWordBoundary|syntax.EmptyNoWordBoundary) != 0 {
		prev, cur := tt.False, tt.False
		if pos > 0 {
			prev = i.byteClassTerm(bs[pos-1], isWordByte)
		}
		if pos < n {
			cur = i.byteClassTerm(bs[pos], isWordByte)
		}
		boundary := tt.Not(tt.Eq(prev, cur))
		if flags&syntax.EmptyWordBoundary != 0 {
			c = tt.And(c, boundary)
		}
		if flags&syntax.EmptyNoWordBoundary != 0 {
			c = tt.And(c, tt.Not(boundary))
		}
	}
	return c
}

func (b *reBT) step(pc uint32, pos int) bool {
	b.steps++
	if b.steps > 200000 {
		panic(budgetExceeded{"regular-expression backtracking budget"})
	}
	in := &b.prog.Inst[pc]
	switch in.Op {
	case syntax.InstFail:
		return false
	case syntax.InstAlt, syntax.InstAltMatch:
		return b.step(in.Out, pos) || b.step(in.Arg, pos)
	case syntax.InstNop:
		return b.step(in.Out, pos)
	case syntax.InstCapture:
		if int(in.Arg) < len(b.caps) {
			old := b.caps[in.Arg]
			b.caps[in.Arg] = pos
			if b.step(in.Out, pos) {
				return true
			}
			b.caps[in.Arg] = old
			return false
		}
		return b.step(in.Out, pos)
	case syntax.InstEmptyWidth:
		if !b.i.decide(b.emptyTerm(syntax.EmptyOp(in.Arg), pos)) {
			return false
		}
		return b.step(in.Out, pos)
	case syntax.InstMatch:
		b.caps[1] = pos
		return true
	}
	// rune instructions
	if pos >= b.n {
		return false
	}
	key := [2]int{int(pc), pos}
	if b.visited[key] {
		return false
	}
	b.visited[key] = true
	if !b.i.decide(b.i.runeInstTerm(in, b.bs[pos])) {
		return false
	}
	return b.step(in.Out, pos+1)
}

// regexFindSubmatchIndex: leftmost-first match at or after start; nil if none.
func (i *interpreter) regexFindSubmatchIndex(re *regexp.Regexp, bs []value, start int) []int {
	prog := i.compiledProg(re)
	for _, x := range bs {
		if s, ok := x.(*Sym); ok {
			i.noteAssume("regular expressions on symbolic text: subject bytes < 0x80 (one byte per rune)")
			i.assumeTerm(i.tt.Bin(OpUlt, s.t, i.tt.Const(8, 0x80)), "regexp ASCII subject")
		} else if x.(uint8) >= 0x80 {
			panic(unsupported{"regexp on partly symbolic non-ASCII text"})
		}
	}
	ncap := 2 * (re.NumSubexp() + 1)
	for p := start; p <= len(bs); p++ {
		b := &reBT{i: i, prog: prog, bs: bs, n: len(bs), caps: make([]int, ncap), visited: map[[2]int]bool{}}
		for k := range b.caps {
			b.caps[k] = -1
		}
		b.caps[0] = p
		if b.step(uint32(prog.Start), p) {
			// the end of the whole match is where InstMatch was reached: recompute by tracking
			return b.result()
		}
	}
	return nil
}

func (b *reBT) result() []int { return b.caps }
