package interp

// yaml.v3 decoding into interpreted values: the reflection-driven part of
// yaml.v3 (decode.go) re-done over go/types, so that the repository's own
// UnmarshalYAML methods and the struct tags of its metadata types are executed
// by the interpreter. Scalars are decoded by the real library (native
// n.Decode into a Go variable of the corresponding kind), so resolution rules
// and error texts are the library's. Node contents must be concrete.

import (
	"fmt"
	"go/types"
	"reflect"
	"sort"
	"strconv"
	"strings"

	"golang.org/x/tools/go/ssa"
	"gopkg.in/yaml.v3"
)

type yamlDec struct {
	i       *interpreter
	fr      *frame
	errs    []string // yaml.TypeError entries
	fatal   value    // error returned by an Unmarshaler (not a TypeError)
	aliases int
}

func (i *interpreter) structField(t types.Type, name string) int {
	st := t.Underlying().(*types.Struct)
	for k := 0; k < st.NumFields(); k++ {
		if st.Field(k).Name() == name {
			return k
		}
	}
	panic("no field " + name + " in " + t.String())
}

// nodeToNative exports an interpreted *yaml.Node.
func (i *interpreter) nodeToNative(v value, seen map[*value]*yaml.Node) *yaml.Node {
	p, ok := v.(*value)
	if !ok || p == nil {
		return nil
	}
	if n, ok := seen[p]; ok {
		return n
	}
	s, ok := (*p).(structure)
	if !ok {
		panic(unsupported{fmt.Sprintf("yaml node is %T", *p)})
	}
	nt := i.namedType("gopkg.in/yaml.v3", "Node")
	str := func(name string) string {
		f := s[i.structField(nt, name)]
		cs, ok := f.(string)
		if !ok {
			panic(unsupported{"yaml decoding of a node with symbolic " + name})
		}
		return cs
	}
	n := &yaml.Node{}
	seen[p] = n
	n.Kind = yaml.Kind(asInt64(s[i.structField(nt, "Kind")]))
	n.Style = yaml.Style(asInt64(s[i.structField(nt, "Style")]))
	n.Tag, n.Value, n.Anchor = str("Tag"), str("Value"), str("Anchor")
	n.Line, n.Column = int(asInt64(s[i.structField(nt, "Line")])), int(asInt64(s[i.structField(nt, "Column")]))
	n.Alias = i.nodeToNative(s[i.structField(nt, "Alias")], seen)
	if cs, ok := s[i.structField(nt, "Content")].([]value); ok {
		for _, c := range cs {
			n.Content = append(n.Content, i.nodeToNative(c, seen))
		}
	}
	return n
}

// typeName renders a type the way reflect.Type.String does (the library's error texts use it).
func typeName(t types.Type) string {
	q := func(p *types.Package) string { return p.Name() }
	if st, ok := t.(*types.Struct); ok {
		if st.NumFields() == 0 {
			return "struct {}"
		}
		var fs []string
		for k := 0; k < st.NumFields(); k++ {
			f := st.Field(k).Name() + " " + typeName(st.Field(k).Type())
			if tag := st.Tag(k); tag != "" {
				f += " " + strconv.Quote(tag)
			}
			fs = append(fs, f)
		}
		return "struct { " + strings.Join(fs, "; ") + " }"
	}
	return types.TypeString(t, q)
}

func (d *yamlDec) terror(n *yaml.Node, tag string, t types.Type) {
	if tag == "" {
		tag = n.ShortTag()
	}
	val := n.Value
	if tag != "!!seq" && tag != "!!map" {
		if len(val) > 10 {
			val = " `" + val[:7] + "...`"
		} else {
			val = " `" + val + "`"
		}
	} else {
		val = ""
	}
	d.errs = append(d.errs, fmt.Sprintf("line %d: cannot unmarshal %s%s into %s", n.Line, tag, val, typeName(t)))
}

// unmarshalerOf finds (*T).UnmarshalYAML(*yaml.Node) error in the program.
func (d *yamlDec) unmarshalerOf(t types.Type) *ssa.Function {
	if _, ok := t.(*types.Named); !ok {
		return nil
	}
	ms := d.i.prog.MethodSets.MethodSet(types.NewPointer(t))
	for k := 0; k < ms.Len(); k++ {
		sel := ms.At(k)
		if sel.Obj().Name() == "UnmarshalYAML" {
			return d.i.prog.MethodValue(sel)
		}
	}
	return nil
}

// decode stores the value of node n into *ptr, whose static type is t.
func (d *yamlDec) decode(n *yaml.Node, ptr *value, t types.Type) {
	if d.fatal != nil {
		return
	}
	if t.String() == "gopkg.in/yaml.v3.Node" {
		d.i.nativeSeen = map[uintptr]*value{}
		np := d.i.fromNative(reflect.ValueOf(n), types.NewPointer(t)).(*value)
		d.i.nativeSeen = nil
		d.i.store(t, ptr, *np)
		return
	}
	switch n.Kind {
	case yaml.DocumentNode:
		if len(n.Content) == 1 {
			d.decode(n.Content[0], ptr, t)
		}
		return
	case yaml.AliasNode:
		d.aliases++
		if d.aliases > 1000 || n.Alias == nil {
			panic(unsupported{"yaml alias depth"})
		}
		d.decode(n.Alias, ptr, t)
		return
	}
	isNull := n.ShortTag() == "!!null"
	// pointers: allocate (unless null) and go on with the element
	if pt, ok := t.Underlying().(*types.Pointer); ok {
		if isNull {
			d.i.store(t, ptr, (*value)(nil))
			return
		}
		cell := new(value)
		*cell = zero(pt.Elem())
		d.decode(n, cell, pt.Elem())
		d.i.store(t, ptr, cell)
		return
	}
	if !isNull {
		if fn := d.unmarshalerOf(t); fn != nil {
			d.i.nativeSeen = map[uintptr]*value{}
			nodeVal := d.i.fromNative(reflect.ValueOf(n), types.NewPointer(d.i.namedType("gopkg.in/yaml.v3", "Node")))
			d.i.nativeSeen = nil
			r := callSSA(d.i, d.fr, 0, fn, []value{ptr, nodeVal}, nil)
			if e, ok := r.(iface); ok && e.t != nil {
				if te, ok := e.v.(*yamlTypeErrs); ok {
					d.errs = append(d.errs, te.errs...)
				} else {
					d.fatal = e
				}
			}
			return
		}
	}
	switch ut := t.Underlying().(type) {
	case *types.Interface:
		if isNull {
			d.i.store(t, ptr, iface{})
			return
		}
		var out interface{}
		if err := n.Decode(&out); err != nil {
			d.nativeErr(err)
			return
		}
		d.i.store(t, ptr, d.i.yamlToValue(out))
	case *types.Basic:
		if isNull {
			return // null leaves the zero value
		}
		if n.Kind != yaml.ScalarNode {
			d.terror(n, "", t)
			return
		}
		d.scalar(n, ptr, t, ut)
	case *types.Struct:
		if isNull {
			return
		}
		if n.Kind != yaml.MappingNode {
			d.terror(n, "", t)
			return
		}
		s := append(structure{}, (*ptr).(structure)...)
		done := map[int]int{}
		for k := 0; k+1 < len(n.Content); k += 2 {
			kn, vn := n.Content[k], n.Content[k+1]
			if kn.Kind == yaml.AliasNode && kn.Alias != nil {
				kn = kn.Alias
			}
			if kn.Kind != yaml.ScalarNode {
				continue
			}
			if kn.Value == "<<" && kn.Tag == "!!merge" {
				panic(unsupported{"yaml merge key"})
			}
			f := yamlFieldIndex(ut, kn.Value)
			if f < 0 {
				continue // unknown keys are ignored (KnownFields is not used by the repo)
			}
			if line, dup := done[f]; dup {
				d.errs = append(d.errs, fmt.Sprintf("line %d: mapping key %#v already defined at line %d", kn.Line, kn.Value, line))
				continue
			}
			done[f] = kn.Line
			cell := new(value)
			*cell = s[f]
			d.decode(vn, cell, ut.Field(f).Type())
			s[f] = *cell
		}
		d.i.store(t, ptr, s)
	case *types.Map:
		if isNull {
			return
		}
		if n.Kind != yaml.MappingNode {
			d.terror(n, "", t)
			return
		}
		m, _ := (*ptr).(*amap)
		if m == nil {
			m = &amap{}
		}
		for k := 0; k+1 < len(n.Content); k += 2 {
			kc, vc := new(value), new(value)
			*kc, *vc = zero(ut.Key()), zero(ut.Elem())
			before := len(d.errs)
			d.decode(n.Content[k], kc, ut.Key())
			if len(d.errs) > before {
				continue
			}
			d.decode(n.Content[k+1], vc, ut.Elem())
			d.i.mapInsert(m, *kc, *vc)
		}
		d.i.store(t, ptr, m)
	case *types.Slice:
		if isNull {
			return
		}
		if n.Kind != yaml.SequenceNode {
			d.terror(n, "", t)
			return
		}
		out := make([]value, 0, len(n.Content))
		for _, c := range n.Content {
			cell := new(value)
			*cell = zero(ut.Elem())
			before := len(d.errs)
			d.decode(c, cell, ut.Elem())
			if len(d.errs) == before {
				out = append(out, *cell)
			}
		}
		d.i.store(t, ptr, out)
	default:
		panic(unsupported{"yaml decoding into " + t.String()})
	}
}

// yamlFieldIndex: yaml.v3's field naming: the tag's name, or the lower-cased field name.
func yamlFieldIndex(st *types.Struct, key string) int {
	for k := 0; k < st.NumFields(); k++ {
		f := st.Field(k)
		if !f.Exported() {
			continue
		}
		tag := reflect.StructTag(st.Tag(k)).Get("yaml")
		if tag == "" && !strings.Contains(st.Tag(k), ":") {
			tag = st.Tag(k)
		}
		name := tag
		if c := strings.Index(tag, ","); c >= 0 {
			name = tag[:c]
			if strings.Contains(tag[c:], "inline") {
				panic(unsupported{"yaml inline field"})
			}
		}
		if name == "-" {
			continue
		}
		if name == "" {
			name = strings.ToLower(f.Name())
		}
		if name == key {
			return k
		}
	}
	return -1
}

func (d *yamlDec) nativeErr(err error) {
	if te, ok := err.(*yaml.TypeError); ok {
		d.errs = append(d.errs, te.Errors...)
		return
	}
	d.fatal = d.i.newError(err.Error())
}

// scalar: the real library decodes the scalar into a Go variable of the same kind.
func (d *yamlDec) scalar(n *yaml.Node, ptr *value, t types.Type, b *types.Basic) {
	var err error
	var out value
	switch {
	case b.Info()&types.IsString != 0:
		var s string
		err = n.Decode(&s)
		out = s
	case b.Info()&types.IsBoolean != 0:
		var x bool
		err = n.Decode(&x)
		out = x
	case b.Info()&types.IsFloat != 0:
		var x float64
		err = n.Decode(&x)
		if b.Kind() == types.Float32 {
			out = float32(x)
		} else {
			out = x
		}
	case b.Info()&types.IsUnsigned != 0:
		var x uint64
		err = n.Decode(&x)
		out = mkConc(b.Kind(), x)
	case b.Info()&types.IsInteger != 0:
		var x int64
		err = n.Decode(&x)
		out = mkConc(b.Kind(), uint64(x))
	default:
		panic(unsupported{"yaml scalar into " + t.String()})
	}
	if err != nil {
		if te, ok := err.(*yaml.TypeError); ok {
			// the library names the Go type it was given; name the declared one
			for _, e := range te.Errors {
				if k := strings.LastIndex(e, " into "); k >= 0 {
					e = e[:k] + " into " + typeName(t)
				}
				d.errs = append(d.errs, e)
			}
			return
		}
		d.fatal = d.i.newError(err.Error())
		return
	}
	d.i.store(t, ptr, out)
}

func (i *interpreter) yamlToValue(x interface{}) value {
	switch v := x.(type) {
	case int:
		return iface{t: types.Typ[types.Int], v: v}
	case int64:
		return iface{t: types.Typ[types.Int64], v: v}
	case uint64:
		return iface{t: types.Typ[types.Uint64], v: v}
	case []interface{}:
		out := make([]value, len(v))
		for k := range v {
			out[k] = i.yamlToValue(v[k])
		}
		return iface{t: types.NewSlice(emptyIface), v: out}
	case map[string]interface{}:
		m := &amap{}
		keys := make([]string, 0, len(v))
		for k := range v {
			keys = append(keys, k)
		}
		sort.Strings(keys)
		for _, k := range keys {
			m.keys = append(m.keys, k)
			m.vals = append(m.vals, i.yamlToValue(v[k]))
		}
		return iface{t: types.NewMap(types.Typ[types.String], emptyIface), v: m}
	}
	return i.jsonToValue(x)
}

// yamlTypeErrs is the interpreter-side stand-in for *yaml.TypeError.
type yamlTypeErrs struct{ errs []string }

func (i *interpreter) yamlResult(d *yamlDec) value {
	if d.fatal != nil {
		return d.fatal
	}
	if len(d.errs) > 0 {
		return i.newError("yaml: unmarshal errors:\n  " + strings.Join(d.errs, "\n  "))
	}
	return iface{}
}

// yamlDecodeTarget decodes native node n into the pointer target (an interface holding *T).
func (i *interpreter) yamlDecodeTarget(fr *frame, n *yaml.Node, target value) value {
	tg, ok := target.(iface)
	if !ok || tg.t == nil {
		panic(unsupported{"yaml decoding into a nil interface"})
	}
	ptr, isPtr := tg.v.(*value)
	pt, isPT := tg.t.Underlying().(*types.Pointer)
	if !isPtr || !isPT || ptr == nil {
		panic(unsupported{"yaml decoding into " + tg.t.String()})
	}
	d := &yamlDec{i: i, fr: fr}
	d.decode(n, ptr, pt.Elem())
	return i.yamlResult(d)
}
