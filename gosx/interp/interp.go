// Copyright 2013 The Go Authors. All rights reserved.
// Use of this source code is governed by a BSD-style
// license that can be found in the LICENSE file.

// Package interp is gosx: a symbolic interpreter for go/ssa, forked from
// golang.org/x/tools@v0.29.0/go/ssa/interp. See /verif/DESIGN.md §2.
package interp

import (
	"fmt"
	"go/token"
	"go/types"
	"regexp"
	"regexp/syntax"
	"runtime"
	"slices"
	"strings"

	"golang.org/x/tools/go/ssa"
)

type continuation int

const (
	kNext continuation = iota
	kReturn
	kJump
)

type methodSet map[string]*ssa.Function

func mustDeref(t types.Type) types.Type {
	if p, ok := t.Underlying().(*types.Pointer); ok {
		return p.Elem()
	}
	panic(fmt.Sprintf("mustDeref: %s is not a pointer", t))
}

// State of one worker: an interpreter instance with its own globals, term
// table, solver and path state. Nothing here is shared between workers.
type interpreter struct {
	prog               *ssa.Program
	globals            map[*ssa.Global]*value
	runtimeErrorString types.Type
	sizes              types.Sizes
	cfg                *Config

	tt     *TermTab
	solver *Solver

	// path state (reset by startPath)
	prefix   []int64
	taken    []int64
	pc       []Lit
	model    Model
	steps    int
	depth    int
	symN     int            // counter for fresh symbolic names
	events   []Event        // violations and notes raised on this path
	reach    map[string]int // per-run counters
	mapOrder bool
	mapOrderBudget, mapOrderUsed int
	monitor  bool
	frozen   map[*value]int32
	undo     []undoRec
	mapUndo  []mapUndoRec
	onceDone map[*value]bool
	newWork  []workItem
	assumes  []string
	stubsHit map[string]int
	overrides map[string]value
	trace    *traceState
	numCPU   int
	summ        *summCtx
	pathReach   map[string]int
	inInit      bool
	tainted     bool
	vcwd        string
	egErr       map[*value]value
	gomaxprocs  int
	syncMaps    map[*value]*amap
	goOrder     []int
	goPending   [][2]value
	mapRangers  []string
	recordRangers bool
	bigOrder    int
	doms        domState
	reProgs     map[*regexp.Regexp]*syntax.Prog
	summOK      map[*ssa.Function]bool
	panicStack  []string
	frozenNames []string
	frozenMaps  []*amap
	mapOrderFns map[string]bool
	symNames    map[string]int
	inputs      []inputRec
	builders    map[*value]value
	nativeSeen  map[uintptr]*value
	outSink     func(w value, s value)
	colorOn     bool
	capture     bool
	captured    []value

	// persistent per worker
	old       map[*value]int32 // cells that existed after init -> root name index
	oldNames  []string
	initOnce  map[*value]bool
	funcsSeen map[*ssa.Function]struct{}
	stats     RunStats
	curFn     []*ssa.Function // call stack (for attribution)
}

type undoRec struct {
	addr *value
	old  value
}

type mapUndoRec struct {
	m    *amap
	keys []value
	vals []value
}

type deferred struct {
	fn    value
	args  []value
	instr *ssa.Defer
	tail  *deferred
}

type frame struct {
	i                *interpreter
	caller           *frame
	fn               *ssa.Function
	block, prevBlock *ssa.BasicBlock
	env              map[ssa.Value]value // dynamic values of SSA variables
	locals           []value
	defers           *deferred
	result           value
	panicking        bool
	panic            interface{}
	phitemps         []value // temporaries for parallel phi assignment
}

func (fr *frame) get(key ssa.Value) value {
	switch key := key.(type) {
	case nil:
		return nil
	case *ssa.Function, *ssa.Builtin:
		return key
	case *ssa.Const:
		return constValue(key)
	case *ssa.Global:
		if r, ok := fr.i.globals[key]; ok {
			return r
		}
	}
	if r, ok := fr.env[key]; ok {
		return r
	}
	panic(fmt.Sprintf("get: no value for %T: %v", key, key.Name()))
}

// engineAbort panics end the current path without being visible to the
// interpreted program's recover().
type engineAbort interface{ engineAbort() }

type pathEnd struct{ reason string }     // assume(false), infeasible, violation cut
type budgetExceeded struct{ what string } // unwinding failure

func (pathEnd) engineAbort()        {}
func (budgetExceeded) engineAbort() {}
func (unsupported) engineAbort()    {}

func isEngineAbort(p interface{}) bool {
	switch p.(type) {
	case engineAbort:
		return true
	case *runtime.TypeAssertionError:
		return true // a bug / gap in the engine, never a target panic
	}
	return false
}

func (fr *frame) runDefer(d *deferred) {
	var ok bool
	defer func() {
		if !ok {
			p := recover()
			if isEngineAbort(p) {
				panic(p)
			}
			fr.panicking = true
			fr.panic = p
		}
	}()
	call(fr.i, fr, d.instr.Pos(), d.fn, d.args)
	ok = true
}

func (fr *frame) runDefers() {
	for d := fr.defers; d != nil; d = d.tail {
		fr.runDefer(d)
	}
	fr.defers = nil
	if fr.panicking {
		panic(fr.panic) // new panic, or still panicking
	}
}

func lookupMethod(i *interpreter, typ types.Type, meth *types.Func) *ssa.Function {
	return i.prog.LookupMethod(typ, meth.Pkg(), meth.Name())
}

// visitInstr interprets a single ssa.Instruction within the activation
// record frame.
func visitInstr(fr *frame, instr ssa.Instruction) continuation {
	i := fr.i
	i.steps++
	if i.steps > i.cfg.MaxSteps {
		panic(budgetExceeded{fmt.Sprintf("instruction budget %d exceeded in %s", i.cfg.MaxSteps, fr.fn)})
	}
	switch instr := instr.(type) {
	case *ssa.DebugRef:
		// no-op

	case *ssa.UnOp:
		x := fr.get(instr.X)
		if s, ok := x.(*Sym); ok && instr.Op != token.MUL && instr.Op != token.ARROW {
			fr.env[instr] = i.symUnop(instr.Op, s)
		} else if se, ok := x.(*symElem); ok && instr.Op == token.MUL {
			fr.env[instr] = i.loadSymElem(se)
		} else {
			if i.trace != nil && i.trace.recAcc && instr.Op == token.MUL {
				if p, ok := x.(*value); ok {
					i.noteRead(instr.Type(), p)
				}
			}
			fr.env[instr] = unop(instr, x)
		}

	case *ssa.BinOp:
		fr.env[instr] = i.binop(instr.Op, instr.X.Type(), fr.get(instr.X), fr.get(instr.Y))

	case *ssa.Call:
		fn, args := prepareCall(fr, &instr.Call)
		fr.env[instr] = call(fr.i, fr, instr.Pos(), fn, args)

	case *ssa.ChangeInterface:
		fr.env[instr] = fr.get(instr.X)

	case *ssa.ChangeType:
		fr.env[instr] = fr.get(instr.X) // (can't fail)

	case *ssa.Convert:
		fr.env[instr] = i.conv(instr.Type(), instr.X.Type(), fr.get(instr.X))

	case *ssa.SliceToArrayPointer:
		fr.env[instr] = sliceToArrayPointer(instr.Type(), instr.X.Type(), fr.get(instr.X))

	case *ssa.MakeInterface:
		fr.env[instr] = iface{t: instr.X.Type(), v: fr.get(instr.X)}

	case *ssa.Extract:
		fr.env[instr] = fr.get(instr.Tuple).(tuple)[instr.Index]

	case *ssa.Slice:
		fr.env[instr] = i.slice(fr.get(instr.X), fr.get(instr.Low), fr.get(instr.High), fr.get(instr.Max))

	case *ssa.Return:
		switch len(instr.Results) {
		case 0:
		case 1:
			fr.result = fr.get(instr.Results[0])
		default:
			var res []value
			for _, r := range instr.Results {
				res = append(res, fr.get(r))
			}
			fr.result = tuple(res)
		}
		fr.block = nil
		return kReturn

	case *ssa.RunDefers:
		fr.runDefers()

	case *ssa.Panic:
		panic(targetPanic{fr.get(instr.X)})

	case *ssa.Send:
		i.chanSend(fr.get(instr.Chan), fr.get(instr.X))

	case *ssa.Store:
		addr := fr.get(instr.Addr)
		if se, ok := addr.(*symElem); ok {
			addr = i.concSymElem(se)
		}
		i.store(mustDeref(instr.Addr.Type()), addr.(*value), fr.get(instr.Val))

	case *ssa.If:
		succ := 1
		if i.truth(fr.get(instr.Cond)) {
			succ = 0
		}
		fr.prevBlock, fr.block = fr.block, fr.block.Succs[succ]
		return kJump

	case *ssa.Jump:
		fr.prevBlock, fr.block = fr.block, fr.block.Succs[0]
		return kJump

	case *ssa.Defer:
		fn, args := prepareCall(fr, &instr.Call)
		defers := &fr.defers
		if into := fr.get(instr.DeferStack); into != nil {
			defers = into.(**deferred)
		}
		*defers = &deferred{
			fn:    fn,
			args:  args,
			instr: instr,
			tail:  *defers,
		}

	case *ssa.Go:
		fn, args := prepareCall(fr, &instr.Call)
		i.goStmt(fr, instr, fn, args)

	case *ssa.MakeChan:
		fr.env[instr] = i.makeChan(asInt64(fr.get(instr.Size)))

	case *ssa.Alloc:
		var addr *value
		if instr.Heap {
			// new
			addr = new(value)
			fr.env[instr] = addr
		} else {
			// local
			addr = fr.env[instr].(*value)
		}
		*addr = zero(mustDeref(instr.Type()))

	case *ssa.MakeSlice:
		cp, ok1 := i.concInt(fr.get(instr.Cap), 0, 1<<20)
		ln, ok2 := i.concInt(fr.get(instr.Len), 0, 1<<20)
		if !ok1 || !ok2 || ln > cp {
			panic(runtimeError("makeslice: len out of range"))
		}
		slice := make([]value, cp)
		tElt := instr.Type().Underlying().(*types.Slice).Elem()
		for i := range slice {
			slice[i] = zero(tElt)
		}
		fr.env[instr] = slice[:ln]

	case *ssa.MakeMap:
		fr.env[instr] = &amap{}

	case *ssa.Range:
		fr.env[instr] = i.rangeIter(fr.get(instr.X), instr.X.Type())

	case *ssa.Next:
		fr.env[instr] = fr.get(instr.Iter).(iter).next()

	case *ssa.FieldAddr:
		if se, ok := fr.get(instr.X).(*symElem); ok {
			if se.field >= 0 {
				panic(unsupported{"nested field of symbolically indexed element"})
			}
			fr.env[instr] = &symElem{base: se.base, idx: se.idx, field: instr.Field}
			break
		}
		p := fr.get(instr.X).(*value)
		if p == nil {
			panic(runtimeError("invalid memory address or nil pointer dereference"))
		}
		fr.env[instr] = &(*p).(structure)[instr.Field]

	case *ssa.Field:
		fr.env[instr] = fr.get(instr.X).(structure)[instr.Field]

	case *ssa.IndexAddr:
		x := fr.get(instr.X)
		switch x := x.(type) {
		case []value:
			if s, ok := fr.get(instr.Index).(*Sym); ok {
				fr.env[instr] = &symElem{base: x, idx: s, field: -1}
				break
			}
			idx := i.index(fr.get(instr.Index), len(x))
			fr.env[instr] = &x[idx]
		case *value: // *array
			a := (*x).(array)
			if s, ok := fr.get(instr.Index).(*Sym); ok {
				fr.env[instr] = &symElem{base: []value(a), idx: s, field: -1}
				break
			}
			idx := i.index(fr.get(instr.Index), len(a))
			fr.env[instr] = &a[idx]
		default:
			panic(fmt.Sprintf("unexpected x type in IndexAddr: %T", x))
		}

	case *ssa.Index:
		x := fr.get(instr.X)
		idx := fr.get(instr.Index)
		switch x := x.(type) {
		case array:
			if s, ok := idx.(*Sym); ok {
				fr.env[instr] = i.symSelect([]value(x), s)
			} else {
				fr.env[instr] = x[i.index(idx, len(x))]
			}
		case string:
			fr.env[instr] = x[i.index(idx, len(x))]
		case SymStr:
			fr.env[instr] = x[i.index(idx, len(x))]
		default:
			panic(fmt.Sprintf("unexpected x type in Index: %T", x))
		}

	case *ssa.Lookup:
		fr.env[instr] = i.lookup(instr, fr.get(instr.X), fr.get(instr.Index))

	case *ssa.MapUpdate:
		m := fr.get(instr.Map).(*amap)
		if m == nil {
			panic(runtimeError("assignment to entry in nil map"))
		}
		i.mapInsert(m, fr.get(instr.Key), fr.get(instr.Value))

	case *ssa.TypeAssert:
		fr.env[instr] = typeAssert(fr.i, instr, fr.get(instr.X).(iface))

	case *ssa.MakeClosure:
		var bindings []value
		for _, binding := range instr.Bindings {
			bindings = append(bindings, fr.get(binding))
		}
		fr.env[instr] = &closure{instr.Fn.(*ssa.Function), bindings}

	case *ssa.Phi:
		panic("unreachable") // phis are processed at block entry

	case *ssa.Select:
		fr.env[instr] = i.selectStmt(fr, instr)

	default:
		panic(fmt.Sprintf("unexpected instruction: %T", instr))
	}
	return kNext
}

// index forces an index to a concrete in-range value, raising the Go runtime
// panic on the out-of-range side.
func (i *interpreter) index(idx value, n int) int {
	if s, ok := idx.(*Sym); ok {
		v, ok := i.concInt(s, 0, int64(n)-1)
		if !ok {
			panic(runtimeError(fmt.Sprintf("index out of range [symbolic] with length %d", n)))
		}
		return int(v)
	}
	v := asInt64(idx)
	if v < 0 || v >= int64(n) {
		panic(runtimeError(fmt.Sprintf("index out of range [%d] with length %d", v, n)))
	}
	return int(v)
}

// prepareCall determines the function value and argument values for a
// function call in a Call, Go or Defer instruction, performing
// interface method lookup if needed.
func prepareCall(fr *frame, call *ssa.CallCommon) (fn value, args []value) {
	v := fr.get(call.Value)
	if call.Method == nil {
		// Function call.
		fn = v
	} else {
		// Interface method invocation.
		recv := v.(iface)
		if recv.t == nil {
			panic(runtimeError("invalid memory address or nil pointer dereference (method invoked on nil interface)"))
		}
		if nm, ok := recv.v.(*nativeVal); ok {
			fn = &nativeMethod{recv: nm, name: call.Method.Name()}
		} else if f := lookupMethod(fr.i, recv.t, call.Method); f == nil {
			// Unreachable in well-typed programs.
			panic(fmt.Sprintf("method set for dynamic type %v does not contain %s", recv.t, call.Method))
		} else {
			fn = f
		}
		args = append(args, recv.v)
	}
	for _, arg := range call.Args {
		args = append(args, fr.get(arg))
	}
	return
}

// call interprets a call to a function (function, builtin or closure)
// fn with arguments args, returning its result.
func call(i *interpreter, caller *frame, callpos token.Pos, fn value, args []value) value {
	switch fn := fn.(type) {
	case *ssa.Function:
		if fn == nil {
			panic(runtimeError("invalid memory address or nil pointer dereference (call of nil function)"))
		}
		return callSSA(i, caller, callpos, fn, args, nil)
	case *closure:
		return callSSA(i, caller, callpos, fn.Fn, args, fn.Env)
	case *ssa.Builtin:
		return callBuiltin(caller, callpos, fn, args)
	case *nativeMethod:
		return i.callNativeMethod(fn, args[1:])
	}
	panic(fmt.Sprintf("cannot call %T", fn))
}

func loc(fset *token.FileSet, pos token.Pos) string {
	if pos == token.NoPos {
		return ""
	}
	return " at " + fset.Position(pos).String()
}

// callSSA interprets a call to function fn with arguments args,
// and lexical environment env, returning its result.
func callSSA(i *interpreter, caller *frame, callpos token.Pos, fn *ssa.Function, args []value, env []value) value {
	return callSSAx(i, caller, callpos, fn, args, env, false)
}

// interpretSelf runs the real body of the function an intrinsic stands for.
func (fr *frame) interpretSelf(args []value) value {
	return callSSAx(fr.i, fr.caller, token.NoPos, fr.fn, args, nil, true)
}

func callSSAx(i *interpreter, caller *frame, callpos token.Pos, fn *ssa.Function, args []value, env []value, skipIntrinsic bool) value {
	fr := &frame{
		i:      i,
		caller: caller, // for panic/recover
		fn:     fn,
	}
	if fn.Parent() == nil {
		name := fn.String()
		if ov, ok := i.overrides[name]; ok {
			return call(i, caller, callpos, ov, args)
		}
		if in := intrinsics[name]; in != nil && !skipIntrinsic {
			return in(fr, args)
		}
		if fn.Pkg != nil && fn.Name() == "init" && fn.Synthetic != "" {
			if !initAllowed[fn.Pkg.Pkg.Path()] {
				return nil
			}
		}
		if fn.Blocks == nil || (fn.Pkg != nil && !interpretedPkg(fn.Pkg.Pkg.Path()) && !interpFuncs[name]) {
			if i.inInit {
				// package initialisers may call into libraries we do not
				// interpret (loggers, colour objects): their results are
				// opaque zero values, never used by the code under test
				return zero(fn.Signature.Results())
			}
			if fn.Blocks == nil {
				panic(unsupported{"no code for function: " + name})
			}
			panic(unsupported{"call into non-interpreted package: " + name})
		}
	}
	if _, ok := i.funcsSeen[fn]; !ok {
		i.funcsSeen[fn] = struct{}{}
	}
	if i.summ == nil && !skipIntrinsic && !i.cfg.NoSummaries && fn.Parent() == nil {
		anySym := false
		for _, a := range args {
			if isSym(a) {
				anySym = true
				break
			}
		}
		if anySym && i.summarisable(fn) {
			if v, ok := i.summarise(caller, fn, args); ok {
				return v
			}
		}
	}

	// generic function body?
	if fn.TypeParams().Len() > 0 && len(fn.TypeArgs()) == 0 {
		panic("interp requires ssa.BuilderMode to include InstantiateGenerics to execute generics")
	}
	i.depth++
	if i.depth > i.cfg.MaxDepth {
		panic(budgetExceeded{fmt.Sprintf("call depth %d exceeded in %s", i.cfg.MaxDepth, fn)})
	}
	i.curFn = append(i.curFn, fn)
	defer func() {
		if r := recover(); r != nil {
			if i.panicStack == nil {
				i.panicStack = i.stack()
			}
			i.depth--
			i.curFn = i.curFn[:len(i.curFn)-1]
			panic(r)
		}
		i.depth--
		i.curFn = i.curFn[:len(i.curFn)-1]
	}()

	fr.env = make(map[ssa.Value]value)
	fr.block = fn.Blocks[0]
	fr.locals = make([]value, len(fn.Locals))
	for i, l := range fn.Locals {
		fr.locals[i] = zero(mustDeref(l.Type()))
		fr.env[l] = &fr.locals[i]
	}
	for i, p := range fn.Params {
		fr.env[p] = args[i]
	}
	for i, fv := range fn.FreeVars {
		fr.env[fv] = env[i]
	}
	for fr.block != nil {
		runFrame(fr)
	}
	return fr.result
}

// runFrame executes SSA instructions starting at fr.block and
// continuing until a return, a panic, or a recovered panic.
func runFrame(fr *frame) {
	defer func() {
		if fr.block == nil {
			return // normal return
		}
		p := recover()
		if isEngineAbort(p) {
			panic(p)
		}
		fr.panicking = true
		fr.panic = p
		fr.runDefers()
		fr.block = fr.fn.Recover
	}()

	for {
		nonPhis := executePhis(fr)
		for _, instr := range nonPhis {
			if visitInstr(fr, instr) == kReturn {
				return
			}
			// Inv: kNext (continue) or kJump (last instr)
		}
	}
}

// executePhis executes the phi-nodes at the start of the current
// block and returns the non-phi instructions.
func executePhis(fr *frame) []ssa.Instruction {
	firstNonPhi := -1
	for i, instr := range fr.block.Instrs {
		if _, ok := instr.(*ssa.Phi); !ok {
			firstNonPhi = i
			break
		}
	}
	nonPhis := fr.block.Instrs[firstNonPhi:]
	if firstNonPhi > 0 {
		phis := fr.block.Instrs[:firstNonPhi]
		predIndex := slices.Index(fr.block.Preds, fr.prevBlock)
		fr.phitemps = fr.phitemps[:0]
		for _, phi := range phis {
			phi := phi.(*ssa.Phi)
			fr.phitemps = append(fr.phitemps, fr.get(phi.Edges[predIndex]))
		}
		for i, phi := range phis {
			fr.env[phi.(*ssa.Phi)] = fr.phitemps[i]
		}
	}
	return nonPhis
}

// doRecover implements the recover() built-in.
func doRecover(caller *frame) value {
	if caller != nil && !caller.panicking &&
		caller.caller != nil && caller.caller.panicking {
		caller.caller.panicking = false
		caller.i.panicStack = nil
		p := caller.caller.panic
		caller.caller.panic = nil

		switch p := p.(type) {
		case targetPanic:
			// The target program explicitly called panic().
			return p.v
		case runtime.Error:
			// The interpreter encountered a runtime error.
			return iface{caller.i.runtimeErrorString, p.Error()}
		case string:
			// The interpreter explicitly called panic().
			return iface{caller.i.runtimeErrorString, p}
		default:
			panic(fmt.Sprintf("unexpected panic type %T in target call to recover()", p))
		}
	}
	return iface{}
}

// newInterpreter creates a worker: global storage plus package initialisers
// of the allow-listed packages.
func newInterpreter(cfg *Config) *interpreter {
	i := &interpreter{
		prog:      cfg.Prog,
		globals:   make(map[*ssa.Global]*value),
		sizes:     &types.StdSizes{WordSize: 8, MaxAlign: 8},
		cfg:       cfg,
		tt:        NewTermTab(cfg.reg),
		reach:     map[string]int{},
		stubsHit:  map[string]int{},
		initOnce:  map[*value]bool{},
		onceDone:  map[*value]bool{},
		funcsSeen: map[*ssa.Function]struct{}{},
		overrides: map[string]value{},
		summOK:    map[*ssa.Function]bool{},
	}
	i.tt.owner = i
	runtimePkg := i.prog.ImportedPackage("runtime")
	if runtimePkg == nil {
		panic("ssa.Program doesn't include runtime package")
	}
	i.runtimeErrorString = runtimePkg.Type("errorString").Object().Type()

	for _, pkg := range i.prog.AllPackages() {
		for _, m := range pkg.Members {
			if v, ok := m.(*ssa.Global); ok {
				cell := zero(mustDeref(v.Type()))
				i.globals[v] = &cell
			}
		}
	}
	i.steps = -1 << 40 // no budget during init
	i.inInit = true
	call(i, nil, token.NoPos, cfg.Pkg.Func("init"), nil)
	i.inInit = false
	// package os is not initialised (its init touches the process); give its error sentinels
	// distinct non-nil values so that errors.Is(err, os.ErrNotExist) has Go's meaning
	if osPkg := i.prog.ImportedPackage("os"); osPkg != nil {
		for _, name := range []string{"ErrNotExist", "ErrExist", "ErrPermission", "ErrInvalid", "ErrClosed"} {
			if g, ok := osPkg.Members[name].(*ssa.Global); ok {
				*i.globals[g] = i.newError("os: " + name)
			}
		}
	}
	for k, v := range i.onceDone {
		i.initOnce[k] = v
	}
	i.onceDone = map[*value]bool{}
	i.freezeGlobals()
	i.funcsSeen = map[*ssa.Function]struct{}{}
	return i
}

func fnName(fn *ssa.Function) string {
	s := fn.String()
	return strings.TrimPrefix(s, "github.com/rhysd/")
}
