package interp

// Pure-callee summarisation: a side-effect-free scalar function called with a
// symbolic argument is executed over all of its internal paths (syntactic
// enumeration, no solver) and returned as one ite term, so that the caller
// does not fork per internal branch (isAlpha, isNum, isAlnum, ...).

import (
	"go/token"
	"go/types"

	"golang.org/x/tools/go/ssa"
)


func isScalarType(t types.Type) bool {
	b, ok := t.Underlying().(*types.Basic)
	return ok && b.Info()&(types.IsInteger|types.IsBoolean) != 0
}

func (i *interpreter) summarisable(fn *ssa.Function) bool {
	if v, ok := i.summOK[fn]; ok {
		return v
	}
	i.summOK[fn] = false // cycle guard
	ok := i.computeSummarisable(fn)
	i.summOK[fn] = ok
	return ok
}

func (i *interpreter) computeSummarisable(fn *ssa.Function) bool {
	if fn.Blocks == nil || len(fn.FreeVars) > 0 || fn.Pkg == nil || !interpretedPkg(fn.Pkg.Pkg.Path()) {
		return false
	}
	if intrinsics[fn.String()] != nil {
		return false
	}
	sig := fn.Signature
	if sig.Recv() != nil && !isScalarType(sig.Recv().Type()) {
		return false
	}
	for k := 0; k < sig.Params().Len(); k++ {
		if !isScalarType(sig.Params().At(k).Type()) {
			return false
		}
	}
	if sig.Results().Len() == 0 {
		return false
	}
	for k := 0; k < sig.Results().Len(); k++ {
		if !isScalarType(sig.Results().At(k).Type()) {
			return false
		}
	}
	n := 0
	for _, b := range fn.Blocks {
		for _, in := range b.Instrs {
			n++
			switch x := in.(type) {
			case *ssa.If, *ssa.Jump, *ssa.Return, *ssa.Phi, *ssa.BinOp, *ssa.DebugRef, *ssa.ChangeType:
			case *ssa.UnOp:
				if x.Op == token.MUL || x.Op == token.ARROW {
					return false
				}
			case *ssa.Convert:
				if !isScalarType(x.Type()) || !isScalarType(x.X.Type()) {
					return false
				}
			case *ssa.Call:
				callee := x.Call.StaticCallee()
				if callee == nil || !i.summarisable(callee) {
					return false
				}
			default:
				return false
			}
		}
	}
	return n < 400
}

// summarise returns fn(args) as a single (tuple of) term(s), or false.
func (i *interpreter) summarise(caller *frame, fn *ssa.Function, args []value) (res value, ok bool) {
	type pr struct {
		cond *Term
		val  value
	}
	var results []pr
	pending := [][]bool{nil}
	runs := 0
	saveSteps := i.steps
	for len(pending) > 0 {
		pre := pending[len(pending)-1]
		pending = pending[:len(pending)-1]
		runs++
		if runs > 96 {
			i.summ = nil
			return nil, false
		}
		sc := &summCtx{prefix: pre, cond: i.tt.True}
		i.summ = sc
		var v value
		good := true
		infeasible := false
		func() {
			defer func() {
				if p := recover(); p != nil {
					good = false
					if _, is := p.(summInfeasible); is {
						infeasible = true
					}
				}
			}()
			depth, nfn := i.depth, len(i.curFn)
			defer func() { i.depth, i.curFn = depth, i.curFn[:nfn] }()
			v = callSSAx(i, caller, token.NoPos, fn, args, nil, true)
		}()
		i.summ = nil
		pending = append(pending, sc.pending...)
		if infeasible {
			continue
		}
		if !good {
			i.steps = saveSteps
			return nil, false // some internal path panics: execute normally instead
		}
		results = append(results, pr{sc.cond, v})
	}
	if len(results) == 0 {
		return nil, false
	}
	out := results[len(results)-1].val
	for k := len(results) - 2; k >= 0; k-- {
		c := i.boolVal(results[k].cond)
		if t, isT := out.(tuple); isT {
			nt := make(tuple, len(t))
			for j := range t {
				nt[j] = i.iteVal(c, results[k].val.(tuple)[j], t[j])
			}
			out = nt
		} else {
			out = i.iteVal(c, results[k].val, out)
		}
	}
	i.stats.Summaries++
	return out, true
}
