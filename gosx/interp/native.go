package interp

// Bridging between interpreter values and native Go values: opaque native
// handles, reflection-based import of native data (yaml trees), export of
// concrete interpreter values for native library calls.

import (
	"fmt"
	"go/types"
	"reflect"

	"golang.org/x/tools/go/ssa"
)

// nativeVal is an opaque native object (e.g. *regexp.Regexp) living in a cell.
type nativeVal struct{ v interface{} }

type nativeMethod struct {
	recv *nativeVal
	name string
}

func (i *interpreter) callNativeMethod(m *nativeMethod, args []value) value {
	panic(unsupported{fmt.Sprintf("native method %T.%s", m.recv.v, m.name)})
}

// nativePtr wraps a native object as an interpreter pointer.
func nativePtr(v interface{}) *value {
	var cell value = &nativeVal{v}
	return &cell
}

func nativeOf(p value) interface{} {
	ptr, ok := p.(*value)
	if !ok || ptr == nil {
		panic(runtimeError("invalid memory address or nil pointer dereference (native handle)"))
	}
	nv, ok := (*ptr).(*nativeVal)
	if !ok {
		panic(unsupported{fmt.Sprintf("expected native handle, got %T", *ptr)})
	}
	return nv.v
}

// concString returns a concrete Go string or reports false.
func concString(v value) (string, bool) {
	switch s := v.(type) {
	case string:
		return s, true
	}
	return "", false
}

func mustString(v value, what string) string {
	s, ok := concString(v)
	if !ok {
		panic(unsupported{what + ": symbolic string argument"})
	}
	return s
}

// fromNative imports a native value as an interpreter value of type t.
func (i *interpreter) fromNative(rv reflect.Value, t types.Type) value {
	switch ut := t.Underlying().(type) {
	case *types.Basic:
		switch {
		case ut.Info()&types.IsString != 0:
			return rv.String()
		case ut.Info()&types.IsBoolean != 0:
			return rv.Bool()
		case ut.Info()&types.IsUnsigned != 0:
			return mkConc(basicKind(t), rv.Uint())
		case ut.Info()&types.IsInteger != 0:
			return mkConc(basicKind(t), uint64(rv.Int()))
		case ut.Info()&types.IsFloat != 0:
			if ut.Kind() == types.Float32 {
				return float32(rv.Float())
			}
			return rv.Float()
		}
	case *types.Pointer:
		if rv.IsNil() {
			return (*value)(nil)
		}
		if c, ok := i.nativeSeen[rv.Pointer()]; ok {
			return c
		}
		cell := new(value)
		if i.nativeSeen != nil {
			i.nativeSeen[rv.Pointer()] = cell
		}
		*cell = i.fromNative(rv.Elem(), ut.Elem())
		return cell
	case *types.Struct:
		s := make(structure, ut.NumFields())
		for k := 0; k < ut.NumFields(); k++ {
			f := rv.FieldByName(ut.Field(k).Name())
			if !f.IsValid() || !ut.Field(k).Exported() {
				s[k] = zero(ut.Field(k).Type())
				continue
			}
			s[k] = i.fromNative(f, ut.Field(k).Type())
		}
		return s
	case *types.Slice:
		if rv.IsNil() {
			return []value(nil)
		}
		out := make([]value, rv.Len())
		for k := range out {
			out[k] = i.fromNative(rv.Index(k), ut.Elem())
		}
		return out
	case *types.Map:
		if rv.IsNil() {
			return (*amap)(nil)
		}
		m := &amap{}
		keys := rv.MapKeys()
		// deterministic order
		sortReflectKeys(keys)
		for _, k := range keys {
			m.keys = append(m.keys, i.fromNative(k, ut.Key()))
			m.vals = append(m.vals, i.fromNative(rv.MapIndex(k), ut.Elem()))
		}
		return m
	case *types.Interface:
		if rv.IsNil() {
			return iface{}
		}
	}
	panic(unsupported{fmt.Sprintf("fromNative: %s from %s", t, rv.Type())})
}

func sortReflectKeys(keys []reflect.Value) {
	for a := 1; a < len(keys); a++ {
		for b := a; b > 0 && fmt.Sprint(keys[b-1].Interface()) > fmt.Sprint(keys[b].Interface()); b-- {
			keys[b-1], keys[b] = keys[b], keys[b-1]
		}
	}
}

// toNative exports a concrete scalar / string / []string for native calls.
func toNative(v value) (interface{}, bool) {
	switch x := v.(type) {
	case bool, int, int8, int16, int32, int64, uint, uint8, uint16, uint32, uint64, uintptr, float32, float64, string:
		return x, true
	case []value:
		if len(x) == 0 {
			return []string{}, true
		}
		switch x[0].(type) {
		case string:
			out := make([]string, len(x))
			for k, e := range x {
				s, ok := e.(string)
				if !ok {
					return nil, false
				}
				out[k] = s
			}
			return out, true
		case uint8:
			out := make([]byte, len(x))
			for k, e := range x {
				b, ok := e.(uint8)
				if !ok {
					return nil, false
				}
				out[k] = b
			}
			return out, true
		case int:
			out := make([]int, len(x))
			for k, e := range x {
				b, ok := e.(int)
				if !ok {
					return nil, false
				}
				out[k] = b
			}
			return out, true
		}
	}
	return nil, false
}

// namedType finds a named type of an imported package in the program.
func (i *interpreter) namedType(pkg, name string) types.Type {
	p := i.prog.ImportedPackage(pkg)
	if p == nil {
		panic("package not loaded: " + pkg)
	}
	m := p.Members[name]
	if m == nil {
		panic("no member " + pkg + "." + name)
	}
	return m.(*ssa.Type).Type()
}

// newError builds an error value through the interpreted errors.New.
func (i *interpreter) newError(msg value) value {
	p := i.prog.ImportedPackage("errors")
	fn := p.Func("New")
	return callSSA(i, nil, 0, fn, []value{msg}, nil)
}

func (i *interpreter) nilError() value { return iface{} }

// nativeToValue imports strings, bools, ints and (nested) slices of them.
func nativeToValue(x interface{}) value {
	rv := reflect.ValueOf(x)
	switch rv.Kind() {
	case reflect.String:
		return rv.String()
	case reflect.Bool:
		return rv.Bool()
	case reflect.Int:
		return int(rv.Int())
	case reflect.Slice:
		if rv.IsNil() {
			return []value(nil)
		}
		out := make([]value, rv.Len())
		for k := range out {
			out[k] = nativeToValue(rv.Index(k).Interface())
		}
		return out
	}
	panic(unsupported{fmt.Sprintf("nativeToValue %T", x)})
}
