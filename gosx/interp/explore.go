package interp

// Path exploration: stateless DFS by re-execution. A path is a vector of
// decisions; the harness is re-run from its entry with the prefix replayed and
// the current model followed; at every new symbolic decision the other side is
// asked of the solver and queued when satisfiable.

import (
	"fmt"
	"go/token"
	"go/types"
	"os"
	"runtime"
	"runtime/debug"
	"sort"
	"strings"
	"sync"
	"time"

	"golang.org/x/tools/go/ssa"
)

type Config struct {
	Prog     *ssa.Program
	Pkg      *ssa.Package // package under test (harness lives in it)
	Entry    string       // harness function name
	Args     []int64      // concrete harness parameters (ints / bools as 0,1)
	Workers  int
	Solver   string
	MaxSteps int
	MaxDepth int
	MaxPaths int // 0 = unlimited; exceeding it makes the run inconclusive
	Deadline time.Time
	Paranoid bool // re-check every model-followed decision with the solver
	SolverLog string
	NoPanic  bool // a target panic escaping the harness is a violation
	Native   map[string]interface{} // harness-specific native data for intrinsics
	Verbose  bool
	MaxSamples  int
	SampleEvery int
	reg         *VarRegistry
	NoSummaries bool // disable pure-callee summarisation
	NoFastPath  bool // disable the byte-domain fast path for branch feasibility
	AllEvents   bool // keep one event per (kind, label, free choices) instead of per (kind, label)
}

type RunStats struct {
	Paths         int
	Decisions     int // symbolic decisions taken (transitions)
	Forks         int
	Steps         int64
	Unsupported   map[string]int
	Budget        map[string]int
	UnknownBranch int
	Checks        int // Check obligations evaluated
	CheckQueries  int
	AssumeCut     int
	Panics        int
	PathsEndOK    int
	MaxPC         int
	Summaries     int
	FastDecisions int // branch feasibility settled by byte-domain propagation instead of a solver query
}

type Event struct {
	Kind    string // check | panic | global-write | frozen-write | budget | note
	Label   string
	Msg     string
	Model   map[string]uint64
	Inputs  map[string]string // rendered symbolic strings / ints by name
	Stack   []string
	Decisions []int64
	Choices map[string]int
	Harness string
	Args    []int64
}

// Sample is one explored path, kept for native cross-validation.
type Sample struct {
	Model   map[string]uint64
	Choices map[string]int
	Inputs  map[string]string
	Reach   map[string]int
	End     string
	NDecisions int
}

type Result struct {
	Stats      RunStats
	Solver     SolverStats
	Events     []Event // deduplicated by (kind,label)
	Reach      map[string]int
	Funcs      []string
	Assumes    []string
	Stubs      map[string]int
	Samples    []Sample // a few explored paths
	Inconclusive []string
	Wall       float64
	PathsByEnd map[string]int
}

type workItem struct {
	prefix []int64
	model  Model
}

const outOfRange = int64(-1 << 62)

type sharedQueue struct {
	mu      sync.Mutex
	cond    *sync.Cond
	items   []workItem
	busy    int
	stopped bool
	paths   int
}

func (q *sharedQueue) push(ws []workItem) {
	q.mu.Lock()
	q.items = append(q.items, ws...)
	q.mu.Unlock()
	q.cond.Broadcast()
}

func (q *sharedQueue) pop() (workItem, bool) {
	q.mu.Lock()
	defer q.mu.Unlock()
	for {
		if q.stopped {
			return workItem{}, false
		}
		if n := len(q.items); n > 0 {
			w := q.items[n-1]
			q.items = q.items[:n-1]
			q.busy++
			q.paths++
			return w, true
		}
		if q.busy == 0 {
			q.cond.Broadcast()
			return workItem{}, false
		}
		q.cond.Wait()
	}
}

func (q *sharedQueue) done() {
	q.mu.Lock()
	q.busy--
	q.mu.Unlock()
	q.cond.Broadcast()
}

// ---- decisions ----

func (i *interpreter) pushPC(t *Term, neg bool) {
	i.pc = append(i.pc, Lit{t, neg})
	if !i.cfg.NoFastPath {
		i.doms.note(t, neg)
	}
	if len(i.pc) > i.stats.MaxPC {
		i.stats.MaxPC = len(i.pc)
	}
}

// decide turns a boolean term into a concrete branch decision.
func (i *interpreter) decide(c *Term) bool {
	if c.op == OpConst {
		return c.val != 0
	}
	if i.summ != nil {
		return i.summ.decide(i, c)
	}
	n := len(i.taken)
	var choice bool
	if n < len(i.prefix) {
		choice = i.prefix[n] != 0
	} else {
		mv := c.Eval(i.model) != 0
		if i.cfg.Paranoid {
			v, _ := i.solver.Check(append(append([]Lit{}, i.pc...), Lit{c, !mv}))
			if v != Sat {
				panic(fmt.Sprintf("paranoid: model-followed side not sat (%v) for %s", v, c))
			}
		}
		// is the other side feasible?
		var v Verdict
		var m Model
		fast := -1
		if !i.cfg.NoFastPath {
			var ch []domAssign
			fast, ch = i.doms.fastSide(c, mv, i.model)
			switch fast {
			case 0:
				v = Unsat
				i.stats.FastDecisions++
			case 1:
				v = Sat
				m = make(Model, len(i.model))
				copy(m, i.model)
				for _, a := range ch {
					for uint64(len(m)) <= a.v.val {
						m = append(m, 0)
					}
					m[a.v.val] = uint64(a.val)
				}
				i.stats.FastDecisions++
			}
		}
		if fast < 0 {
			v, m = i.solver.Check(append(append([]Lit{}, i.pc...), Lit{c, mv}))
		}
		switch v {
		case Sat:
			alt := make([]int64, n+1)
			copy(alt, i.taken)
			alt[n] = int64(b2u(!mv))
			i.newWork = append(i.newWork, workItem{alt, m})
			i.stats.Forks++
		case Unknown:
			i.stats.UnknownBranch++
		}
		choice = mv
	}
	i.taken = append(i.taken, int64(b2u(choice)))
	i.pushPC(c, !choice)
	i.stats.Decisions++
	return choice
}

// choose is a free k-way choice (no term): all alternatives are feasible.
func (i *interpreter) choose(k int, why string) int {
	if k <= 1 {
		return 0
	}
	if i.summ != nil {
		panic(unsupported{"free choice inside a summarised function"})
	}
	n := len(i.taken)
	var c int64
	if os.Getenv("GOSX_DEBUG_CHOOSE") != "" {
		fmt.Fprintf(os.Stderr, "choose %s k=%d at %v\n", why, k, i.stack())
	}
	if n < len(i.prefix) {
		c = i.prefix[n]
	} else {
		for alt := 1; alt < k; alt++ {
			a := make([]int64, n+1)
			copy(a, i.taken)
			a[n] = int64(alt)
			i.newWork = append(i.newWork, workItem{a, i.model})
			i.stats.Forks++
		}
		c = 0
	}
	i.taken = append(i.taken, c)
	i.stats.Decisions++
	return int(c)
}

// ---- events ----

func (i *interpreter) stack() []string {
	var s []string
	for k := len(i.curFn) - 1; k >= 0 && len(s) < 12; k-- {
		s = append(s, fnName(i.curFn[k]))
	}
	return s
}

func (i *interpreter) modelMap(m Model) map[string]uint64 {
	out := map[string]uint64{}
	for _, v := range i.tt.vars {
		out[v.name] = m.get(v.val) & maskB(int(v.w))
	}
	return out
}

func (i *interpreter) raise(kind, label, msg string, m Model) {
	st := i.stack()
	if kind == "panic" && i.panicStack != nil {
		st = i.panicStack
	}
	ev := Event{Kind: kind, Label: label, Msg: msg, Model: i.modelMap(m), Stack: st,
		Decisions: append([]int64{}, i.taken...), Choices: i.choiceMap(), Harness: i.cfg.Entry, Args: i.cfg.Args}
	i.events = append(i.events, ev)
}

func (i *interpreter) writerIsHarness() bool {
	if len(i.curFn) == 0 {
		return true
	}
	fn := i.curFn[len(i.curFn)-1]
	for fn.Parent() != nil {
		fn = fn.Parent()
	}
	n := fn.Name()
	return strings.HasPrefix(n, "verif") || strings.HasPrefix(n, "Harness") || strings.HasPrefix(n, "harness") || n == "init"
}

func (i *interpreter) oldWrite(root string) {
	if !i.monitor || i.writerIsHarness() {
		return
	}
	if strings.HasPrefix(root, "verif") || strings.Contains(root, ".verif") {
		return
	}
	w := "?"
	if len(i.curFn) > 0 {
		w = fnName(i.curFn[len(i.curFn)-1])
	}
	i.raise("global-write", root+"<-"+w, "write to memory that existed before the code under test was entered (reachable from "+root+") by "+w, i.model)
}

func (i *interpreter) frozenWrite(idx int32) {
	if i.writerIsHarness() {
		return
	}
	w := "?"
	if len(i.curFn) > 0 {
		w = fnName(i.curFn[len(i.curFn)-1])
	}
	name := "frozen"
	if int(idx) < len(i.frozenNames) {
		name = i.frozenNames[idx]
	}
	i.raise("frozen-write", name+"<-"+w, "write to frozen object "+name+" by "+w, i.model)
}

func (i *interpreter) mapOrderApplies() bool {
	if len(i.mapOrderFns) == 0 {
		return true
	}
	// only maps ranged over directly by one of the named functions (or a closure of it)
	if len(i.curFn) == 0 {
		return false
	}
	fn := i.curFn[len(i.curFn)-1]
	for fn != nil {
		if i.mapOrderFns[fn.Name()] {
			return true
		}
		fn = fn.Parent()
	}
	return false
}

// ---- freeze walk ----

func (i *interpreter) freezeGlobals() {
	i.old = map[*value]int32{}
	seenMaps := map[*amap]bool{}
	type g struct {
		name string
		cell *value
	}
	var gs []g
	for gl, cell := range i.globals {
		if gl.Pkg == nil {
			continue
		}
		gs = append(gs, g{gl.Pkg.Pkg.Name() + "." + gl.Name(), cell})
	}
	sort.Slice(gs, func(a, b int) bool { return gs[a].name < gs[b].name })
	for _, x := range gs {
		idx := int32(len(i.oldNames))
		i.oldNames = append(i.oldNames, x.name)
		walkCells(x.cell, func(c *value) bool {
			if _, ok := i.old[c]; ok {
				return false
			}
			i.old[c] = idx
			return true
		}, func(m *amap) bool {
			if seenMaps[m] {
				return false
			}
			seenMaps[m] = true
			m.old = idx + 1
			return true
		})
	}
}

// walkCells visits every memory cell reachable from cell.
func walkCells(cell *value, visit func(*value) bool, visitMap func(*amap) bool) {
	if cell == nil || !visit(cell) {
		return
	}
	walkValue(*cell, visit, visitMap)
}

func walkValue(v value, visit func(*value) bool, visitMap func(*amap) bool) {
	switch x := v.(type) {
	case *value:
		walkCells(x, visit, visitMap)
	case structure:
		for k := range x {
			walkCells(&x[k], visit, visitMap)
		}
	case array:
		for k := range x {
			walkCells(&x[k], visit, visitMap)
		}
	case []value:
		full := x[:cap(x)]
		for k := range full {
			walkCells(&full[k], visit, visitMap)
		}
	case iface:
		walkValue(x.v, visit, visitMap)
	case *amap:
		if x == nil || !visitMap(x) {
			return
		}
		for k := range x.keys {
			walkValue(x.keys[k], visit, visitMap)
			walkValue(x.vals[k], visit, visitMap)
		}
	case *closure:
		for _, e := range x.Env {
			walkValue(e, visit, visitMap)
		}
	case tuple:
		for _, e := range x {
			walkValue(e, visit, visitMap)
		}
	}
}

// ---- running paths ----

func (i *interpreter) startPath(w workItem) {
	i.prefix = w.prefix
	i.model = w.model
	i.taken = i.taken[:0]
	i.pc = i.pc[:0]
	i.steps = 0
	i.depth = 0
	i.symN = 0
	i.events = nil
	i.mapOrder = false
	i.mapOrderFns = nil
	i.mapOrderBudget, i.mapOrderUsed = 0, 0
	i.monitor = false
	i.frozen = nil
	i.frozenNames = nil
	i.newWork = nil
	i.curFn = i.curFn[:0]
	i.overrides = map[string]value{}
	i.onceDone = map[*value]bool{}
	i.symNames = map[string]int{}
	i.inputs = nil
	i.trace = nil
	i.numCPU = 0
	i.summ = nil
	i.pathReach = map[string]int{}
	i.builders = nil
	i.panicStack = nil
	i.tainted = false
	i.vcwd = ""
	i.egErr = nil
	i.gomaxprocs = 0
	i.syncMaps = nil
	i.colorOn, i.capture, i.captured = false, false, nil
	i.goOrder, i.goPending = nil, nil
	i.mapRangers = nil
	i.recordRangers = false
	i.bigOrder = -1
	i.doms.reset()
}

func (i *interpreter) choiceMap() map[string]int {
	m := map[string]int{}
	for _, in := range i.inputs {
		if in.Kind == "choice" {
			m[in.Name] = in.N
		}
	}
	return m
}

func (i *interpreter) rollback() {
	for k := len(i.undo) - 1; k >= 0; k-- {
		*i.undo[k].addr = i.undo[k].old
	}
	i.undo = i.undo[:0]
	for k := len(i.mapUndo) - 1; k >= 0; k-- {
		u := i.mapUndo[k]
		u.m.keys, u.m.vals = u.keys, u.vals
	}
	i.mapUndo = i.mapUndo[:0]
	for _, m := range i.frozenMaps {
		m.froz = 0
	}
	i.frozenMaps = nil
}

// runPath executes the harness once along w and returns how the path ended.
func (i *interpreter) runPath(w workItem) (end string) {
	i.startPath(w)
	defer i.rollback()
	defer func() {
		p := recover()
		if p == nil {
			return
		}
		switch p := p.(type) {
		case pathEnd:
			end = "cut:" + p.reason
		case unsupported:
			end = "unsupported"
			where := "?"
			if len(i.curFn) > 0 {
				where = fnName(i.curFn[len(i.curFn)-1])
			}
			i.stats.Unsupported[p.msg+" @"+where]++
			if os.Getenv("VERIF_DEBUG_UNSUPPORTED") != "" {
				fmt.Fprintf(os.Stderr, "UNSUPPORTED %s\n%s\n", p.msg, debug.Stack())
			}
		case budgetExceeded:
			end = "budget"
			i.stats.Budget[p.what]++
			i.raise("budget", "unwinding", p.what, i.model)
		case *runtime.TypeAssertionError:
			end = "unsupported"
			where := "?"
			if len(i.curFn) > 0 {
				where = fnName(i.curFn[len(i.curFn)-1])
			}
			st := string(debug.Stack())
			// keep the first interp frame for diagnosis
			short := ""
			for _, ln := range strings.Split(st, "\n") {
				if strings.Contains(ln, "/gosx/interp/") && !strings.Contains(ln, "explore.go") {
					short = strings.TrimSpace(ln)
					break
				}
			}
			i.stats.Unsupported["engine: "+p.Error()+" @"+where+" "+short]++
		case targetPanic:
			end = "panic"
			i.stats.Panics++
			if i.cfg.NoPanic {
				i.raise("panic", "panic", "panic: "+i.showPanic(p.v), i.model)
			}
		case runtime.Error:
			end = "panic"
			i.stats.Panics++
			st := string(debug.Stack())
			if strings.Contains(p.Error(), "nil pointer dereference") || strings.Contains(p.Error(), "index out of range") || strings.Contains(p.Error(), "slice bounds") {
				// raised by the Go runtime while the interpreter manipulated target data:
				// the target's own runtime error
			}
			_ = st
			if i.cfg.NoPanic {
				i.raise("panic", "panic", "panic: "+p.Error(), i.model)
			}
		case string:
			end = "panic"
			i.stats.Panics++
			if i.cfg.NoPanic {
				i.raise("panic", "panic", "panic: "+p, i.model)
			}
		default:
			panic(p)
		}
	}()
	fn := i.cfg.Pkg.Func(i.cfg.Entry)
	if fn == nil {
		panic("no harness function " + i.cfg.Entry)
	}
	args := make([]value, len(fn.Params))
	for k, p := range fn.Params {
		var a int64
		if k < len(i.cfg.Args) {
			a = i.cfg.Args[k]
		}
		switch b := p.Type().Underlying().(*types.Basic); {
		case b.Info()&types.IsBoolean != 0:
			args[k] = a != 0
		default:
			args[k] = mkConc(basicKind(p.Type()), uint64(a))
		}
	}
	call(i, nil, token.NoPos, fn, args)
	return "ok"
}

func (i *interpreter) showPanic(v value) string {
	if it, ok := v.(iface); ok {
		if s, ok := it.v.(string); ok {
			return s
		}
		if it.t != nil {
			if m := i.prog.LookupMethod(it.t, nil, "Error"); m != nil {
				func() {
					defer func() { recover() }()
					r := call(i, nil, token.NoPos, m, []value{it.v})
					v = r
				}()
			}
		}
	}
	return toString(v)
}

// Explore runs the harness over all feasible paths.
func Explore(cfg *Config) *Result {
	t0 := time.Now()
	if cfg.Workers <= 0 {
		cfg.Workers = runtime.NumCPU()
	}
	if cfg.MaxSteps == 0 {
		cfg.MaxSteps = 2000000
	}
	if cfg.MaxDepth == 0 {
		cfg.MaxDepth = 400
	}
	if cfg.MaxSamples == 0 {
		cfg.MaxSamples = 16
	}
	if cfg.SampleEvery == 0 {
		cfg.SampleEvery = 17
	}
	cfg.reg = NewVarRegistry()
	q := &sharedQueue{}
	q.cond = sync.NewCond(&q.mu)
	q.items = []workItem{{}}
	res := &Result{Reach: map[string]int{}, Stubs: map[string]int{}, PathsByEnd: map[string]int{}}
	res.Stats.Unsupported = map[string]int{}
	res.Stats.Budget = map[string]int{}
	var mu sync.Mutex
	seenEv := map[string]bool{}
	funcs := map[string]bool{}
	assumes := map[string]bool{}
	var wg sync.WaitGroup
	var fatal interface{}
	violating := 0
	for w := 0; w < cfg.Workers; w++ {
		wg.Add(1)
		go func(wid int) {
			defer wg.Done()
			defer func() {
				if p := recover(); p != nil {
					mu.Lock()
					if fatal == nil {
						fatal = fmt.Sprintf("%v\n%s", p, debug.Stack())
					}
					mu.Unlock()
					q.mu.Lock()
					q.stopped = true
					q.mu.Unlock()
					q.cond.Broadcast()
				}
			}()
			var i *interpreter
			for {
				item, ok := q.pop()
				if !ok {
					break
				}
				if i == nil {
					i = newInterpreter(cfg)
					i.stats.Unsupported = map[string]int{}
					i.stats.Budget = map[string]int{}
					i.solver = NewSolver(i.tt, SolverArgv(cfg.Solver))
					if cfg.SolverLog != "" && wid == 0 {
						f, _ := os.Create(cfg.SolverLog)
						i.solver.Log = f
					}
					defer i.solver.Close()
				}
				end := i.runPath(item)
				i.stats.Paths++
				i.stats.Steps += int64(i.steps)
				q.push(i.newWork)
				mu.Lock()
				res.PathsByEnd[end]++
				for _, ev := range i.events {
					k := ev.Kind + "|" + ev.Label
					if cfg.AllEvents {
						k += fmt.Sprint(ev.Choices)
					}
					if !seenEv[k] {
						seenEv[k] = true
						ev.Inputs = i.renderInputs(ev.Model)
						res.Events = append(res.Events, ev)
					}
				}
				if (end == "ok" || end == "panic") && len(i.events) == 0 && len(i.inputs) > 0 && !i.tainted && (len(res.Samples) < cfg.MaxSamples) && (q.paths%cfg.SampleEvery == 1 || cfg.SampleEvery == 1) {
					mm := i.modelMap(i.model)
					pr := map[string]int{}
					for k, v := range i.pathReach {
						pr[k] = v
					}
					res.Samples = append(res.Samples, Sample{Model: mm, Choices: i.choiceMap(), Inputs: i.renderInputs(mm), Reach: pr, End: end, NDecisions: len(i.taken)})
				}
				if len(i.events) > 0 {
					violating++
				}
				// a tree that violates the property on hundreds of paths need not be explored to the
				// end (a changed tree can also multiply the paths): the violations found are reported
				enough := violating >= 400
				over := cfg.MaxPaths > 0 && q.paths > cfg.MaxPaths
				dead := !cfg.Deadline.IsZero() && time.Now().After(cfg.Deadline)
				mu.Unlock()
				q.done()
				if enough {
					q.mu.Lock()
					q.stopped = true
					q.mu.Unlock()
					q.cond.Broadcast()
					break
				}
				if over || dead {
					q.mu.Lock()
					q.stopped = true
					q.mu.Unlock()
					q.cond.Broadcast()
					mu.Lock()
					why := "path limit reached"
					if dead {
						why = "deadline reached"
					}
					if len(res.Inconclusive) == 0 {
						res.Inconclusive = append(res.Inconclusive, why)
					}
					mu.Unlock()
					break
				}
			}
			if i == nil {
				return
			}
			mu.Lock()
			defer mu.Unlock()
			s := &res.Stats
			s.Paths += i.stats.Paths
			s.Decisions += i.stats.Decisions
			s.Forks += i.stats.Forks
			s.Steps += i.stats.Steps
			s.UnknownBranch += i.stats.UnknownBranch
			s.Checks += i.stats.Checks
			s.CheckQueries += i.stats.CheckQueries
			s.AssumeCut += i.stats.AssumeCut
			s.Panics += i.stats.Panics
			s.Summaries += i.stats.Summaries
			s.FastDecisions += i.stats.FastDecisions
			if i.stats.MaxPC > s.MaxPC {
				s.MaxPC = i.stats.MaxPC
			}
			for k, v := range i.stats.Unsupported {
				s.Unsupported[k] += v
			}
			for k, v := range i.stats.Budget {
				s.Budget[k] += v
			}
			for k, v := range i.reach {
				res.Reach[k] += v
			}
			for k, v := range i.stubsHit {
				res.Stubs[k] += v
			}
			for f := range i.funcsSeen {
				funcs[fnName(f)] = true
			}
			for _, a := range i.assumes {
				assumes[a] = true
			}
			res.Solver.add(i.solver.Stats)
		}(w)
	}
	wg.Wait()
	if fatal != nil {
		panic(fatal)
	}
	for f := range funcs {
		res.Funcs = append(res.Funcs, f)
	}
	sort.Strings(res.Funcs)
	for a := range assumes {
		res.Assumes = append(res.Assumes, a)
	}
	sort.Strings(res.Assumes)
	if res.Stats.UnknownBranch > 0 {
		res.Inconclusive = append(res.Inconclusive, fmt.Sprintf("%d branch queries answered unknown", res.Stats.UnknownBranch))
	}
	if res.Solver.Errors > 0 {
		res.Inconclusive = append(res.Inconclusive, fmt.Sprintf("%d solver errors", res.Solver.Errors))
	}
	for k, v := range res.Stats.Unsupported {
		res.Inconclusive = append(res.Inconclusive, fmt.Sprintf("unsupported ×%d: %s", v, k))
	}
	sort.Strings(res.Inconclusive)
	res.Wall = time.Since(t0).Seconds()
	return res
}
