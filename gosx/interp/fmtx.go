package interp

// fmt.Sprintf / Errorf / Fprintf over interpreter values. Concrete arguments
// are rendered by the real fmt (after evaluating interpreted Error()/String()
// methods); symbolic arguments yield structured messages (Rope).

import (
	"fmt"
	"go/types"
	"strconv"
	"strings"

	"golang.org/x/tools/go/ssa"
)

func (i *interpreter) methodOf(t types.Type, name string) *ssa.Function {
	if t == nil {
		return nil
	}
	ms := i.prog.MethodSets.MethodSet(t)
	for k := 0; k < ms.Len(); k++ {
		sel := ms.At(k)
		if sel.Obj().Name() == name {
			sig := sel.Type().(*types.Signature)
			if sig.Params().Len() == 0 && sig.Results().Len() == 1 {
				if b, ok := sig.Results().At(0).Type().Underlying().(*types.Basic); ok && b.Kind() == types.String {
					return i.prog.MethodValue(sel)
				}
			}
		}
	}
	return nil
}

// fmtString renders one operand for a string-ish verb (%s %v %q): the result
// is a string-like value (string, SymStr or Rope) or nil if not string-like.
func (i *interpreter) stringish(fr *frame, arg iface) (value, bool) {
	if arg.t == nil {
		return nil, false
	}
	if isStr(arg.v) {
		return arg.v, true
	}
	if p, ok := arg.v.(*value); ok && p == nil {
		if _, isPtr := arg.t.Underlying().(*types.Pointer); isPtr {
			return nil, false
		}
	}
	if m := i.methodOf(arg.t, "Error"); m != nil {
		return call(i, fr, 0, m, []value{arg.v}), true
	}
	if m := i.methodOf(arg.t, "String"); m != nil {
		return call(i, fr, 0, m, []value{arg.v}), true
	}
	return nil, false
}

func (i *interpreter) fmtOne(fr *frame, spec string, verb byte, arg iface) value {
	if arg.t == nil {
		if verb == 'v' {
			return "<nil>"
		}
		return "%!" + string(verb) + "(<nil>)"
	}
	switch verb {
	case 's', 'v', 'q':
		if s, ok := i.stringish(fr, arg); ok {
			if cs, ok := s.(string); ok {
				return fmt.Sprintf(spec, cs)
			}
			if verb == 'q' {
				return &Rope{[]ropePart{{verb: "%q", arg: s}}}
			}
			if spec != "%s" && spec != "%v" {
				panic(unsupported{"fmt: flags on symbolic string " + spec})
			}
			return s
		}
	case 'T':
		return arg.t.String()
	}
	if s, ok := arg.v.(*Sym); ok {
		return &Rope{[]ropePart{{verb: "%" + string(verb), arg: s}}}
	}
	if f, ok := arg.v.(*symFloat); ok {
		switch f.class {
		case fNaN:
			return "NaN"
		case fInf:
			return "Inf"
		}
		return &Rope{[]ropePart{{verb: "%" + string(verb), arg: f}}}
	}
	if n, ok := toNative(arg.v); ok {
		return fmt.Sprintf(spec, n)
	}
	switch x := arg.v.(type) {
	case []value:
		// slice of string-like things with symbolic parts
		if verb == 'v' || verb == 'q' || verb == 's' {
			var r value = "["
			for k, e := range x {
				if k > 0 {
					r = i.strConcat(r, " ")
				}
				r = i.strConcat(r, i.fmtOne(fr, "%"+string(verb), verb, iface{t: types.Typ[types.String], v: e}))
			}
			return i.strConcat(r, "]")
		}
	case *value:
		if x == nil {
			return "<nil>"
		}
		return fmt.Sprintf("%p", x)
	case structure:
		var r value = "{"
		for k, e := range x {
			if k > 0 {
				r = i.strConcat(r, " ")
			}
			var ft types.Type = types.Typ[types.Int]
			if st, ok := arg.t.Underlying().(*types.Struct); ok {
				ft = st.Field(k).Type()
			}
			r = i.strConcat(r, i.fmtOne(fr, "%v", 'v', iface{t: ft, v: e}))
		}
		return i.strConcat(r, "}")
	case iface:
		return i.fmtOne(fr, spec, verb, x)
	}
	panic(unsupported{fmt.Sprintf("fmt: verb %s on %T (%s)", spec, arg.v, arg.t)})
}

// sprintf returns the message and the operand of %w, if any.
func (i *interpreter) sprintf(fr *frame, format string, args []value) (value, value) {
	var out value = ""
	var wrapped value
	argi := 0
	for p := 0; p < len(format); {
		q := strings.IndexByte(format[p:], '%')
		if q < 0 {
			out = i.strConcat(out, format[p:])
			break
		}
		out = i.strConcat(out, format[p:p+q])
		p += q
		e := p + 1
		for e < len(format) && strings.IndexByte("+-# 0123456789.*[]", format[e]) >= 0 {
			e++
		}
		if e >= len(format) {
			out = i.strConcat(out, "%!(NOVERB)")
			break
		}
		verb := format[e]
		spec := format[p : e+1]
		p = e + 1
		if verb == '%' {
			out = i.strConcat(out, "%")
			continue
		}
		if strings.ContainsAny(spec, "*[") {
			panic(unsupported{"fmt: indexed or star width " + spec})
		}
		if argi >= len(args) {
			out = i.strConcat(out, "%!"+string(verb)+"(MISSING)")
			continue
		}
		arg := args[argi].(iface)
		argi++
		if verb == 'w' {
			wrapped = arg
			verb = 'v'
			spec = "%v"
		}
		out = i.strConcat(out, i.fmtOne(fr, spec, verb, arg))
	}
	if argi < len(args) {
		out = i.strConcat(out, "%!(EXTRA ")
		for k := argi; k < len(args); k++ {
			if k > argi {
				out = i.strConcat(out, ", ")
			}
			a := args[k].(iface)
			tn := "<nil>"
			if a.t != nil {
				tn = a.t.String()
			}
			out = i.strConcat(out, tn+"=")
			out = i.strConcat(out, i.fmtOne(fr, "%v", 'v', a))
		}
		out = i.strConcat(out, ")")
	}
	return out, wrapped
}

func (i *interpreter) sprint(fr *frame, args []value, ln bool) value {
	var out value = ""
	prevStr := false
	for k, a := range args {
		arg := a.(iface)
		_, isS := arg.v.(string)
		if k > 0 && (ln || (!prevStr && !isS)) {
			out = i.strConcat(out, " ")
		}
		out = i.strConcat(out, i.fmtOne(fr, "%v", 'v', arg))
		prevStr = isS
	}
	if ln {
		out = i.strConcat(out, "\n")
	}
	return out
}

func init() {
	reg("fmt.Sprintf", func(fr *frame, a []value) value {
		s, _ := fr.i.sprintf(fr, mustString(a[0], "fmt.Sprintf format"), a[1].([]value))
		return s
	})
	reg("fmt.Sprint", func(fr *frame, a []value) value { return fr.i.sprint(fr, a[0].([]value), false) })
	reg("fmt.Sprintln", func(fr *frame, a []value) value { return fr.i.sprint(fr, a[0].([]value), true) })
	reg("fmt.Errorf", func(fr *frame, a []value) value {
		i := fr.i
		s, w := i.sprintf(fr, mustString(a[0], "fmt.Errorf format"), a[1].([]value))
		if w != nil {
			t := i.namedType("fmt", "wrapError")
			var cell value = structure{s, w}
			return iface{t: types.NewPointer(t), v: &cell}
		}
		return i.newError(s)
	})
	reg("(*fmt.wrapError).Error", func(fr *frame, a []value) value {
		return (*a[0].(*value)).(structure)[0]
	})
	reg("(*fmt.wrapError).Unwrap", func(fr *frame, a []value) value {
		return (*a[0].(*value)).(structure)[1]
	})
	// writers: output is a sink unless the harness captures it
	sink := func(fr *frame, w value, s value) value {
		i := fr.i
		if i.outSink != nil {
			i.outSink(w, s)
		}
		if i.capture {
			i.captured = append(i.captured, s)
		}
		n := 0
		if cs, ok := s.(string); ok {
			n = len(cs)
		}
		return tuple{n, iface{}}
	}
	reg("fmt.Fprintf", func(fr *frame, a []value) value {
		s := fr.i.formatValue(fr, a[1], a[2].([]value), "fmt.Fprintf format")
		return sink(fr, a[0], s)
	})
	reg("fmt.Fprint", func(fr *frame, a []value) value { return sink(fr, a[0], fr.i.sprint(fr, a[1].([]value), false)) })
	reg("fmt.Fprintln", func(fr *frame, a []value) value { return sink(fr, a[0], fr.i.sprint(fr, a[1].([]value), true)) })
	reg("fmt.Printf", func(fr *frame, a []value) value {
		s, _ := fr.i.sprintf(fr, mustString(a[0], "fmt.Printf format"), a[1].([]value))
		return sink(fr, nil, s)
	})
	reg("fmt.Println", func(fr *frame, a []value) value { return sink(fr, nil, fr.i.sprint(fr, a[0].([]value), true)) })
	// github.com/fatih/color: colour objects are opaque (zero after init); their
	// print methods are plain sinks (escape sequences are outside every claim)
	// With verifColorOutput(true) they write what fatih/color v1.18 writes when colours are on:
	// Fprint / Fprintf: ESC[<n>m + text + ESC[0m (a line break inside the text stays inside);
	// Fprintln: ESC[<n>m + text + ESC[0m + "\n". <n> is always 33 here: the problem matcher's
	// pattern treats every \d+ alike.
	// color.New(attrs...) keeps its attributes (also when called from a package initialiser), so
	// that the sequences written are the real ones: Fprint / Fprintf write ESC[a;b;..m text ESC[0m,
	// Fprintln writes ESC[a;b;..m text ESC[r;..m "\n" with the per-attribute resets of fatih/color v1.18.
	reg("github.com/fatih/color.New", func(fr *frame, a []value) value {
		var ps []int
		if sl, ok := a[0].([]value); ok {
			for _, v := range sl {
				ps = append(ps, int(asInt64(v)))
			}
		}
		var cell value = colorObj{ps}
		return &cell
	})
	seqOf := func(recv value) (string, string) {
		on, off := "33", "0"
		if p, ok := recv.(*value); ok && p != nil {
			if c, ok := (*p).(colorObj); ok && len(c.params) > 0 {
				var a, b []string
				for _, v := range c.params {
					a = append(a, strconv.Itoa(v))
					r := 0
					switch v {
					case 1, 2:
						r = 22
					case 3:
						r = 23
					case 4:
						r = 24
					case 5, 6:
						r = 25
					case 7:
						r = 27
					case 8:
						r = 28
					case 9:
						r = 29
					}
					b = append(b, strconv.Itoa(r))
				}
				on, off = strings.Join(a, ";"), strings.Join(b, ";")
			}
		}
		return "\x1b[" + on + "m", "\x1b[" + off + "m"
	}
	for _, m := range []string{"Fprint", "Fprintln"} {
		ln := m == "Fprintln"
		reg("(*github.com/fatih/color.Color)."+m, func(fr *frame, a []value) value {
			i := fr.i
			if i.colorOn {
				on, off := seqOf(a[0])
				if !ln {
					off = "\x1b[0m"
				}
				s := i.strConcat(i.strConcat(on, i.sprint(fr, a[2].([]value), false)), off)
				if ln {
					s = i.strConcat(s, "\n")
				}
				return sink(fr, a[1], s)
			}
			return sink(fr, a[1], i.sprint(fr, a[2].([]value), ln))
		})
	}
	reg("(*github.com/fatih/color.Color).Fprintf", func(fr *frame, a []value) value {
		s := fr.i.formatValue(fr, a[2], a[3].([]value), "color.Fprintf format")
		if fr.i.colorOn {
			on, _ := seqOf(a[0])
			s = fr.i.strConcat(fr.i.strConcat(on, s), "\x1b[0m")
		}
		return sink(fr, a[1], s)
	})
	reg(pkgPrefix+"verifColorOutput", func(fr *frame, a []value) value {
		fr.i.colorOn = a[0].(bool)
		return nil
	})
	reg(pkgPrefix+"verifCaptureOutput", func(fr *frame, a []value) value {
		fr.i.capture = a[0].(bool)
		if fr.i.capture {
			fr.i.captured = nil
		}
		return nil
	})
	reg(pkgPrefix+"verifCapturedParts", func(fr *frame, a []value) value {
		return append([]value{}, fr.i.captured...)
	})
	reg("(*github.com/fatih/color.Color).Sprint", func(fr *frame, a []value) value { return fr.i.sprint(fr, a[1].([]value), false) })
	reg("(*github.com/fatih/color.Color).Sprintf", func(fr *frame, a []value) value {
		s, _ := fr.i.sprintf(fr, mustString(a[1], "color.Sprintf format"), a[2].([]value))
		return s
	})
	_ = strconv.Itoa
}

type colorObj struct{ params []int }

// formatValue: Sprintf whose format is not a constant. A text used as a format is printed
// verbatim only if it contains no '%'; otherwise (one path decision) something else is printed —
// modelled as the text followed by "%!(NOVERB)", good enough to make the difference observable;
// what fmt really prints is seen by the native replay.
func (i *interpreter) formatValue(fr *frame, f value, args []value, what string) value {
	if fs, ok := f.(string); ok {
		s, _ := i.sprintf(fr, fs, args)
		return s
	}
	if len(args) != 0 {
		panic(unsupported{what + ": symbolic format string with operands"})
	}
	if i.decide(i.mayContainPercent(f)) {
		return i.strConcat(f, "%!(NOVERB)")
	}
	return f
}

func (i *interpreter) mayContainPercent(msg value) *Term {
	tt := i.tt
	switch m := msg.(type) {
	case string:
		return tt.Bool(strings.Contains(m, "%"))
	case SymStr:
		r := tt.False
		for _, b := range m {
			if c, ok := b.(uint8); ok {
				if c == '%' {
					return tt.True
				}
				continue
			}
			r = tt.Or(r, tt.Eq(b.(*Sym).t, tt.Const(8, '%')))
		}
		return r
	case *Rope:
		r := tt.False
		for _, p := range m.parts {
			switch {
			case p.verb == "":
				if p.raw != nil {
					r = tt.Or(r, i.mayContainPercent(p.raw))
				} else {
					r = tt.Or(r, i.mayContainPercent(p.lit))
				}
			case p.verb == "%q" || p.verb == "%s" || p.verb == "%v":
				switch p.arg.(type) {
				case string, SymStr, *Rope:
					r = tt.Or(r, i.mayContainPercent(p.arg))
				}
			}
		}
		return r
	}
	return tt.False
}
