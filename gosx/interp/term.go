package interp

// Hash-consed bit-vector / boolean term DAG, with constant folding, a concrete
// evaluator (used to follow the current model without asking the solver) and
// SMT-LIB2 printing through level-0 define-funs.

import (
	"fmt"
	"strings"
	"sync"
)

type Op uint8

const (
	OpConst Op = iota
	OpVar
	OpNot
	OpAnd
	OpOr
	OpEq
	OpIte
	OpAdd
	OpSub
	OpMul
	OpUDiv
	OpSDiv
	OpURem
	OpSRem
	OpBAnd
	OpBOr
	OpBXor
	OpBNot
	OpNeg
	OpShl
	OpLshr
	OpAshr
	OpUlt
	OpUle
	OpSlt
	OpSle
	OpZext  // w = result width
	OpSext  // w = result width
	OpExtr  // val = low bit, w = result width
	OpConcat
)

var opName = [...]string{"const", "var", "not", "and", "or", "=", "ite", "bvadd", "bvsub", "bvmul", "bvudiv", "bvsdiv", "bvurem", "bvsrem",
	"bvand", "bvor", "bvxor", "bvnot", "bvneg", "bvshl", "bvlshr", "bvashr", "bvult", "bvule", "bvslt", "bvsle", "zext", "sext", "extract", "concat"}

// Term is an immutable node. w == 0 means Bool.
type Term struct {
	tab     *TermTab
	id      int32
	op      Op
	w       uint8
	val     uint64 // const value / var index / extract low bit
	name    string // var name
	a, b, c *Term
	defined int32 // solver epoch in which a define-fun was emitted
	atom    int32 // solver epoch in which a p<id> literal was emitted
	sup     *Term // the single variable this term depends on (fastpath.go)
	supDone bool
	supMany bool
	bm      *byteSet
}

type termKey struct {
	op      Op
	w       uint8
	val     uint64
	name    string
	a, b, c int32
}

type TermTab struct {
	tab   map[termKey]*Term
	terms []*Term
	vars  []*Term // this worker's variables, in creation order
	True  *Term
	False *Term
	reg   *VarRegistry
	owner *interpreter
}

// VarRegistry gives every variable name one index shared by all workers, so
// that a model found by one worker can be followed by another.
type VarRegistry struct {
	mu  sync.Mutex
	idx map[string]uint64
}

func NewVarRegistry() *VarRegistry { return &VarRegistry{idx: map[string]uint64{}} }

func (r *VarRegistry) index(name string) uint64 {
	r.mu.Lock()
	defer r.mu.Unlock()
	if i, ok := r.idx[name]; ok {
		return i
	}
	i := uint64(len(r.idx))
	r.idx[name] = i
	return i
}

func NewTermTab(reg *VarRegistry) *TermTab {
	tt := &TermTab{tab: map[termKey]*Term{}, reg: reg}
	tt.True = tt.mk(OpConst, 0, 1, "", nil, nil, nil)
	tt.False = tt.mk(OpConst, 0, 0, "", nil, nil, nil)
	return tt
}

func tid(t *Term) int32 {
	if t == nil {
		return -1
	}
	return t.id
}

func (tt *TermTab) mk(op Op, w int, val uint64, name string, a, b, c *Term) *Term {
	k := termKey{op, uint8(w), val, name, tid(a), tid(b), tid(c)}
	if t, ok := tt.tab[k]; ok {
		return t
	}
	t := &Term{tab: tt, id: int32(len(tt.terms)), op: op, w: uint8(w), val: val, name: name, a: a, b: b, c: c}
	tt.terms = append(tt.terms, t)
	tt.tab[k] = t
	return t
}

func mask(w int) uint64 {
	if w >= 64 {
		return ^uint64(0)
	}
	return (uint64(1) << uint(w)) - 1
}

func (tt *TermTab) Const(w int, v uint64) *Term {
	if w == 0 {
		if v != 0 {
			return tt.True
		}
		return tt.False
	}
	return tt.mk(OpConst, w, v&mask(w), "", nil, nil, nil)
}

func (tt *TermTab) Bool(b bool) *Term {
	if b {
		return tt.True
	}
	return tt.False
}

// Var returns the variable with this name (created on first use).
func (tt *TermTab) Var(name string, w int) *Term {
	k := termKey{OpVar, uint8(w), 0, name, -1, -1, -1}
	if t, ok := tt.tab[k]; ok {
		return t
	}
	t := &Term{tab: tt, id: int32(len(tt.terms)), op: OpVar, w: uint8(w), val: tt.reg.index(name), name: name}
	tt.terms = append(tt.terms, t)
	tt.tab[k] = t
	tt.vars = append(tt.vars, t)
	return t
}

func (t *Term) IsConst() bool { return t.op == OpConst }
func (t *Term) IsTrue() bool  { return t.op == OpConst && t.w == 0 && t.val == 1 }
func (t *Term) IsFalse() bool { return t.op == OpConst && t.w == 0 && t.val == 0 }
func (t *Term) W() int        { return int(t.w) }

func sext64(v uint64, w int) int64 {
	if w >= 64 {
		return int64(v)
	}
	sh := uint(64 - w)
	return int64(v<<sh) >> sh
}

// ---- constructors with folding ----

func (tt *TermTab) Not(a *Term) *Term {
	if a.op == OpConst {
		return tt.Bool(a.val == 0)
	}
	if a.op == OpNot {
		return a.a
	}
	return tt.mk(OpNot, 0, 0, "", a, nil, nil)
}

func (tt *TermTab) And(a, b *Term) *Term {
	if a.IsFalse() || b.IsFalse() {
		return tt.False
	}
	if a.IsTrue() {
		return b
	}
	if b.IsTrue() {
		return a
	}
	if a == b {
		return a
	}
	if (a.op == OpNot && a.a == b) || (b.op == OpNot && b.a == a) {
		return tt.False
	}
	if a.id > b.id {
		a, b = b, a
	}
	return tt.mk(OpAnd, 0, 0, "", a, b, nil)
}

func (tt *TermTab) Or(a, b *Term) *Term {
	if a.IsTrue() || b.IsTrue() {
		return tt.True
	}
	if a.IsFalse() {
		return b
	}
	if b.IsFalse() {
		return a
	}
	if a == b {
		return a
	}
	if (a.op == OpNot && a.a == b) || (b.op == OpNot && b.a == a) {
		return tt.True
	}
	if a.id > b.id {
		a, b = b, a
	}
	return tt.mk(OpOr, 0, 0, "", a, b, nil)
}

func (tt *TermTab) Implies(a, b *Term) *Term { return tt.Or(tt.Not(a), b) }
func (tt *TermTab) Iff(a, b *Term) *Term     { return tt.Eq(a, b) }

func (tt *TermTab) Ite(c, a, b *Term) *Term {
	if c.IsTrue() {
		return a
	}
	if c.IsFalse() {
		return b
	}
	if a == b {
		return a
	}
	if a.w == 0 {
		if a.IsTrue() && b.IsFalse() {
			return c
		}
		if a.IsFalse() && b.IsTrue() {
			return tt.Not(c)
		}
		if a.IsTrue() {
			return tt.Or(c, b)
		}
		if a.IsFalse() {
			return tt.And(tt.Not(c), b)
		}
		if b.IsTrue() {
			return tt.Or(tt.Not(c), a)
		}
		if b.IsFalse() {
			return tt.And(c, a)
		}
	}
	if c.op == OpNot {
		return tt.Ite(c.a, b, a)
	}
	return tt.mk(OpIte, int(a.w), 0, "", c, a, b)
}

// pushCmp distributes a comparison with a constant over an ite tree of
// constants: cmp(ite(c,a,b),k) = ite(c,cmp(a,k),cmp(b,k)).
func (tt *TermTab) pushable(x *Term, depth int) bool {
	if x.op == OpConst {
		return true
	}
	if x.op == OpIte && depth < 24 {
		return tt.pushable(x.b, depth+1) && tt.pushable(x.c, depth+1)
	}
	return false
}

func (tt *TermTab) pushBin(f func(a, b *Term) *Term, x, k *Term, left bool) *Term {
	if x.op == OpIte {
		return tt.Ite(x.a, tt.pushBin(f, x.b, k, left), tt.pushBin(f, x.c, k, left))
	}
	if left {
		return f(x, k)
	}
	return f(k, x)
}

func (tt *TermTab) Eq(a, b *Term) *Term {
	if a == b {
		return tt.True
	}
	if a.w != b.w {
		panic(fmt.Sprintf("Eq width mismatch %d %d", a.w, b.w))
	}
	if a.op == OpConst && b.op == OpConst {
		return tt.Bool(a.val == b.val)
	}
	if a.w == 0 {
		if a.op == OpConst {
			a, b = b, a
		}
		if b.IsTrue() {
			return a
		}
		if b.IsFalse() {
			return tt.Not(a)
		}
	}
	if b.op == OpConst && a.op == OpIte && tt.pushable(a, 0) {
		return tt.pushBin(tt.Eq, a, b, true)
	}
	if a.op == OpConst && b.op == OpIte && tt.pushable(b, 0) {
		return tt.pushBin(tt.Eq, b, a, true)
	}
	// zext(x) == const  ->  x == const' (or false)
	if b.op == OpConst && a.op == OpZext {
		if b.val&^mask(int(a.a.w)) != 0 {
			return tt.False
		}
		return tt.Eq(a.a, tt.Const(int(a.a.w), b.val))
	}
	if a.op == OpConst && b.op == OpZext {
		return tt.Eq(b, a)
	}
	if a.id > b.id {
		a, b = b, a
	}
	return tt.mk(OpEq, 0, 0, "", a, b, nil)
}

func evalBin(op Op, w int, x, y uint64) uint64 {
	m := mask(w)
	switch op {
	case OpAdd:
		return (x + y) & m
	case OpSub:
		return (x - y) & m
	case OpMul:
		return (x * y) & m
	case OpUDiv:
		if y == 0 {
			return m
		}
		return x / y
	case OpURem:
		if y == 0 {
			return x
		}
		return x % y
	case OpSDiv:
		sx, sy := sext64(x, w), sext64(y, w)
		if sy == 0 {
			if sx >= 0 {
				return m
			}
			return 1
		}
		if sy == -1 {
			return uint64(-sx) & m
		}
		return uint64(sx/sy) & m
	case OpSRem:
		sx, sy := sext64(x, w), sext64(y, w)
		if sy == 0 {
			return x
		}
		if sy == -1 {
			return 0
		}
		return uint64(sx%sy) & m
	case OpBAnd:
		return x & y
	case OpBOr:
		return x | y
	case OpBXor:
		return x ^ y
	case OpShl:
		if y >= uint64(w) {
			return 0
		}
		return (x << y) & m
	case OpLshr:
		if y >= uint64(w) {
			return 0
		}
		return x >> y
	case OpAshr:
		sx := sext64(x, w)
		if y >= uint64(w) {
			if sx < 0 {
				return m
			}
			return 0
		}
		return uint64(sx>>y) & m
	case OpUlt:
		return b2u(x < y)
	case OpUle:
		return b2u(x <= y)
	case OpSlt:
		return b2u(sext64(x, w) < sext64(y, w))
	case OpSle:
		return b2u(sext64(x, w) <= sext64(y, w))
	}
	panic("evalBin " + opName[op])
}

func b2u(b bool) uint64 {
	if b {
		return 1
	}
	return 0
}

func isCmp(op Op) bool { return op == OpUlt || op == OpUle || op == OpSlt || op == OpSle }

// Bin builds a binary bit-vector operation (arithmetic result has the operand
// width, comparisons yield Bool).
func (tt *TermTab) Bin(op Op, a, b *Term) *Term {
	if a.w != b.w {
		panic(fmt.Sprintf("Bin %s width mismatch %d %d", opName[op], a.w, b.w))
	}
	w := int(a.w)
	rw := w
	if isCmp(op) {
		rw = 0
	}
	if a.op == OpConst && b.op == OpConst {
		return tt.Const(rw, evalBin(op, w, a.val, b.val))
	}
	switch op {
	case OpAdd, OpBOr, OpBXor:
		if a.op == OpConst && a.val == 0 {
			return b
		}
		if b.op == OpConst && b.val == 0 {
			return a
		}
	case OpSub, OpShl, OpLshr, OpAshr:
		if b.op == OpConst && b.val == 0 {
			return a
		}
	case OpBAnd:
		if a.op == OpConst && a.val == mask(w) {
			return b
		}
		if b.op == OpConst && b.val == mask(w) {
			return a
		}
		if (a.op == OpConst && a.val == 0) || (b.op == OpConst && b.val == 0) {
			return tt.Const(w, 0)
		}
	case OpMul:
		if a.op == OpConst && a.val == 1 {
			return b
		}
		if b.op == OpConst && b.val == 1 {
			return a
		}
	}
	if isCmp(op) {
		if a == b {
			return tt.Bool(op == OpUle || op == OpSle)
		}
		if b.op == OpConst && a.op == OpIte && tt.pushable(a, 0) {
			return tt.pushBin(func(x, y *Term) *Term { return tt.Bin(op, x, y) }, a, b, true)
		}
		if a.op == OpConst && b.op == OpIte && tt.pushable(b, 0) {
			return tt.pushBin(func(x, y *Term) *Term { return tt.Bin(op, x, y) }, b, a, false)
		}
		// unsigned compare of zext(x) with constant: narrow
		if b.op == OpConst && a.op == OpZext && (op == OpUlt || op == OpUle) {
			nw := int(a.a.w)
			if b.val > mask(nw) {
				return tt.True
			}
			return tt.Bin(op, a.a, tt.Const(nw, b.val))
		}
		if a.op == OpConst && b.op == OpZext && (op == OpUlt || op == OpUle) {
			nw := int(b.a.w)
			if a.val > mask(nw) {
				return tt.False
			}
			return tt.Bin(op, tt.Const(nw, a.val), b.a)
		}
		// signed compare of zext(x) (non-negative) with a constant
		if b.op == OpConst && a.op == OpZext && (op == OpSlt || op == OpSle) && int(a.a.w) < w {
			if sext64(b.val, w) < 0 {
				return tt.False
			}
			uop := OpUlt
			if op == OpSle {
				uop = OpUle
			}
			return tt.Bin(uop, a, b)
		}
		if a.op == OpConst && b.op == OpZext && (op == OpSlt || op == OpSle) && int(b.a.w) < w {
			if sext64(a.val, w) < 0 {
				return tt.True
			}
			uop := OpUlt
			if op == OpSle {
				uop = OpUle
			}
			return tt.Bin(uop, a, b)
		}
	}
	if (op == OpAdd || op == OpMul || op == OpBAnd || op == OpBOr || op == OpBXor) && a.id > b.id {
		a, b = b, a
	}
	return tt.mk(op, rw, 0, "", a, b, nil)
}

func (tt *TermTab) Un(op Op, a *Term) *Term {
	w := int(a.w)
	if a.op == OpConst {
		switch op {
		case OpBNot:
			return tt.Const(w, ^a.val)
		case OpNeg:
			return tt.Const(w, -a.val)
		}
	}
	return tt.mk(op, w, 0, "", a, nil, nil)
}

func (tt *TermTab) Zext(a *Term, w int) *Term {
	if int(a.w) == w {
		return a
	}
	if a.op == OpConst {
		return tt.Const(w, a.val)
	}
	if a.op == OpZext {
		return tt.Zext(a.a, w)
	}
	if a.op == OpIte && tt.pushable(a, 0) {
		return tt.Ite(a.a, tt.Zext(a.b, w), tt.Zext(a.c, w))
	}
	return tt.mk(OpZext, w, 0, "", a, nil, nil)
}

func (tt *TermTab) Sext(a *Term, w int) *Term {
	if int(a.w) == w {
		return a
	}
	if a.op == OpConst {
		return tt.Const(w, uint64(sext64(a.val, int(a.w))))
	}
	if a.op == OpZext { // zero-extended value is non-negative
		return tt.Zext(a.a, w)
	}
	if a.op == OpIte && tt.pushable(a, 0) {
		return tt.Ite(a.a, tt.Sext(a.b, w), tt.Sext(a.c, w))
	}
	return tt.mk(OpSext, w, 0, "", a, nil, nil)
}

// Extract returns bits [lo, lo+w) of a.
func (tt *TermTab) Extract(a *Term, lo, w int) *Term {
	if lo == 0 && int(a.w) == w {
		return a
	}
	if a.op == OpConst {
		return tt.Const(w, a.val>>uint(lo))
	}
	if lo == 0 && (a.op == OpZext || a.op == OpSext) {
		if int(a.a.w) == w {
			return a.a
		}
		if int(a.a.w) > w {
			return tt.Extract(a.a, 0, w)
		}
		if a.op == OpZext {
			return tt.Zext(a.a, w)
		}
		return tt.Sext(a.a, w)
	}
	if a.op == OpIte && tt.pushable(a, 0) {
		return tt.Ite(a.a, tt.Extract(a.b, lo, w), tt.Extract(a.c, lo, w))
	}
	return tt.mk(OpExtr, w, uint64(lo), "", a, nil, nil)
}

// ---- evaluation under a model (values of variables by var index) ----

type Model []uint64

func (m Model) get(i uint64) uint64 {
	if int(i) < len(m) {
		return m[i]
	}
	return 0
}

type evalCtx struct {
	m    Model
	memo map[int32]uint64
}

func (t *Term) Eval(m Model) uint64 {
	if t.op == OpConst {
		return t.val
	}
	c := evalCtx{m: m, memo: map[int32]uint64{}}
	return c.eval(t)
}

func (c *evalCtx) eval(t *Term) uint64 {
	switch t.op {
	case OpConst:
		return t.val
	case OpVar:
		return c.m.get(t.val) & maskB(int(t.w))
	}
	if v, ok := c.memo[t.id]; ok {
		return v
	}
	var r uint64
	switch t.op {
	case OpNot:
		r = 1 - c.eval(t.a)
	case OpAnd:
		if c.eval(t.a) == 0 {
			r = 0
		} else {
			r = c.eval(t.b)
		}
	case OpOr:
		if c.eval(t.a) != 0 {
			r = 1
		} else {
			r = c.eval(t.b)
		}
	case OpEq:
		r = b2u(c.eval(t.a) == c.eval(t.b))
	case OpIte:
		if c.eval(t.a) != 0 {
			r = c.eval(t.b)
		} else {
			r = c.eval(t.c)
		}
	case OpBNot:
		r = ^c.eval(t.a) & mask(int(t.w))
	case OpNeg:
		r = -c.eval(t.a) & mask(int(t.w))
	case OpZext:
		r = c.eval(t.a)
	case OpSext:
		r = uint64(sext64(c.eval(t.a), int(t.a.w))) & mask(int(t.w))
	case OpExtr:
		r = (c.eval(t.a) >> t.val) & mask(int(t.w))
	default:
		r = evalBin(t.op, int(t.a.w), c.eval(t.a), c.eval(t.b))
	}
	c.memo[t.id] = r
	return r
}

func maskB(w int) uint64 {
	if w == 0 {
		return 1
	}
	return mask(w)
}

// ---- SMT-LIB printing ----

func sortOf(w int) string {
	if w == 0 {
		return "Bool"
	}
	return fmt.Sprintf("(_ BitVec %d)", w)
}

func constSMT(w int, v uint64) string {
	if w == 0 {
		if v != 0 {
			return "true"
		}
		return "false"
	}
	if w%4 == 0 {
		return fmt.Sprintf("#x%0*x", w/4, v)
	}
	return fmt.Sprintf("(_ bv%d %d)", v, w)
}

// ref is how a term is referred to inside other terms: leaves inline, all
// other nodes by their define-fun name.
func (t *Term) ref() string {
	switch t.op {
	case OpConst:
		return constSMT(int(t.w), t.val)
	case OpVar:
		return t.name
	}
	return fmt.Sprintf("t%d", t.id)
}

func (t *Term) body() string {
	switch t.op {
	case OpNot, OpBNot, OpNeg:
		return "(" + opName[t.op] + " " + t.a.ref() + ")"
	case OpIte:
		return "(ite " + t.a.ref() + " " + t.b.ref() + " " + t.c.ref() + ")"
	case OpZext:
		return fmt.Sprintf("((_ zero_extend %d) %s)", int(t.w)-int(t.a.w), t.a.ref())
	case OpSext:
		return fmt.Sprintf("((_ sign_extend %d) %s)", int(t.w)-int(t.a.w), t.a.ref())
	case OpExtr:
		return fmt.Sprintf("((_ extract %d %d) %s)", int(t.val)+int(t.w)-1, t.val, t.a.ref())
	}
	return "(" + opName[t.op] + " " + t.a.ref() + " " + t.b.ref() + ")"
}

// String renders the full term inline (debugging / evidence samples).
func (t *Term) String() string {
	var sb strings.Builder
	t.write(&sb, 0)
	return sb.String()
}

func (t *Term) write(sb *strings.Builder, depth int) {
	if depth > 12 {
		sb.WriteString("…")
		return
	}
	switch t.op {
	case OpConst, OpVar:
		sb.WriteString(t.ref())
		return
	}
	sb.WriteString("(" + opName[t.op])
	if t.op == OpExtr {
		fmt.Fprintf(sb, "[%d+%d]", t.val, t.w)
	}
	for _, x := range []*Term{t.a, t.b, t.c} {
		if x != nil {
			sb.WriteString(" ")
			x.write(sb, depth+1)
		}
	}
	sb.WriteString(")")
}
