package interp

import (
	"go/types"
	"reflect"

	"golang.org/x/tools/go/ssa"
	"gopkg.in/yaml.v3"
)

// ---- channels / goroutines: not modelled in sequential harnesses ----

type channel struct {
	buf []value
	cap int
}

func (c *channel) len() int {
	if c == nil {
		return 0
	}
	return len(c.buf)
}

func (i *interpreter) makeChan(n int64) value { return &channel{cap: int(n)} }

func (i *interpreter) chanSend(ch, v value) { panic(unsupported{"channel send"}) }
func (i *interpreter) chanClose(ch value)   { panic(unsupported{"channel close"}) }

func (i *interpreter) selectStmt(fr *frame, instr *ssa.Select) value {
	panic(unsupported{"select statement"})
}

func (i *interpreter) goStmt(fr *frame, instr *ssa.Go, fn value, args []value) {
	if i.trace != nil {
		i.trace.spawn(i, fr, nil, fn, args)
		return
	}
	panic(unsupported{"go statement outside trace-extraction mode"})
}

// ---- pure-callee summarisation ----

type summCtx struct {
	prefix  []bool
	taken   []bool
	cond    *Term
	pending [][]bool
	n       int
}

func (s *summCtx) decide(i *interpreter, c *Term) bool {
	n := len(s.taken)
	var ch bool
	if n < len(s.prefix) {
		ch = s.prefix[n]
	} else {
		ch = true
		alt := make([]bool, n+1)
		copy(alt, s.taken)
		alt[n] = false
		s.pending = append(s.pending, alt)
	}
	s.taken = append(s.taken, ch)
	if ch {
		s.cond = i.tt.And(s.cond, c)
	} else {
		s.cond = i.tt.And(s.cond, i.tt.Not(c))
	}
	if s.cond.IsFalse() {
		panic(summInfeasible{})
	}
	return ch
}

type summInfeasible struct{}

func (summInfeasible) engineAbort() {}

// ---- yaml import ----

func (i *interpreter) parseYAML(src string) value {
	var n yaml.Node
	if err := yaml.Unmarshal([]byte(src), &n); err != nil {
		panic("verifParseYAML: " + err.Error())
	}
	t := i.namedType("gopkg.in/yaml.v3", "Node")
	i.nativeSeen = map[uintptr]*value{}
	defer func() { i.nativeSeen = nil }()
	return i.fromNative(reflect.ValueOf(&n), types.NewPointer(t))
}
