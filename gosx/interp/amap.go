package interp

// amap: every Go map is an insertion-ordered association list. Lookups with a
// symbolic key compare against each present key (equality term -> decision).
// Iteration order is insertion order, or — under MapOrder — a symbolic choice
// among the remaining entries at every step.

import "fmt"

type amap struct {
	keys []value
	vals []value
	old  int32 // >0: existed after init (root name index+1)
	froz int32 // >0: frozen by the harness on this path
}

func (m *amap) len() int {
	if m == nil {
		return 0
	}
	return len(m.keys)
}

func (i *interpreter) keyEq(a, b value) bool {
	// fast concrete paths
	switch x := a.(type) {
	case string:
		if y, ok := b.(string); ok {
			return x == y
		}
	case int:
		if y, ok := b.(int); ok {
			return x == y
		}
	case *value:
		if y, ok := b.(*value); ok {
			return x == y
		}
	}
	return i.truth(i.eqVal(nil, a, b))
}

func (i *interpreter) mapFind(m *amap, k value) int {
	if m == nil {
		return -1
	}
	if i.trace != nil && i.trace.recAcc {
		i.trace.access(m, false, i.siteName())
	}
	for j, kk := range m.keys {
		if i.keyEq(kk, k) {
			return j
		}
	}
	return -1
}

func (i *interpreter) mapLookup(m *amap, k value) (value, bool) {
	j := i.mapFind(m, k)
	if j < 0 {
		return nil, false
	}
	return m.vals[j], true
}

func (i *interpreter) noteMapWrite(m *amap) {
	if i.trace != nil && i.trace.recAcc {
		i.trace.access(m, true, i.siteName())
	}
	if m.old > 0 {
		i.mapUndo = append(i.mapUndo, mapUndoRec{m, append([]value{}, m.keys...), append([]value{}, m.vals...)})
		i.oldWrite(i.oldNames[m.old-1])
	}
	if m.froz > 0 {
		i.frozenWrite(m.froz - 1)
	}
}

func (i *interpreter) mapInsert(m *amap, k, v value) {
	j := i.mapFind(m, k)
	i.noteMapWrite(m)
	if j >= 0 {
		m.vals[j] = v
		return
	}
	m.keys = append(m.keys, k)
	m.vals = append(m.vals, v)
}

func (i *interpreter) mapDelete(m *amap, k value) {
	if m == nil {
		return
	}
	j := i.mapFind(m, k)
	if j < 0 {
		return
	}
	i.noteMapWrite(m)
	m.keys = append(append([]value{}, m.keys[:j]...), m.keys[j+1:]...)
	m.vals = append(append([]value{}, m.vals[:j]...), m.vals[j+1:]...)
}

type amapIter struct {
	i    *interpreter
	keys []value
	vals []value
	sym  bool
}

func (i *interpreter) newMapIter(m *amap) iter {
	it := &amapIter{i: i}
	if m != nil && i.trace != nil && i.trace.recAcc {
		i.trace.access(m, false, i.siteName())
	}
	if m != nil {
		it.keys = append([]value{}, m.keys...)
		it.vals = append([]value{}, m.vals...)
	}
	if len(it.keys) > 1 && i.recordRangers && len(i.curFn) > 0 {
		fn := i.curFn[len(i.curFn)-1]
		for fn.Parent() != nil {
			fn = fn.Parent()
		}
		name := fn.Name()
		seen := false
		for _, r := range i.mapRangers {
			if r == name {
				seen = true
			}
		}
		if !seen && !i.writerIsHarness() {
			i.mapRangers = append(i.mapRangers, name)
		}
	}
	it.sym = i.mapOrder && len(it.keys) > 1 && i.mapOrderApplies()
	if it.sym && len(it.keys) > 3 {
		// large maps: not all n! orders but one of three transformations chosen once
		// per path (reversal flips every pair, rotations change the first element)
		it.sym = false
		if i.bigOrder < 0 {
			i.bigOrder = i.choose(3, "maporder-large")
		}
		n := len(it.keys)
		perm := make([]int, n)
		for k := range perm {
			switch i.bigOrder {
			case 0:
				perm[k] = n - 1 - k
			case 1:
				perm[k] = (k + 1) % n
			default:
				perm[k] = (k + n/2) % n
			}
		}
		nk, nv := make([]value, n), make([]value, n)
		for k, p := range perm {
			nk[k], nv[k] = it.keys[p], it.vals[p]
		}
		it.keys, it.vals = nk, nv
	}
	return it
}

func (it *amapIter) next() tuple {
	if len(it.keys) == 0 {
		return tuple{false, nil, nil}
	}
	j := 0
	if it.sym && len(it.keys) > 1 && (it.i.mapOrderBudget == 0 || it.i.mapOrderUsed < it.i.mapOrderBudget) {
		j = it.i.choose(len(it.keys), "maporder")
		it.i.mapOrderUsed++
	}
	k, v := it.keys[j], it.vals[j]
	it.keys = append(it.keys[:j:j], it.keys[j+1:]...)
	it.vals = append(it.vals[:j:j], it.vals[j+1:]...)
	return tuple{true, k, v}
}

func (m *amap) String() string { return fmt.Sprintf("amap(%d)", m.len()) }
