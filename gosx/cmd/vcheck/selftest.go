package main

// vcheck selftest: translator validation. The repository's own test inputs
// (every workflow under testdata/{ok,err,examples}, every ${{ }} body and every
// list scalar in them) are run through the real functions by gosx (concrete
// mode) and by the natively compiled package; result digests must be equal.

import (
	"encoding/json"
	"fmt"
	"os"
	"path/filepath"
	"regexp"
	"sort"
	"strconv"
	"strings"
	"time"

	"gopkg.in/yaml.v3"

	"gosx/interp"
)

var withCorpus bool

type corpus struct {
	Files, FileNames, Exprs, Globs, All, AllNames []string
}

var corpusCache *corpus

func buildCorpus() *corpus {
	if corpusCache != nil {
		return corpusCache
	}
	c := &corpus{}
	exprRe := regexp.MustCompile(`\$\{\{(.*?\}\})`)
	itemRe := regexp.MustCompile(`(?m)^\s*-\s+['"]?([^'"\n#]+?)['"]?\s*$`)
	seenE, seenG := map[string]bool{}, map[string]bool{}
	for _, dir := range []string{"ok", "err", "examples"} {
		var files []string
		filepath.Walk(filepath.Join(repoDir, "testdata", dir), func(p string, info os.FileInfo, err error) error {
			if err == nil && !info.IsDir() && (strings.HasSuffix(p, ".yaml") || strings.HasSuffix(p, ".yml")) {
				files = append(files, p)
			}
			return nil
		})
		sort.Strings(files)
		for _, f := range files {
			b, err := os.ReadFile(f)
			if err != nil {
				continue
			}
			var probe yaml.Node
			if yaml.Unmarshal(b, &probe) != nil {
				continue // not YAML at all (syntax-error test inputs)
			}
			c.Files = append(c.Files, string(b))
			c.FileNames = append(c.FileNames, strings.TrimPrefix(f, repoDir+"/"))
			for _, m := range exprRe.FindAllStringSubmatch(string(b), -1) {
				if !seenE[m[1]] {
					seenE[m[1]] = true
					c.Exprs = append(c.Exprs, m[1])
				}
			}
			for _, m := range itemRe.FindAllStringSubmatch(string(b), -1) {
				if !seenG[m[1]] && len(m[1]) <= 60 {
					seenG[m[1]] = true
					c.Globs = append(c.Globs, m[1])
				}
			}
		}
	}
	// every YAML file under testdata (for the decoders)
	filepath.Walk(filepath.Join(repoDir, "testdata"), func(p string, info os.FileInfo, err error) error {
		if err == nil && !info.IsDir() && (strings.HasSuffix(p, ".yaml") || strings.HasSuffix(p, ".yml")) && info.Size() < 20000 {
			if b, err := os.ReadFile(p); err == nil {
				c.All = append(c.All, string(b))
				c.AllNames = append(c.AllNames, strings.TrimPrefix(p, repoDir+"/"))
			}
		}
		return nil
	})
	corpusCache = c
	return c
}

func corpusSource() []byte {
	var sb strings.Builder
	sb.WriteString("//go:build verif\n\npackage actionlint\n\n")
	lst := func(name string, xs []string) {
		fmt.Fprintf(&sb, "var %s = []string{\n", name)
		for _, x := range xs {
			sb.WriteString("\t" + strconv.Quote(x) + ",\n")
		}
		sb.WriteString("}\n\n")
	}
	// the shipped problem matcher's pattern (C16 round trip)
	pat := ""
	if b, err := os.ReadFile(filepath.Join(repoDir, ".github", "actionlint-matcher.json")); err == nil {
		var m struct {
			ProblemMatcher []struct {
				Pattern []struct {
					Regexp string `json:"regexp"`
				} `json:"pattern"`
			} `json:"problemMatcher"`
		}
		if json.Unmarshal(b, &m) == nil && len(m.ProblemMatcher) > 0 && len(m.ProblemMatcher[0].Pattern) > 0 {
			pat = m.ProblemMatcher[0].Pattern[0].Regexp
		}
	}
	fmt.Fprintf(&sb, "var verifMatcherRegexp = %s\n\n", strconv.Quote(pat))
	if withCorpus {
		c := buildCorpus()
		lst("verifCorpusFiles", c.Files)
		lst("verifCorpusExprs", c.Exprs)
		lst("verifCorpusGlobs", c.Globs)
		lst("verifCorpusAll", c.All)
	} else {
		lst("verifCorpusAll", nil)
		lst("verifCorpusFiles", nil)
		lst("verifCorpusExprs", nil)
		lst("verifCorpusGlobs", nil)
	}
	return []byte(sb.String())
}

func cmdSelftest(args []string) {
	withCorpus = true
	c := buildCorpus()
	t0 := time.Now()
	prog, pkg, err := loadProgram(false)
	if err != nil {
		fmt.Fprintln(os.Stderr, "ENGINE: cannot load /repo with harness overlay:", err)
		os.Exit(2)
	}
	type part struct {
		Harness         string `json:"harness"`
		Items           int    `json:"items"`
		Agree           int    `json:"agree"`
		Mismatch        []string `json:"mismatch,omitempty"`
		SymbolicWallS   float64 `json:"gosx_wall_s"`
		NativeOK        bool   `json:"native_ok"`
	}
	var parts []part
	bad := 0
	names := map[string][]string{"HarnessSelftestFiles": c.FileNames, "HarnessSelftestExprs": c.Exprs, "HarnessSelftestGlobs": c.Globs, "HarnessSelftestDecode": c.AllNames}
	for _, h := range []string{"HarnessSelftestFiles", "HarnessSelftestExprs", "HarnessSelftestGlobs", "HarnessSelftestDecode"} {
		cfg := &interp.Config{Prog: prog, Pkg: pkg, Entry: h, NoPanic: true, MaxSamples: 1}
		res := interp.Explore(cfg)
		for _, ev := range res.Events {
			fmt.Printf("selftest: %s gosx event %s %s: %s\n", h, ev.Kind, ev.Label, ev.Msg)
			bad++
		}
		for _, s := range res.Inconclusive {
			fmt.Printf("selftest: %s gosx inconclusive: %s\n", h, s)
			bad++
		}
		var cases []replayCase
		for k := 0; k < 16; k++ {
			cases = append(cases, replayCase{ID: fmt.Sprintf("c%d", k), Harness: h, Model: map[string]uint64{}, Choices: map[string]int{"chunk": k}, Kind: "sample"})
		}
		outs, raw, err := nativeReplay(pkg, cases, 10*time.Minute)
		nat := map[string]bool{}
		for _, o := range outs {
			for l := range o.Reached {
				nat[l] = true
			}
		}
		p := part{Harness: h, Items: len(names[h]), SymbolicWallS: res.Wall, NativeOK: err == nil && len(outs) == len(cases)}
		if !p.NativeOK {
			fmt.Printf("selftest: %s native run incomplete (%d/%d)\n%s\n", h, len(outs), len(cases), tail(raw, 30))
			bad++
		}
		sym := map[string]bool{}
		for l := range res.Reach {
			sym[l] = true
		}
		idx := func(l string) int {
			k := strings.Index(l, ":")
			n, _ := strconv.Atoi(l[1:k])
			return n
		}
		mism := map[int][]string{}
		for l := range sym {
			if nat[l] {
				p.Agree++
			} else {
				mism[idx(l)] = append(mism[idx(l)], "gosx="+l)
			}
		}
		for l := range nat {
			if !sym[l] {
				mism[idx(l)] = append(mism[idx(l)], "native="+l)
			}
		}
		var ks []int
		for k := range mism {
			ks = append(ks, k)
		}
		sort.Ints(ks)
		for _, k := range ks {
			nm := ""
			if k < len(names[h]) {
				nm = names[h][k]
			}
			sort.Strings(mism[k])
			p.Mismatch = append(p.Mismatch, fmt.Sprintf("%q: %s", nm, strings.Join(mism[k], " ")))
		}
		bad += len(p.Mismatch)
		fmt.Printf("selftest: %s items=%d agree=%d mismatch=%d gosx=%.1fs\n", h, p.Items, p.Agree, len(p.Mismatch), res.Wall)
		for _, m := range p.Mismatch {
			fmt.Println("  MISMATCH", m)
		}
		parts = append(parts, p)
	}
	rep := map[string]interface{}{"parts": parts, "wall_s": time.Since(t0).Seconds(), "ok": bad == 0,
		"what": "repo test inputs through real functions: gosx concrete interpretation vs native build; digests of diagnostics/tokens/types must be equal"}
	b, _ := json.MarshalIndent(rep, "", " ")
	os.WriteFile(filepath.Join(verifDir, "selftest_report.json"), b, 0o644)
	if bad > 0 {
		fmt.Println("selftest: FAILED")
		os.Exit(2)
	}
	fmt.Println("selftest: ok")
}

func tail(s string, n int) string {
	ls := strings.Split(s, "\n")
	if len(ls) > n {
		ls = ls[len(ls)-n:]
	}
	return strings.Join(ls, "\n")
}

// replay <file>: re-run a stored counterexample against the natively compiled /repo tree.
func cmdReplay(args []string) {
	if len(args) < 1 {
		fmt.Fprintln(os.Stderr, "usage: vcheck replay <replays/....json>")
		os.Exit(2)
	}
	b, err := os.ReadFile(args[0])
	if err != nil {
		fmt.Fprintln(os.Stderr, err)
		os.Exit(2)
	}
	var c replayCase
	if err := json.Unmarshal(b, &c); err != nil {
		fmt.Fprintln(os.Stderr, err)
		os.Exit(2)
	}
	_, pkg, err := loadProgram(false)
	if err != nil {
		fmt.Fprintln(os.Stderr, "ENGINE: cannot load /repo with harness overlay:", err)
		os.Exit(2)
	}
	if c.ID == "" {
		c.ID = "r"
	}
	raceReplay = c.Label == "data-race"
	outs, raw, _ := nativeReplay(pkg, []replayCase{c}, 10*time.Minute)
	o := outs[c.ID]
	if reproduced(c, o, raw) {
		fmt.Printf("REPRODUCED property=%s %s %s on %s%v inputs=%v\n", c.Property, c.Kind, c.Label, c.Harness, c.Args, c.Inputs)
		if o != nil && o.Panic != "" {
			fmt.Println(o.Panic)
		}
		os.Exit(1)
	}
	got := "no result"
	if o != nil {
		got = fmt.Sprintf("outcome=%s failed=%v", o.Outcome, o.Failed)
	}
	fmt.Printf("not reproduced on the current tree (%s)\n", got)
}

// list: the registry as a markdown table (used for DESIGN.md).
func cmdList() {
	var ids []string
	for id := range props {
		ids = append(ids, id)
	}
	sort.Strings(ids)
	for _, id := range ids {
		p := props[id]
		fmt.Printf("\n**%s**\n\n| tier | harness | bound |\n|---|---|---|\n", id)
		inQuick := map[string]bool{}
		for _, r := range p.Quick {
			k := fmt.Sprintf("%s%v", r.Entry, r.Args)
			inQuick[k] = true
			fmt.Printf("| quick+thorough | `%s%v` | %s |\n", r.Entry, r.Args, r.Bound)
		}
		for _, r := range p.Thorough {
			k := fmt.Sprintf("%s%v", r.Entry, r.Args)
			if !inQuick[k] {
				fmt.Printf("| thorough | `%s%v` | %s |\n", r.Entry, r.Args, r.Bound)
			}
		}
		fmt.Println("\nOutside the claim:")
		for _, o := range p.Outside {
			fmt.Println("- " + o)
		}
	}
}
