package main

import (
	"encoding/json"
	"flag"
	"fmt"
	"os"
	"path/filepath"
	"strconv"
	"strings"
	"time"

	"golang.org/x/tools/go/packages"
	"golang.org/x/tools/go/ssa"
	"golang.org/x/tools/go/ssa/ssautil"

	"gosx/interp"
)

// repoDir is the tree under verification. VERIF_REPO points a development run at a scratch worktree;
// every registered command uses /repo.
var repoDir = "/repo"

var verifDir = "/verif"

// loadProgram loads /repo's current working tree with the harness overlay.
func loadProgram(replay bool) (*ssa.Program, *ssa.Package, error) {
	for _, arg := range os.Args {
		if strings.Contains(arg, "Testdata") {
			withCorpus = true
		}
	}
	overlay := map[string][]byte{}
	overlay[filepath.Join(repoDir, "zz_verif_corpus.go")] = corpusSource()
	files, _ := filepath.Glob(filepath.Join(verifDir, "harness", "*.go"))
	for _, f := range files {
		b, err := os.ReadFile(f)
		if err != nil {
			return nil, nil, err
		}
		overlay[filepath.Join(repoDir, "zz_verif_"+filepath.Base(f))] = b
	}
	cfg := &packages.Config{
		Mode:       packages.LoadAllSyntax,
		Dir:        repoDir,
		BuildFlags: []string{"-tags=verif"},
		Overlay:    overlay,
		Env:        append(os.Environ(), "GOFLAGS=-mod=mod", "GOPROXY=off", "GOSUMDB=off", "GOTOOLCHAIN=local"),
	}
	pkgs, err := packages.Load(cfg, ".")
	if err != nil {
		return nil, nil, err
	}
	if n := packages.PrintErrors(pkgs); n > 0 {
		return nil, nil, fmt.Errorf("%d package errors", n)
	}
	prog, ssapkgs := ssautil.AllPackages(pkgs, ssa.InstantiateGenerics)
	prog.Build()
	return prog, ssapkgs[0], nil
}

func main() {
	if len(os.Args) < 2 {
		fmt.Fprintln(os.Stderr, "usage: vcheck explore|run|selftest|replay ...")
		os.Exit(2)
	}
	if d := os.Getenv("VERIF_DIR"); d != "" {
		verifDir = d
	}
	if d := os.Getenv("VERIF_REPO"); d != "" {
		repoDir = d
	}
	switch os.Args[1] {
	case "explore":
		cmdExplore(os.Args[2:])
	case "run":
		cmdRun(os.Args[2:])
	case "native":
		cmdNative(os.Args[2:])
	case "selftest":
		cmdSelftest(os.Args[2:])
	case "replay":
		cmdReplay(os.Args[2:])
	case "list":
		cmdList()
	default:
		fmt.Fprintln(os.Stderr, "unknown subcommand", os.Args[1])
		os.Exit(2)
	}
}

// explore <Harness> [int args...]: ad-hoc exploration, prints a summary.
func cmdExplore(args []string) {
	fs := flag.NewFlagSet("explore", flag.ExitOnError)
	workers := fs.Int("j", 0, "workers")
	solver := fs.String("solver", "z3", "solver")
	paranoid := fs.Bool("paranoid", false, "re-check model-followed decisions")
	nopanic := fs.Bool("nopanic", true, "panics are violations")
	slog := fs.String("solverlog", "", "write worker 0's SMT session here")
	maxpaths := fs.Int("maxpaths", 0, "path limit")
	nofast := fs.Bool("nofast", false, "disable the byte-domain fast path")
	nosumm := fs.Bool("nosumm", false, "disable pure-callee summarisation")
	allev := fs.Bool("allevents", false, "one event per choice vector")
	fs.Parse(args)
	rest := fs.Args()
	if len(rest) < 1 {
		fmt.Fprintln(os.Stderr, "explore: harness name required")
		os.Exit(2)
	}
	t0 := time.Now()
	prog, pkg, err := loadProgram(false)
	if err != nil {
		fmt.Fprintln(os.Stderr, "load:", err)
		os.Exit(2)
	}
	fmt.Fprintf(os.Stderr, "loaded in %.1fs\n", time.Since(t0).Seconds())
	var iargs []int64
	for _, a := range rest[1:] {
		switch a {
		case "true":
			iargs = append(iargs, 1)
		case "false":
			iargs = append(iargs, 0)
		default:
			n, err := strconv.ParseInt(a, 10, 64)
			if err != nil {
				fmt.Fprintln(os.Stderr, "bad arg", a)
				os.Exit(2)
			}
			iargs = append(iargs, n)
		}
	}
	cfg := &interp.Config{Prog: prog, Pkg: pkg, Entry: rest[0], Args: iargs, Workers: *workers, Solver: *solver,
		Paranoid: *paranoid, NoPanic: *nopanic, SolverLog: *slog, MaxPaths: *maxpaths, AllEvents: *allev, NoSummaries: *nosumm, NoFastPath: *nofast}
	res := interp.Explore(cfg)
	printResult(res)
}

func printResult(res *interp.Result) {
	fmt.Printf("paths=%d (%v) decisions=%d forks=%d steps=%d checks=%d/%d wall=%.2fs\n", res.Stats.Paths, res.PathsByEnd,
		res.Stats.Decisions, res.Stats.Forks, res.Stats.Steps, res.Stats.Checks, res.Stats.CheckQueries, res.Wall)
	fmt.Printf("solver: %+v fast=%d\n", res.Solver, res.Stats.FastDecisions)
	fmt.Printf("reach: %v\n", res.Reach)
	if len(res.Stubs) > 0 {
		fmt.Printf("stubs: %v\n", res.Stubs)
	}
	for _, s := range res.Inconclusive {
		fmt.Println("INCONCLUSIVE:", s)
	}
	for _, ev := range res.Events {
		b, _ := json.Marshal(ev.Inputs)
		fmt.Printf("EVENT %s %s: %s inputs=%s stack=%s\n", ev.Kind, ev.Label, ev.Msg, b, strings.Join(ev.Stack, " < "))
	}
	for k, s := range res.Samples {
		if k < 5 {
			b, _ := json.Marshal(s)
			fmt.Printf("sample: %s\n", b)
		}
	}
	fmt.Printf("functions encoded: %d\n", len(res.Funcs))
}



// native <Harness> [int args] [name=value ...]: run a harness natively on a
// hand-given model (debugging aid). Strings are given as name=text.
func cmdNative(args []string) {
	_, pkg, err := loadProgram(false)
	if err != nil {
		fmt.Fprintln(os.Stderr, err)
		os.Exit(2)
	}
	c := replayCase{ID: "n", Harness: args[0], Model: map[string]uint64{}, Choices: map[string]int{}, Kind: "sample"}
	for _, a := range args[1:] {
		if k := strings.Index(a, "="); k > 0 {
			name, val := a[:k], a[k+1:]
			if strings.HasPrefix(name, "choice:") {
				n, _ := strconv.Atoi(val)
				c.Choices[name[7:]] = n
				continue
			}
			if n, err := strconv.ParseInt(val, 0, 64); err == nil && !strings.HasPrefix(name, "s:") {
				c.Model[name] = uint64(n)
				continue
			}
			name = strings.TrimPrefix(name, "s:")
			uq, err := strconv.Unquote(`"` + val + `"`)
			if err != nil {
				uq = val
			}
			for i := 0; i < len(uq); i++ {
				c.Model[fmt.Sprintf("%s__%d", name, i)] = uint64(uq[i])
			}
			continue
		}
		n, _ := strconv.ParseInt(a, 10, 64)
		if a == "true" {
			n = 1
		}
		c.Args = append(c.Args, n)
	}
	_, raw, _ := nativeReplay(pkg, []replayCase{c}, 5*time.Minute)
	fmt.Println(raw)
}
