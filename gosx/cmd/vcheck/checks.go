package main

import "fmt"

// Registry: which harness runs decide which property at which tier.

func b2i(b bool) int64 {
	if b {
		return 1
	}
	return 0
}

var props = map[string]*Prop{}

func init() {
	// ---- C17 ----
	{
		p := &Prop{ID: "C17", Outside: []string{
			"patterns longer than the stated length bound",
			"bytes >= 0x80 and NUL: the language oracle is silent (robustness obligations still hold there: no panic, column range, termination)",
			"CR/LF inside [...]: unspecified by the documentation",
		}}
		for L := 0; L <= 3; L++ {
			for _, ref := range []bool{true, false} {
				p.Quick = append(p.Quick, HRun{Entry: "HarnessC17Glob", Args: []int64{int64(L), b2i(ref)}, Bound: "all 256^L patterns of length L", Require: []string{"reject"}})
			}
			p.Quick = append(p.Quick, HRun{Entry: "HarnessC17RefImpliesPath", Args: []int64{int64(L)}, Bound: "all patterns of length L"})
		}
		for _, ref := range []bool{true, false} {
			p.Quick = append(p.Quick, HRun{Entry: "HarnessC17GlobSmall", Args: []int64{4, b2i(ref)}, Bound: "all 15^4 patterns over the syntax-relevant alphabet", Require: []string{"reject", "accept"}})
			p.Quick = append(p.Quick, HRun{Entry: "HarnessC17GlobSmall", Args: []int64{5, b2i(ref)}, Bound: "all 15^5 patterns over the syntax-relevant alphabet", Require: []string{"reject", "accept"}})
			p.Thorough = append(p.Thorough, HRun{Entry: "HarnessC17GlobSmall", Args: []int64{5, b2i(ref)}, Bound: "all 15^5 patterns over the syntax-relevant alphabet", Require: []string{"reject", "accept"}})
			p.Thorough = append(p.Thorough, HRun{Entry: "HarnessC17GlobSmall", Args: []int64{6, b2i(ref)}, Bound: "all 15^6 patterns over the syntax-relevant alphabet", Require: []string{"reject", "accept"}})
		}
		for L := 0; L <= 4; L++ {
			for _, ref := range []bool{true, false} {
				p.Thorough = append(p.Thorough, HRun{Entry: "HarnessC17Glob", Args: []int64{int64(L), b2i(ref)}, Bound: "all 256^L patterns of length L", Require: []string{"reject"}})
			}
			p.Thorough = append(p.Thorough, HRun{Entry: "HarnessC17RefImpliesPath", Args: []int64{int64(L)}, Bound: "all patterns of length L"})
		}
		p.Quick = append(p.Quick, HRun{Entry: "HarnessC17Routing", Args: []int64{1}, Bound: "a 1-byte pattern under each of 6 filter keys of 4 events: reported iff the validator belonging to the key rejects it", Require: []string{"checked", "invalid"}},
			HRun{Entry: "HarnessC17Routing", Args: []int64{2}, Bound: "... 2-byte patterns", Require: []string{"checked", "invalid"}})
		p.Thorough = append(p.Thorough, HRun{Entry: "HarnessC17Routing", Args: []int64{3}, Bound: "filter-key routing with 3-byte patterns", Require: []string{"checked", "invalid"}})
		p.Quick = append(p.Quick, HRun{Entry: "HarnessC17TwoFilters", Args: []int64{2}, Bound: "the same 2-byte pattern under two filter keys of two events (path + ref in both orders, ref + ref): each occurrence judged by its own key's syntax", Require: []string{"checked"}})
		p.Thorough = append(p.Thorough, HRun{Entry: "HarnessC17TwoFilters", Args: []int64{3}, Bound: "the same 3-byte pattern under two filter keys", Require: []string{"checked"}})
		for L := int64(1); L <= 2; L++ {
			p.Quick = append(p.Quick, HRun{Entry: "HarnessC17NonASCII", Args: []int64{L}, Bound: "a two-byte UTF-8 character (all of U+0080..U+07FF) at any position of an ASCII pattern of L bytes: same verdict and number of reports as with the letter k in its place, as ref and as path filter", Require: []string{"compared"}})
		}
		p.Thorough = append(p.Thorough, HRun{Entry: "HarnessC17NonASCII", Args: []int64{3}, Bound: "two-byte character in an ASCII pattern of 3 bytes", Require: []string{"compared"}})
		for L := int64(1); L <= 3; L++ {
			r := HRun{Entry: "HarnessC17Nul", Args: []int64{L}, Bound: "a ref filter of L ASCII bytes containing a NUL is reported (Git forbids control characters)", Require: []string{"checked"}}
			p.Quick = append(p.Quick, r)
			p.Thorough = append(p.Thorough, r)
		}
		p.Quick = append(p.Quick, HRun{Entry: "HarnessC17ListGap", Args: []int64{2}, Bound: "a filter list [main, <empty or null>, P] with P of 2 arbitrary bytes under branches / tags-ignore / paths: P is validated", Require: []string{"checked"}})
		p.Thorough = append(p.Thorough, HRun{Entry: "HarnessC17ListGap", Args: []int64{3}, Bound: "pattern of 3 bytes after an empty list element", Require: []string{"checked"}})
		props["C17"] = p
	}

	// ---- C13 ----
	{
		p := &Prop{ID: "C13", Outside: []string{
			"keys longer than the stated bound (every accepted key is shorter)",
			"non-ASCII bytes in keys of case-insensitive sections (case folding is modelled for ASCII only; such paths are cut by a recorded assumption)",
			"mappings nested below matrix values deeper than the skeleton's",
			"how yaml.v3 turns bytes into mapping nodes (anchors, merge keys)",
		}}
		for L := 1; L <= 19; L++ {
			p.Quick = append(p.Quick, HRun{Entry: "HarnessC13Unknown", Args: []int64{int64(L)}, Bound: "every mapping of the skeleton x all 256^L keys of length L", Require: []string{"reported"}})
		}
		for L := 1; L <= 3; L++ {
			p.Quick = append(p.Quick, HRun{Entry: "HarnessC13DupFold", Args: []int64{int64(L)}, Bound: "two symbolic keys of length L in every user-keyed mapping", Require: []string{"dup-reported", "dup-silent"}})
		}
		p.Quick = append(p.Quick, HRun{Entry: "HarnessC13Missing", Bound: "each mandatory key removed from each mapping that has it", Require: []string{"baseline", "removed"}})
		for L := 1; L <= 24; L++ {
			p.Thorough = append(p.Thorough, HRun{Entry: "HarnessC13Unknown", Args: []int64{int64(L)}, Bound: "every mapping of the skeleton x all 256^L keys of length L", Require: []string{"reported"}})
		}
		for L := 1; L <= 6; L++ {
			p.Thorough = append(p.Thorough, HRun{Entry: "HarnessC13DupFold", Args: []int64{int64(L)}, Bound: "two symbolic keys of length L in every user-keyed mapping", Require: []string{"dup-reported", "dup-silent"}})
		}
		p.Thorough = append(p.Thorough, HRun{Entry: "HarnessC13Missing", Bound: "each mandatory key removed from each mapping that has it", Require: []string{"baseline", "removed"}})
		p.Quick = append(p.Quick, HRun{Entry: "HarnessC13Siblings", Bound: "a wrong cron value next to a foreign key in a schedule item; a call job with two normal-job keys; a normal job with `with` and `secrets`: every diagnostic survives", Require: []string{"schedule", "call-job", "normal-job"}})
		p.Thorough = append(p.Thorough, HRun{Entry: "HarnessC13Siblings", Bound: "sibling diagnostics survive", Require: []string{"schedule", "call-job", "normal-job"}})
		{
			r := HRun{Entry: "HarnessC09OddKey", Bound: "an entry with an empty or non-scalar key placed first in the jobs / with / env / matrix mapping: the entries after it keep their diagnostics", Require: []string{"compared"}}
			p.Quick = append(p.Quick, r)
			p.Thorough = append(p.Thorough, r)
		}
		props["C13"] = p
	}
	// ---- C03 ----
	{
		p := &Prop{ID: "C03", Outside: []string{
			"values spanning several lines, YAML anchors/aliases",
			"positions only reachable through keys longer than 19 bytes (none exist) or below mappings absent from the skeleton",
			"user-chosen keys (env names, with/secrets/outputs ids, job and service ids) are represented by two lower-case letters",
			"sibling configurations are explored for pairs of keys (thorough tier), not triples",
		}}
		for sh := 0; sh < 4; sh++ {
			p.Quick = append(p.Quick, HRun{Entry: "HarnessC03Key", Args: []int64{19, int64(sh), 0}, Bound: "every mapping x symbolic key of length 1..19 (all byte values) x value shape", Require: []string{"accepted-position"}})
			p.Quick = append(p.Quick, HRun{Entry: "HarnessC03Replace", Args: []int64{int64(sh)}, Bound: "every existing entry of every mapping x value shape", Require: []string{"accepted-position"}})
			p.Quick = append(p.Quick, HRun{Entry: "HarnessC03ReplaceFull", Args: []int64{int64(sh)}, Bound: "every existing entry of every mapping of the full skeleton x value shape x the entry moved one place up / down", Require: []string{"accepted-position"}})
		}
		p.Quick = append(p.Quick, HRun{Entry: "HarnessC03Skeleton", Bound: "every scalar value of the skeleton", Require: []string{"site"}})
		p.Quick = append(p.Quick, HRun{Entry: "HarnessC03Key", Args: []int64{11, 1, 1}, Bound: "pairs of symbolic sibling keys of length 1..11, sequence-valued", Require: []string{"accepted-position"}})
		p.Thorough = append(p.Thorough, p.Quick[:len(p.Quick)-1]...)
		for sh := 0; sh < 4; sh++ {
			p.Thorough = append(p.Thorough, HRun{Entry: "HarnessC03Key", Args: []int64{19, int64(sh), 1}, Bound: "pairs of symbolic sibling keys of length 1..19 x value shape", Require: []string{"accepted-position"}})
		}
		p.Quick = append(p.Quick, HRun{Entry: "HarnessC03Tagged", Bound: "the malformed placeholder with an explicit !!bool / !!int / !!float / !!str tag at every scalar position of the full skeleton", Require: []string{"site"}})
		p.Thorough = append(p.Thorough, HRun{Entry: "HarnessC03Tagged", Bound: "explicitly tagged placeholders at every scalar position", Require: []string{"site"}})
		p.Quick = append(p.Quick, HRun{Entry: "HarnessC03ActionInputs", Bound: "every with: input (script, result-encoding, ref, args, entrypoint, another) of an ordinary action, actions/github-script, a Docker action and an unknown action", Require: []string{"site"}})
		p.Thorough = append(p.Thorough, HRun{Entry: "HarnessC03ActionInputs", Bound: "with: inputs of four kinds of action", Require: []string{"site"}})
		{
			r := HRun{Entry: "HarnessC03Testdata", Args: []int64{0, 1}, Bound: "every scalar value of every clean workflow under testdata/ok, testdata/err, testdata/examples of the current tree (compiled in at run time) replaced in turn by a malformed placeholder", Require: []string{"site"}}
			p.Quick = append(p.Quick, r)
			p.Thorough = append(p.Thorough, r)
		}
		{
			r := HRun{Entry: "HarnessC03CallInputs", Bound: "with: values and a secret of a local reusable-workflow call whose inputs are declared string / number / boolean / without type / not at all: the malformed placeholder (alone or with text around) is diagnosed", Require: []string{"site"}}
			p.Quick = append(p.Quick, r)
			p.Thorough = append(p.Thorough, r)
		}
		props["C03"] = p
	}

	// ---- C12 ----
	{
		p := &Prop{ID: "C12", Outside: []string{
			"workflow keys longer than 60 bytes (the longest table key has 50)",
			"positions of the syntax that the full skeleton does not contain (it has every key of Appendix B once)",
			"embeddings other than the five/four listed; non-ASCII letter case",
			"the documentation table itself is a committed copy (spec/availability_table.md)",
		}}
		p.Quick = []HRun{
			{Entry: "HarnessC12Table", Args: []int64{60}, Bound: "all 256^L workflow-key strings for every L in 1..60", Require: []string{"table-key", "other-key"}},
			{Entry: "HarnessC12Site", Args: []int64{0}, Bound: "every scalar position of the full skeleton x 12 contexts x 5 embeddings x all 2^n letter-case spellings", Require: []string{"context-allowed", "context-not-allowed"}},
			{Entry: "HarnessC12Site", Args: []int64{1}, Bound: "every scalar position x 5 special functions x 4 embeddings x all letter-case spellings", Require: []string{"function-allowed", "function-not-allowed"}},
		}
		p.Thorough = p.Quick
		for _, f := range []int64{0, 1} {
			p.Thorough = append(p.Thorough, HRun{Entry: "HarnessC12Testdata", Args: []int64{f}, Bound: "every scalar value of every clean workflow of the repository's testdata x every context (f=0) / special function (f=1): verdict against the table row of that position", Require: []string{"not-clean"}})
		}
		props["C12"] = p
	}

	// ---- C01 ----
	{
		p := &Prop{ID: "C01", Outside: []string{
			"raw bytes -> yaml.Node (yaml.v3 scanner/parser) and reflection-driven decoding of action.yml / actionlint.yaml / reusable workflow files: not encodable (DESIGN.md section 6)",
			"Command.Main exit status, I/O, wall-clock hangs of the operating system",
			"inputs longer than the stated bounds; node trees deeper than one injected level",
			"YAML nodes violating yaml.v3's own invariants (odd mapping arity, children under scalars)",
		}}
		for L := 1; L <= 4; L++ {
			p.Quick = append(p.Quick, HRun{Entry: "HarnessC01ExprOpen", Args: []int64{int64(L)}, Bound: "lexer+parser on all 256^L byte strings of length L with nothing after them (a placeholder that is never closed, an `if:` condition without ${{ }}): the input ends inside any token", Require: []string{"reject"}})
			p.Thorough = append(p.Thorough, HRun{Entry: "HarnessC01ExprOpen", Args: []int64{int64(L)}, Bound: "lexer+parser on all byte strings of length L with nothing after them", Require: []string{"reject"}})
		}
		for L := 0; L <= 3; L++ {
			p.Quick = append(p.Quick, HRun{Entry: "HarnessC01Expr", Args: []int64{int64(L), 1}, Bound: "lexer+parser+semantic checker on all 256^L byte strings of length L followed by }}"})
			p.Quick = append(p.Quick, HRun{Entry: "HarnessC17Smoke", Args: []int64{int64(L), 1}, Bound: "ref glob validator, all byte strings of length L"})
			p.Quick = append(p.Quick, HRun{Entry: "HarnessC17Smoke", Args: []int64{int64(L), 0}, Bound: "path glob validator, all byte strings of length L"})
		}
		for w := 0; w < 19; w++ {
			vl := int64(2)
			if w <= 4 {
				vl = 3
			}
			p.Quick = append(p.Quick, HRun{Entry: "HarnessC01Decoders", Args: []int64{int64(w), vl}, Bound: "one YAML node: symbolic kind, tag text (lengths 0,5,6,7,8,11), style bits, value bytes, 0-2 children of the same shape", Require: []string{"returned"}})
		}
		p.Quick = append(p.Quick, HRun{Entry: "HarnessC01Sweep", Args: []int64{0, 0}, Bound: "every node position of the full skeleton x symbolic kind/tag x 2 texts x {no children, original children}; parser only", Require: []string{"returned"}})
		p.Quick = append(p.Quick, HRun{Entry: "HarnessC01SweepMatrix", Bound: "every node position below strategy.matrix (nested sequences and mappings incl.) x symbolic kind (scalar / sequence / mapping / alias) and tag, parser and all in-process rules", Require: []string{"returned"}})
		p.Quick = append(p.Quick, HRun{Entry: "HarnessC01RunScript", Bound: "5 workflow-command scripts x all 2^n letter-case spellings, all in-process rules incl. deprecated-commands (regexp submatches on symbolic text)", Require: []string{"returned"}})
		p.Quick = append(p.Quick, HRun{Entry: "HarnessC19Relations", Args: []int64{1, 1}, Bound: "matrix value comparison on all pairs of value trees of depth <= 1 (no panic)", Require: []string{"compared"}})
		p.Quick = append(p.Quick, HRun{Entry: "HarnessC19Rule", Args: []int64{1, 1}, Bound: "matrix rule on rows / exclude / include built from value trees (no panic)", Require: []string{"rows"}})
		p.Quick = append(p.Quick, HRun{Entry: "HarnessC01Render", Args: []int64{3}, Bound: "64-bit symbolic line and column, all sources of 3 bytes", Require: []string{"printed"}})
		for L := 0; L <= 4; L++ {
			p.Thorough = append(p.Thorough, HRun{Entry: "HarnessC01Expr", Args: []int64{int64(L), 1}, Bound: "lexer+parser+semantic checker on all 256^L byte strings of length L followed by }}"})
			p.Thorough = append(p.Thorough, HRun{Entry: "HarnessC17Smoke", Args: []int64{int64(L), 1}, Bound: "ref glob validator, all byte strings of length L"})
			p.Thorough = append(p.Thorough, HRun{Entry: "HarnessC17Smoke", Args: []int64{int64(L), 0}, Bound: "path glob validator, all byte strings of length L"})
		}
		for w := 0; w < 19; w++ {
			p.Thorough = append(p.Thorough, HRun{Entry: "HarnessC01Decoders", Args: []int64{int64(w), 3}, Bound: "one YAML node: symbolic kind, tag text, style bits, 3 value bytes, 0-2 children", Require: []string{"returned"}})
		}
		p.Thorough = append(p.Thorough, HRun{Entry: "HarnessC01Sweep", Args: []int64{1, 0}, Bound: "every node position x symbolic kind/tag x 2 texts x 2 child configurations; parser and all in-process rules", Require: []string{"returned"}})
		p.Thorough = append(p.Thorough, HRun{Entry: "HarnessC01RunScript", Bound: "workflow-command scripts in all letter cases", Require: []string{"returned"}})
		p.Thorough = append(p.Thorough, HRun{Entry: "HarnessC19Relations", Args: []int64{2, 1}, Bound: "matrix value comparison, depth 2 vs 1 (no panic)", Require: []string{"compared"}})
		p.Thorough = append(p.Thorough, HRun{Entry: "HarnessC19Rule", Args: []int64{2, 1}, Bound: "matrix rule, depth 2 vs 1 (no panic)", Require: []string{"rows"}})
		p.Thorough = append(p.Thorough, HRun{Entry: "HarnessC01Render", Args: []int64{5}, Bound: "64-bit symbolic line and column, all sources of 5 bytes", Require: []string{"printed"}})
		for _, a := range [][2]int64{{3, 0}, {4, 0}, {2, 1}, {2, 2}, {3, 3}, {2, 4}, {2, 5}} {
			p.Quick = append(p.Quick, HRun{Entry: "HarnessC01Cron", Args: []int64{a[0], a[1]}, Bound: "schedule check on a cron specification of a concrete prefix (none, TZ=, CRON_TZ=, @, '@every ', 'TZ=U ') + arbitrary bytes; robfig/cron's parser interpreted from source", Require: []string{"checked"}})
			p.Thorough = append(p.Thorough, HRun{Entry: "HarnessC01Cron", Args: []int64{a[0] + 1, a[1]}, Bound: "... one more arbitrary byte", Require: []string{"checked"}})
		}
		for _, a := range [][3]int64{{5, 0, 0}, {3, 1, 0}, {3, 2, 0}, {3, 3, 0}, {3, 4, 0}, {4, 0, 1}, {3, 1, 1}} {
			p.Quick = append(p.Quick, HRun{Entry: "HarnessC01Uses", Args: a[:], Bound: "`uses:` of a step (third argument 1: of a job) = concrete prefix (none, ./, docker://, a/b, a@) + arbitrary bytes, through parser, action rule and workflow-call rule", Require: []string{"returned"}})
			p.Thorough = append(p.Thorough, HRun{Entry: "HarnessC01Uses", Args: []int64{a[0] + 2, a[1], a[2]}, Bound: "... two more arbitrary bytes", Require: []string{"returned"}})
		}
		p.Quick = append(p.Quick, HRun{Entry: "HarnessC01NoProject", Bound: "LintFiles on two files outside any repository, one with a local reusable workflow call in 4 spellings", Require: []string{"returned"}})
		p.Thorough = append(p.Thorough, HRun{Entry: "HarnessC01NoProject", Bound: "files outside any repository", Require: []string{"returned"}})
		p.Quick = append(p.Quick, HRun{Entry: "HarnessC16SnippetWide", Args: []int64{4}, Bound: "snippet rendering of lines of 4 units from {a, space, tab, U+200B, U+3042, U+00E9, U+0301} x 64-bit symbolic column: no panic", Require: []string{"rendered"}})
		for _, e := range []string{"HarnessC14Routes", "HarnessC14ActionFile"} {
			r := HRun{Entry: e, Bound: "reusable-workflow / action metadata files (declaration families of C14, plus inputs declared as nothing, `~`, an alias of an anchored null or mapping) decoded by the repository's UnmarshalYAML methods and used by a caller: no panic"}
			p.Quick = append(p.Quick, r)
			p.Thorough = append(p.Thorough, r)
		}
		{
			r := HRun{Entry: "HarnessC01Config", Bound: "actionlint.yaml with 10 unusual shapes (nothing, ~, alias of an anchored null, {}, [], scalar, empty / null ignore list) for a paths entry, self-hosted-runner and config-variables: decoded by ParseConfig and, when accepted, used by filterErrors and all rules", Require: []string{"parsed", "accepted"}}
			p.Quick = append(p.Quick, r)
			p.Thorough = append(p.Thorough, r)
		}
		{
			r := HRun{Entry: "HarnessC09OddKey", Bound: "an entry with an empty or non-scalar key (a job with step ids, a with / env / matrix entry): reported and skipped without a crash", Require: []string{"compared"}}
			p.Quick = append(p.Quick, r)
			p.Thorough = append(p.Thorough, r)
		}
		props["C01"] = p
	}
	// ---- C04 ----
	{
		p := &Prop{ID: "C04", Outside: []string{
			"token sequences longer than the bound; integer literals outside int32 (rejected by ParseInt, by design)",
			"byte strings longer than the lexer bound; bytes NUL and >= 0x80 are unspecified by the documentation (only token text/offset consistency is demanded there)",
			"identifiers other than the placeholder spelling in the token-level harness",
			"message text (token kind names are stubbed in this harness)",
		}}
		for N := 0; N <= 5; N++ {
			p.Quick = append(p.Quick, HRun{Entry: "HarnessC04Parse", Args: []int64{int64(N)}, Bound: "all 20^N token-kind sequences of length N followed by END"})
		}
		for N := 0; N <= 6; N++ {
			p.Thorough = append(p.Thorough, HRun{Entry: "HarnessC04Parse", Args: []int64{int64(N)}, Bound: "all 20^N token-kind sequences of length N followed by END"})
		}
		lexB := "every byte string of length %d (256^%d, symbolic bytes) followed by }}: lexer vs reference lexical grammar, maximal munch, whitespace interleaving"
		for L := 0; L <= 3; L++ {
			p.Quick = append(p.Quick, HRun{Entry: "HarnessC04Lex", Args: []int64{int64(L)}, Bound: fmt.Sprintf(lexB, L, L)})
		}
		for k := 0; k < 15; k++ {
			p.Quick = append(p.Quick, HRun{Entry: "HarnessC04LexAfter", Args: []int64{int64(k), 2}, Bound: "2 arbitrary bytes after one of 15 concrete token beginnings (1e- 1e 0x 1. - 1.5e- 1.5E 0 'a' a.b a- < 1e-0 0x0 1.0) followed by }}"})
			p.Thorough = append(p.Thorough, HRun{Entry: "HarnessC04LexAfter", Args: []int64{int64(k), 3}, Bound: "3 arbitrary bytes after one of 15 concrete token beginnings"})
		}
		for L := 0; L <= 3; L++ { // L = 4 needs more than an hour of solver time on 16 cores: left out, LexAfter covers longer tokens
			p.Thorough = append(p.Thorough, HRun{Entry: "HarnessC04Lex", Args: []int64{int64(L)}, Bound: fmt.Sprintf(lexB, L, L)})
		}
		for _, L := range []int64{1, 2, 3} {
			p.Quick = append(p.Quick, HRun{Entry: "HarnessC04If", Args: []int64{L}, Bound: "`if:` condition without ${{ }}: `true` + L arbitrary ASCII bytes without quotes is accepted only if it contains no `}`", Require: []string{"checked"}})
		}
		p.Thorough = append(p.Thorough, HRun{Entry: "HarnessC04If", Args: []int64{4}, Bound: "bare if condition with 4 arbitrary bytes", Require: []string{"checked"}})
		for c := 0; c < 8; c++ {
			p.Quick = append(p.Quick, HRun{Entry: "HarnessC04ParseIn", Args: []int64{int64(c), 3}, Bound: "3 symbolic tokens inside one of 8 concrete contexts (index operand, call argument, parenthesised receiver, operand of == / ! / nested index): sentences of 6-9 tokens"})
			p.Thorough = append(p.Thorough, HRun{Entry: "HarnessC04ParseIn", Args: []int64{int64(c), 4}, Bound: "4 symbolic tokens inside one of 8 concrete contexts"})
		}
		p.Quick = append(p.Quick,
			HRun{Entry: "HarnessC04Structure", Args: []int64{3, 2, 2}, Bound: "every reference tree of depth <= 3 over !, 2 comparisons, &&, || and 2 operands, printed with minimal parentheses, with / without blanks: the parser's tree is the reference tree", Require: []string{"parsed"}},
			HRun{Entry: "HarnessC04Structure", Args: []int64{2, 9, 6}, Bound: "depth <= 2 over all 6 comparisons and 9 kinds of operand (variables, property / index access, calls, literals incl. strings with '' escapes)", Require: []string{"parsed"}},
			HRun{Entry: "HarnessC04Reuse", Bound: "one ExprParser used for a rejected text (9 kinds) or a sentence and then for one of 4 sentences", Require: []string{"parsed"}},
		)
		p.Thorough = append(p.Thorough,
			HRun{Entry: "HarnessC04Structure", Args: []int64{3, 3, 3}, Bound: "reference trees of depth <= 3 over 3 comparisons and 3 operands (26118 trees x 2 spacings)", Require: []string{"parsed"}},
			HRun{Entry: "HarnessC04Structure", Args: []int64{2, 9, 6}, Bound: "depth <= 2, all comparisons and operand kinds", Require: []string{"parsed"}},
			HRun{Entry: "HarnessC04Reuse", Bound: "parser reuse", Require: []string{"parsed"}},
		)
		{
			r := HRun{Entry: "HarnessC07Template", Args: []int64{1, 1}, Bound: "two placeholders in one scalar with arbitrary filler bytes between them (a quote after the first }} included): the malformed second one is reported exactly once", Require: []string{"checked"}}
			p.Quick = append(p.Quick, r)
			p.Thorough = append(p.Thorough, r)
		}
		{
			r := HRun{Entry: "HarnessC03Skeleton", Bound: "a rejected placeholder (3 shapes x 3 quoting styles) at every scalar of the skeleton yields at most one expression diagnostic", Require: []string{"site"}}
			p.Quick = append(p.Quick, r)
			p.Thorough = append(p.Thorough, r)
		}
		props["C04"] = p
	}

	// ---- C19 ----
	{
		p := &Prop{ID: "C19", Outside: []string{
			"value trees deeper than 2 / wider than 2 members; mapping keys other than a, b",
			"scalar contents other than one lower-case letter or the ${{ x }} placeholder",
			"two identical expression scalars in one row are structurally equal and reported; the statement is read as not covering them",
			"message text of the diagnostics",
		}}
		p.Quick = []HRun{
			{Entry: "HarnessC19Relations", Args: []int64{1, 1}, Bound: "all pairs of value trees of depth <= 1, symbolic scalar bytes, symbolic map iteration order", Require: []string{"compared"}},
			{Entry: "HarnessC19Relations", Args: []int64{2, 1}, Bound: "value trees of depth <= 2 against depth <= 1", Require: []string{"compared"}},
			{Entry: "HarnessC19Rule", Args: []int64{1, 1}, Bound: "RuleMatrix on rows/exclude/include built from all pairs of depth <= 1 trees", Require: []string{"rows", "exclude-reported", "exclude-silent"}},
			{Entry: "HarnessC19Rows3", Args: []int64{1, 1}, Bound: "rows [x,y,y], [y,x,y], [y,y,x] for all pairs of depth <= 1 trees: same duplicate count in every arrangement", Require: []string{"rows"}},
		}
		p.Thorough = []HRun{
			{Entry: "HarnessC19Rows3", Args: []int64{2, 1}, Bound: "rows of three for depth <= 2 against depth <= 1 trees", Require: []string{"rows"}},
			{Entry: "HarnessC19Relations", Args: []int64{2, 2}, Bound: "all pairs of value trees of depth <= 2 (about 5*10^5 shape pairs)", Require: []string{"compared"}},
			{Entry: "HarnessC19Rule", Args: []int64{2, 1}, Bound: "RuleMatrix on depth <= 2 against depth <= 1 trees", Require: []string{"rows", "exclude-reported", "exclude-silent"}},
			{Entry: "HarnessC19Rule", Args: []int64{1, 2}, Bound: "RuleMatrix on depth <= 1 against depth <= 2 trees", Require: []string{"rows", "exclude-reported", "exclude-silent"}},
		}
		p.Quick = append(p.Quick, HRun{Entry: "HarnessC19Parsed", Bound: "row / include / exclude keys in 3 spellings each through the workflow parser: a matching exclude is never reported", Require: []string{"linted"}})
		p.Thorough = append(p.Thorough, HRun{Entry: "HarnessC19Parsed", Bound: "key spellings through the parser", Require: []string{"linted"}})
		for _, e := range []struct{ n, b, r string }{
			{"HarnessC19TwoJobs", "one rule instance, job A (4 variants: expression row / expression include entry next to an exclude list, duplicates, plain) visited before job B (4 variants): B's diagnostics equal those it gets alone", "compared"},
			{"HarnessC19Dynamic", "include with one entry given by an expression (first / last / alone) x 3 exclude lists x duplicate or not in a static row: no exclude report, the duplicate reported once", "checked"},
		} {
			r := HRun{Entry: e.n, Bound: e.b, Require: []string{e.r}}
			p.Quick = append(p.Quick, r)
			p.Thorough = append(p.Thorough, r)
		}
		{
			r := HRun{Entry: "HarnessC19Partial", Bound: "a scalar with a placeholder (alone, with text around, two placeholders) as row value, include value or exclude value: never an exclude mismatch report", Require: []string{"checked"}}
			p.Quick = append(p.Quick, r)
			p.Thorough = append(p.Thorough, r)
		}
		props["C19"] = p
	}

	// ---- C18 ----
	{
		p := &Prop{ID: "C18", Outside: []string{
			"graphs with more jobs than the bound (the statement asks 5 exhaustively; 4 is what runs clean here)",
			"several extra entries at once; ids other than single letters",
			"with n = 4 only the DFS entry order is symbolic and needs lists are written in index order",
		}}
		p.Quick = []HRun{
			{Entry: "HarnessC18Needs", Args: []int64{2, 1, 0}, Bound: "2 jobs: every edge set x list orders x extra entry x every map iteration order", Require: []string{"cycle-reported", "no-cycle-reported", "dangling"}},
			{Entry: "HarnessC18Needs", Args: []int64{3, 0, 0}, Bound: "3 jobs: every edge set (2^9) x list orders x every map iteration order", Require: []string{"cycle-reported", "no-cycle-reported"}},
			{Entry: "HarnessC18Needs", Args: []int64{3, 1, 1}, Bound: "3 jobs: every edge set x extra entry (dangling / duplicate / upper case) x DFS entry order", Require: []string{"cycle-reported", "no-cycle-reported", "dangling"}},
		}
		p.Thorough = []HRun{
			{Entry: "HarnessC18Needs", Args: []int64{3, 1, 0}, Bound: "3 jobs: every edge set x list orders x extra entry x every map iteration order", Require: []string{"cycle-reported", "no-cycle-reported", "dangling"}},
			{Entry: "HarnessC18Needs", Args: []int64{4, 0, 1}, Bound: "4 jobs: every edge set (2^16) x DFS entry order", Require: []string{"cycle-reported", "no-cycle-reported"}},
			{Entry: "HarnessC18Needs", Args: []int64{4, 1, 1}, Bound: "4 jobs: every edge set x extra entry x DFS entry order", Require: []string{"cycle-reported", "no-cycle-reported", "dangling"}},
		}
		props["C18"] = p
	}

	// ---- C16 ----
	{
		p := &Prop{ID: "C16", Outside: []string{
			"-format templates and {{json .}} (text/template, encoding/json): not encodable; the problem-matcher round trip is decided for one echo site (unknown key, printable ASCII up to 3 / 4 bytes), not for every message",
			"colour escape sequences; the display widths themselves (go-runewidth is taken as given; characters outside the seven of the wide-snippet harness)",
			"user text longer than the bound at one position; two symbolic positions at once",
			"messages of the two external-tool rules and of the deprecated-commands rule",
		}}
		p.Quick = []HRun{
			{Entry: "HarnessC16Echo", Args: []int64{1, 0}, Bound: "every scalar of the full skeleton replaced by 1 arbitrary byte", Require: []string{"diagnostic"}},
			{Entry: "HarnessC16Echo", Args: []int64{2, 0}, Bound: "... by 2 arbitrary bytes", Require: []string{"diagnostic"}},
			{Entry: "HarnessC16Echo", Args: []int64{2, 1}, Bound: "... by '@' + 2 arbitrary bytes (cron descriptors)", Require: []string{"diagnostic"}},
			{Entry: "HarnessC16Echo", Args: []int64{1, 2}, Bound: "... by '${{ ' + 1 arbitrary byte", Require: []string{"diagnostic"}},
			{Entry: "HarnessC16Echo", Args: []int64{2, 3}, Bound: "... by 'a/b@' + 2 arbitrary bytes (action refs)", Require: []string{"diagnostic"}},
			{Entry: "HarnessC16Echo", Args: []int64{2, 4}, Bound: "... by 'docker://' + 2 arbitrary bytes", Require: []string{"diagnostic"}},
			{Entry: "HarnessC16Echo", Args: []int64{2, 5}, Bound: "... by './' + 2 arbitrary bytes (local paths)", Require: []string{"diagnostic"}},
			{Entry: "HarnessC16Key", Args: []int64{1}, Bound: "a symbolic 1-byte key in every mapping", Require: []string{"diagnostic"}},
			{Entry: "HarnessC16Key", Args: []int64{3}, Bound: "a symbolic 3-byte key in every mapping", Require: []string{"diagnostic"}},
			{Entry: "HarnessC16Snippet", Args: []int64{4}, Bound: "all sources of 4 bytes over printable ASCII, LF and CRLF x 64-bit symbolic line and column", Require: []string{"line-found", "caret"}},
			{Entry: "HarnessC16SnippetWide", Args: []int64{4}, Bound: "source lines of 4 units from {a, space, tab, U+200B, U+3042, U+00E9, U+0301} x 64-bit symbolic column; display widths of the library taken as given", Require: []string{"rendered", "caret"}},
			{Entry: "HarnessC16TypeNames", Args: []int64{1}, Bound: "a user-chosen name of 1 arbitrary byte (matrix row / include key, dispatch / call input, secret, job output) printed inside an object type", Require: []string{"diagnostic", "type-printed"}},
			{Entry: "HarnessC16TypeNames", Args: []int64{2}, Bound: "... 2 arbitrary bytes", Require: []string{"diagnostic", "type-printed"}},
			{Entry: "HarnessC16Matcher", Args: []int64{2}, Bound: "header of a diagnostic echoing a 2-byte printable key parsed back by the shipped problem-matcher pattern (executed symbolically: leftmost-first backtracking over the compiled program)", Require: []string{"diagnostic"}},
			{Entry: "HarnessC16Matcher", Args: []int64{3}, Bound: "... 3-byte key", Require: []string{"diagnostic"}},
			{Entry: "HarnessC16CallPath", Args: []int64{2}, Bound: "uses: ./ + 2 arbitrary bytes + .yml at job level inside a project; the file-system error echoes the path", Require: []string{"diagnostic"}},
			{Entry: "HarnessC16CallPath", Args: []int64{3}, Bound: "... 3 arbitrary bytes", Require: []string{"diagnostic"}},
			{Entry: "HarnessC16Event", Args: []int64{2}, Bound: "an event name of 2 arbitrary bytes under on: with a branches / tags-ignore / paths / types filter below it", Require: []string{"diagnostic"}},
			{Entry: "HarnessC16Event", Args: []int64{3}, Bound: "... 3 arbitrary bytes", Require: []string{"diagnostic"}},
			{Entry: "HarnessC16Docker", Args: []int64{3}, Bound: "uses: docker:// + 3 arbitrary bytes (url.Parse on symbolic text is a free-error contract stub)", Require: []string{"linted"}},
			{Entry: "HarnessC16Docker", Args: []int64{4}, Bound: "... 4 arbitrary bytes", Require: []string{"linted"}},
			{Entry: "HarnessC16Glob", Args: []int64{2, 0}, Bound: "filter-pattern validator messages for every 2-byte pattern", Require: []string{"diagnostic"}},
			{Entry: "HarnessC16Glob", Args: []int64{3, 0}, Bound: "... every 3-byte pattern", Require: []string{"diagnostic"}},
			{Entry: "HarnessC16Glob", Args: []int64{5, 1}, Bound: "... every 5-byte pattern over [ ] - \\ ! * ? a b LF CR space /", Require: []string{"diagnostic"}},
		}
		p.Thorough = append(append([]HRun{}, p.Quick...),
			HRun{Entry: "HarnessC16Echo", Args: []int64{3, 0}, Bound: "every scalar replaced by 3 arbitrary bytes", Require: []string{"diagnostic"}},
			HRun{Entry: "HarnessC16Echo", Args: []int64{3, 1}, Bound: "'@' + 3 arbitrary bytes", Require: []string{"diagnostic"}},
			HRun{Entry: "HarnessC16Echo", Args: []int64{2, 2}, Bound: "'${{ ' + 2 arbitrary bytes", Require: []string{"diagnostic"}},
			HRun{Entry: "HarnessC16Snippet", Args: []int64{6}, Bound: "sources of 6 bytes", Require: []string{"line-found", "caret"}},
			HRun{Entry: "HarnessC16Matcher", Args: []int64{4}, Bound: "problem-matcher round trip with a 4-byte key", Require: []string{"diagnostic"}},
			HRun{Entry: "HarnessC16SnippetWide", Args: []int64{5}, Bound: "source lines of 5 units", Require: []string{"rendered", "caret"}},
			HRun{Entry: "HarnessC16Glob", Args: []int64{4, 0}, Bound: "filter-pattern validator messages for every 4-byte pattern", Require: []string{"diagnostic"}},
			HRun{Entry: "HarnessC16Glob", Args: []int64{6, 1}, Bound: "... every 6-byte pattern over the 13-character alphabet", Require: []string{"diagnostic"}},
		)
		for L := int64(1); L <= 2; L++ {
			p.Quick = append(p.Quick, HRun{Entry: "HarnessC16MatcherLines", Args: []int64{L}, Bound: "two diagnostics printed without source (-oneline), colours off / on (fatih/color model: ESC[<n>m text ESC[0m), echoed key of L printable bytes: every header line parses back through the shipped pattern", Require: []string{"diagnostic", "linted"}})
		}
		p.Thorough = append(p.Thorough, HRun{Entry: "HarnessC16MatcherLines", Args: []int64{3}, Bound: "two header lines, colours off / on, echoed key of 3 printable bytes", Require: []string{"diagnostic", "linted"}})
		p.Quick = append(p.Quick, HRun{Entry: "HarnessC16MatrixEcho", Args: []int64{2}, Bound: "matrix diagnostics that echo a mapping value whose key or value is 2 arbitrary bytes (duplicate row value, exclude entry that matches nothing)", Require: []string{"diagnostic", "linted"}})
		p.Thorough = append(p.Thorough, HRun{Entry: "HarnessC16MatrixEcho", Args: []int64{3}, Bound: "echoed mapping key / value of 3 arbitrary bytes", Require: []string{"diagnostic", "linted"}})
		{
			r := HRun{Entry: "HarnessC02Format", Bound: "-format: what the template printer receives for a multi-file run (message, position, kind, snippet) equals the files formatted alone, for every goroutine completion order and GOMAXPROCS = 1", Require: []string{"compared"}}
			p.Quick = append(p.Quick, r)
			p.Thorough = append(p.Thorough, r)
		}
		{
			r := HRun{Entry: "HarnessC16Gutter", Bound: "default output with snippet for 13 line numbers around the powers of ten x 4 columns: the three gutter bars are aligned, the source line follows the gutter, the caret is under the reported column", Require: []string{"printed"}}
			p.Quick = append(p.Quick, r)
			p.Thorough = append(p.Thorough, r)
		}
		{
			r := HRun{Entry: "HarnessC16CalleeBroken", Bound: "a local reusable workflow / local action whose file go-yaml rejects with one or two type errors (3 files each; the library's message has one line per error): the caller's diagnostic is one line", Require: []string{"linted", "diagnostic"}}
			p.Quick = append(p.Quick, r)
			p.Thorough = append(p.Thorough, r)
		}
		props["C16"] = p
	}

	// ---- C10 ----
	{
		p := &Prop{ID: "C10", Outside: []string{
			"data races beyond the race harness: it records the memory accesses of one sequential run of LintFiles on 2 x 3 (3 x 4) files x steps at memory-cell granularity (append into spare capacity of a shared backing array and accesses inside non-interpreted library code are not seen), treats mutexes as protection and decides ordering by other synchronisation with the solver on the extracted schedule model; atomics and channels do not occur; besides, no store instruction reachable from linting one file writes memory that existed before (package-level tables, the shared Config)",
			"per-file equality of multi-file and single-file runs beyond the two-repository / three-file family of the multi-file harness (file system, findProject and configuration loading are virtual there); local action / reusable workflow caches (file system, reflection-driven decoding)",
			"paths outside the alphabet {/, a, b, .} or longer than the bound; non-clean or relative paths (filepath.Abs is modelled as the identity on absolute clean paths)",
		}}
		p.Quick = []HRun{
			{Entry: "HarnessC10Echo", Args: []int64{1, 0}, Bound: "every scalar of the full skeleton replaced by 1 arbitrary byte, all package-level tables and the shared Config write-monitored", Require: []string{"linted"}},
			{Entry: "HarnessC10Echo", Args: []int64{1, 1}, Bound: "... replaced by ${{ vars.X }} with X 1 arbitrary byte (config-variables)", Require: []string{"linted"}},
			{Entry: "HarnessC10Echo", Args: []int64{1, 2}, Bound: "... replaced by ${{ X }}", Require: []string{"linted"}},
			{Entry: "HarnessC10Types", Args: []int64{1}, Bound: "on.<hook>.types: [T] for each of 32 webhook events, T 1 arbitrary byte", Require: []string{"reported"}},
			{Entry: "HarnessC10Types", Args: []int64{3}, Bound: "... T 3 arbitrary bytes", Require: []string{"reported"}},
		}
		p.Quick = append(p.Quick, HRun{Entry: "HarnessC10MultiFile", Bound: "two repositories with their own configuration, three files (runner label two symbolic lower-case letters), LintFiles in 8 argument orders x 3 goroutine orders vs each file linted alone; configurations write-monitored", Require: []string{"linted", "diagnosed"}})
		p.Quick = append(p.Quick, HRun{Entry: "HarnessC10MatrixAlias", Bound: "matrices built from 7 expressions of shared types in 6 shapes (include elements before / after literal ones, whole matrix, whole include, row), every job order: no write to package-level tables, a later job unaffected", Require: []string{"linted"}})
		p.Quick = append(p.Quick, HRun{Entry: "HarnessC10Races", Args: []int64{2, 3}, Bound: "LintFiles on 2 files x 3 run steps (shellcheck + pyflakes, one issue per script), 2 CPUs: every pair of accesses to one memory cell by two goroutines, one a write, without a common mutex, is ordered by the synchronisation in every schedule (solver query per pair on the schedule model)", Require: []string{"linted", "race-analysis-done"}})
		for _, lens := range [][2]int64{{1, 1}, {1, 3}, {2, 2}, {2, 4}, {2, 5}, {3, 2}, {3, 3}, {3, 5}, {3, 6}, {4, 6}} {
			p.Quick = append(p.Quick, HRun{Entry: "HarnessC10Knows", Args: []int64{lens[0], lens[1]}, Bound: "all roots / paths of these lengths over {/,a,b,A,.}"})
		}
		p.Thorough = append(append([]HRun{}, p.Quick...),
			HRun{Entry: "HarnessC10Echo", Args: []int64{2, 0}, Bound: "2 arbitrary bytes at every scalar", Require: []string{"linted"}},
			HRun{Entry: "HarnessC10Echo", Args: []int64{2, 1}, Bound: "${{ vars.XY }}", Require: []string{"linted"}},
			HRun{Entry: "HarnessC10Races", Args: []int64{3, 4}, Bound: "race analysis on 3 files x 4 run steps", Require: []string{"linted", "race-analysis-done"}},
			HRun{Entry: "HarnessC10Knows", Args: []int64{4, 7}, Bound: "roots of 4, paths of 7 bytes"},
			HRun{Entry: "HarnessC10Knows", Args: []int64{5, 7}, Bound: "roots of 5, paths of 7 bytes"},
		)
		p.Quick = append(p.Quick, HRun{Entry: "HarnessC10FindProject", Bound: "81 layouts of .git / .github/workflows (absent, directory, file) in two nested directories x whether a file of the enclosing directory was resolved first through the same Projects: the file belongs to the nearest repository", Require: []string{"found"}})
		p.Thorough = append(p.Thorough, HRun{Entry: "HarnessC10FindProject", Bound: "81 repository layouts x enclosing repository known or not", Require: []string{"found"}})
		{
			r := HRun{Entry: "HarnessC14Routes", Bound: "a callee's interface decoded from its file or written from its syntax tree (which one is used depends on the order of the files): same interface, and a caller gets the same diagnostics with either", Require: []string{"compared"}}
			p.Quick = append(p.Quick, r)
			p.Thorough = append(p.Thorough, r)
		}
		{
			n := HRun{Entry: "HarnessC02Nested", Bound: "a repository vendored inside another one, each with its own configuration: [inner, outer] twice and [outer, inner] on one Linter, [outer, inner] on a fresh Linter", Require: []string{"compared"}}
			p.Quick = append(p.Quick, n)
			p.Thorough = append(p.Thorough, n)
			r := HRun{Entry: "HarnessC10SameActionPath", Bound: "two repositories with a local action at the same relative path but different outputs, linted together in both orders and goroutine orders: each file is checked against its own repository's action", Require: []string{"linted"}}
			p.Quick = append(p.Quick, r)
			p.Thorough = append(p.Thorough, r)
		}
		props["C10"] = p
	}

	// ---- C15 ----
	{
		p := &Prop{ID: "C15", Outside: []string{
			"the regular expressions and globs themselves: every match outcome is a free boolean (the filter is decided for all outcome matrices)",
			"arbitrary directory layouts, symlinks, flag parsing, the process exit status through Command.Main",
			"working directories / spellings other than the 4 x 3 family of the cwd harness (a finite family explored exhaustively, not a quantification over all paths)",
			"more than 4 diagnostics / 2 CLI patterns / 2 path configs (quick), 6 / 2 / 2 (thorough)",
		}}
		p.Quick = []HRun{
			{Entry: "HarnessC15Filter", Args: []int64{3, 2, 2}, Bound: "3 diagnostics x 2 CLI patterns x 2 path configs: all 2^14 match/glob outcome matrices, symbolic map order", Require: []string{"kept", "dropped"}},
			{Entry: "HarnessC15Filter", Args: []int64{4, 1, 2}, Bound: "4 diagnostics x 1 CLI pattern x 2 path configs", Require: []string{"kept", "dropped"}},
			{Entry: "HarnessC15Filter", Args: []int64{4, 2, 0}, Bound: "4 diagnostics x 2 CLI patterns, no config", Require: []string{"kept", "dropped"}},
			{Entry: "HarnessC15Cwd", Bound: "working directory in {root, parent, nested, unrelated} x spelling in {absolute, relative, ./relative}", Require: []string{"linted"}},
			{Entry: "HarnessC15MultiRepo", Bound: "two repositories with their own `paths` ignore configuration linted in one run, both argument orders: each file filtered by its own repository's configuration", Require: []string{"linted"}},
			{Entry: "HarnessC15IgnoreItems", Bound: "an `ignore` item of actionlint.yaml in 7 YAML forms (string, quoted, alias, empty, sequence, mapping, null) decoded by the repository's UnmarshalYAML", Require: []string{"parsed"}},
			{Entry: "HarnessC15Check", Bound: "LintFile end to end on 3 files (rule diagnostic, text that is not YAML, workflow syntax error) x 3 patterns x given by -ignore or by the paths configuration", Require: []string{"linted", "pattern-matches"}},
		}
		p.Thorough = append(append([]HRun{}, p.Quick...),
			HRun{Entry: "HarnessC15Filter", Args: []int64{6, 2, 2}, Bound: "6 diagnostics x 2 CLI patterns x 2 path configs", Require: []string{"kept", "dropped"}},
			HRun{Entry: "HarnessC15Filter", Args: []int64{5, 3, 3}, Bound: "5 diagnostics x 3 CLI patterns x 3 path configs", Require: []string{"kept", "dropped"}},
		)
		{
			r := HRun{Entry: "HarnessC10FindProject", Bound: "81 layouts of .git / .github/workflows (absent, directory, file): the repository whose configuration applies to a file is the nearest one (.git may be a file)", Require: []string{"found"}}
			p.Quick = append(p.Quick, r)
			p.Thorough = append(p.Thorough, r)
		}
		props["C15"] = p
	}

	// ---- C08 ----
	{
		p := &Prop{ID: "C08", Outside: []string{
			"non-ASCII letters; names longer than those of the template; more than one changed occurrence per run",
			"local action / reusable workflow metadata keys (decoded through reflection)",
			"the keys of JSON literals are changed concretely (two spellings), not symbolically: json.Unmarshal is native",
		}}
		p.Quick = []HRun{
			{Entry: "HarnessC08Case", Bound: "50 name occurrences (definitions and uses of inputs, secrets, outputs, job/step ids, matrix keys, env keys, contexts, properties, ['literal'] indices, functions, action inputs, fromJSON accessors) x all 2^n letter-case spellings each", Require: []string{"variant"}},
			{Entry: "HarnessC08Keywords", Bound: "true/false/null in every spelling with an upper-case letter; string literal contents", Require: []string{"keyword-variant"}},
			{Entry: "HarnessC08Diagnosed", Bound: "a workflow with name-dependent diagnostics (typed inputs / secret of a local reusable workflow call, needs outputs, action inputs): 6 names (call-site keys, a job id that needs itself) with symbolic letter case keep every diagnostic in place", Require: []string{"variant"}},
		}
		p.Thorough = p.Quick
		p.Thorough = append(p.Thorough, HRun{Entry: "HarnessC08CasePairs", Bound: "every pair of the 50 name occurrences with independent symbolic letter cases (1225 pairs x 2^n x 2^m spellings)", Require: []string{"variant"}})
		{
			r := HRun{Entry: "HarnessC08Testdata", Bound: "every clean workflow of the repository's testdata with all names inside all ${{ }} placeholders upper-cased (string and number literals, true / false / null untouched): still clean", Require: []string{"variant"}}
			p.Quick = append(p.Quick, r)
			p.Thorough = append(p.Thorough, r)
		}
		{
			r := HRun{Entry: "HarnessC14ActionFile", Bound: "a local action whose input is declared in 3 letter cases and supplied in 3: required / undeclared verdicts as declared", Require: []string{"checked"}}
			p.Quick = append(p.Quick, r)
			p.Thorough = append(p.Thorough, r)
		}
		props["C08"] = p
	}

	// ---- C09 ----
	{
		p := &Prop{ID: "C09", Outside: []string{
			"expression families other than access chains over the scope contexts with segments .x / .* / [0] / ['x'] / .rows; job variants other than the seven of the library",
			"state of the two external-tool rules",
			"the pair comparisons are exhaustive enumerations of a finite family (shape-symbolic); the solver is involved only for the symbolic property letter of the frozen-scope harness",
		}}
		p.Quick = []HRun{
			{Entry: "HarnessC09Frozen", Args: []int64{2}, Bound: "every chain base(13) + 2 segments(6 each) + symbolic property letter: no write to the job's scope types or built-in tables while it is checked", Require: []string{"checked"}},
			{Entry: "HarnessC09Exprs", Args: []int64{2, 1}, Bound: "all pairs (earlier chain of depth 2, later chain of depth 1) in one job", Require: []string{"compared"}},
			{Entry: "HarnessC09Jobs", Bound: "all ordered pairs of 13 job variants x both iteration orders of the jobs map", Require: []string{"compared"}},
			{Entry: "HarnessC09FrozenJobs", Bound: "each of 13 job variants visited with the workflow-level scope types and built-in tables frozen; per-job scope reset", Require: []string{"visited"}},
		}
		p.Thorough = []HRun{
			{Entry: "HarnessC09FrozenJobs", Bound: "each job variant with frozen workflow-level scope types", Require: []string{"visited"}},
			{Entry: "HarnessC09Frozen", Args: []int64{3}, Bound: "chains with 3 segments + symbolic property letter", Require: []string{"checked"}},
			{Entry: "HarnessC09Exprs", Args: []int64{2, 2}, Bound: "all pairs of chains of depth 2 (186624 pairs)", Require: []string{"compared"}},
			{Entry: "HarnessC09Exprs", Args: []int64{3, 1}, Bound: "earlier chain of depth 3, later of depth 1", Require: []string{"compared"}},
			{Entry: "HarnessC09Jobs", Bound: "all ordered pairs of 7 job variants x both iteration orders of the jobs map", Require: []string{"compared"}},
		}
		p.Quick = append(p.Quick, HRun{Entry: "HarnessC09Calls", Bound: "an invalid local reusable-workflow call (4 spellings) before / between / after two unrelated jobs that share the metadata cache", Require: []string{"compared"}})
		p.Thorough = append(p.Thorough, HRun{Entry: "HarnessC09Calls", Bound: "invalid call next to valid calls of the same file", Require: []string{"compared"}})
		{
			r := HRun{Entry: "HarnessC10MatrixAlias", Bound: "matrices given by expressions whose types are shared objects (built-in contexts, the workflow's inputs): typing one job's matrix does not change what a later job sees", Require: []string{"linted"}}
			p.Quick = append(p.Quick, r)
			p.Thorough = append(p.Thorough, r)
		}
		{
			r := HRun{Entry: "HarnessC09OddKey", Bound: "an entry with an empty or non-scalar key placed first in the jobs / with / env / matrix mapping: the entries after it keep their diagnostics", Require: []string{"compared"}}
			p.Quick = append(p.Quick, r)
			p.Thorough = append(p.Thorough, r)
		}
		{
			r := HRun{Entry: "HarnessC19TwoJobs", Bound: "the matrix rule's state does not survive from one job to the next (4 x 4 job variants)", Require: []string{"compared"}}
			p.Quick = append(p.Quick, r)
			p.Thorough = append(p.Thorough, r)
		}
		{
			r := HRun{Entry: "HarnessC09RuleIsolation", Bound: "all rules together = the rules one at a time on fresh trees: the C02 corpus, every C09 job variant, and the full skeleton with each scalar made a quoted placeholder", Require: []string{"compared"}}
			p.Quick = append(p.Quick, r)
			p.Thorough = append(p.Thorough, r)
		}
		{
			r := HRun{Entry: "HarnessC18Needs", Args: []int64{3, 1, 1}, Bound: "the needs graph of 3 jobs (every edge set, every map order): the verdict about a cycle does not depend on unrelated jobs before it", Require: []string{"dangling"}}
			p.Quick = append(p.Quick, r)
			p.Thorough = append(p.Thorough, r)
		}
		props["C09"] = p
	}

	// ---- C02 ----
	{
		p := &Prop{ID: "C02", Outside: []string{
			"goroutine scheduling, GOMAXPROCS, repeated process executions: the scheduler is not SSA (C20 covers the result-collection protocol; C10 the absence of shared writes)",
			"workflows other than the ten of the corpus (each has several diagnostics per position / several candidates); maps with more than 3 entries are iterated in 3 transformed orders (reversed, rotated by 1, rotated by n/2) instead of all n!",
			"native confirmation of an order dependence uses Go's own randomised iteration (60 repetitions)",
		}}
		p.Quick = []HRun{
			{Entry: "HarnessC02Order", Bound: "Pos.IsBefore and ByErrorPosition.Less on every pair / triple of positions with full 64-bit line and column values: strict total order, mutually consistent", Require: []string{"compared"}},
			{Entry: "HarnessC02MapOrder", Bound: "10 workflows x every function that ranges over a map of >= 2 entries (discovered by a recording run) x every iteration order of that function's maps", Require: []string{"compared", "several-diagnostics"}},
			{Entry: "HarnessC14Routes", Bound: "which file is linted first decides whether a callee's interface is decoded from its file or written from its syntax tree: both routes give the same interface for every declaration of the family (945)", Require: []string{"compared"}},
			{Entry: "HarnessC02JobOrder", Bound: "four jobs sharing a missing local reusable workflow and a broken local action (caches report to the first caller only), every order of the jobs map", Require: []string{"compared"}},
			{Entry: "HarnessC02WorkflowCall", Bound: "local reusable workflow with 3 required inputs and 3 required secrets, none supplied: all 36 orders", Require: []string{"compared"}},
		}
		p.Thorough = p.Quick
		p.Quick = append(p.Quick, HRun{Entry: "HarnessC02Format", Bound: "3 files, custom format: the per-file goroutines run as wholes in each of the 6 completion orders; the list given to the template printer and the returned list are the same", Require: []string{"compared"}})
		p.Thorough = append(p.Thorough, HRun{Entry: "HarnessC02Format", Bound: "6 goroutine completion orders of a 3-file run", Require: []string{"compared"}})
		p.Thorough = append(p.Thorough, HRun{Entry: "HarnessC02Testdata", Args: []int64{0, 1, 8}, Bound: "every workflow under testdata/ok, testdata/err, testdata/examples of the current tree x every function that ranges over a map while it is linted, iterations in symbolic order (first 8 order decisions per path; maps of more than 3 entries in 3 fixed permutations)", Require: []string{"compared"}})
		p.Quick = append(p.Quick, HRun{Entry: "HarnessC02SharedDefect", Bound: "two files of one repository using the same broken local action, both completion orders of the per-file goroutines: which file carries the single report", Require: []string{"compared"}})
		p.Thorough = append(p.Thorough, HRun{Entry: "HarnessC02SharedDefect", Bound: "shared broken local action, both goroutine orders", Require: []string{"compared"}})
		{
			r := HRun{Entry: "HarnessC02Repeat", Bound: "one Linter, the same file linted three times (LintFile, LintFiles, LintFile), with diagnostics the shared caches report once per run", Require: []string{"compared"}}
			p.Quick = append(p.Quick, r)
			p.Thorough = append(p.Thorough, r)
		}
		for _, e := range []struct{ n, b string }{
			{"HarnessC02Config", "a repository configuration with duplicate runner labels and configuration variables: every function that ranges over a map while the workflow is linted, iterations in symbolic order"},
			{"HarnessC02ConfigError", "a configuration with three invalid glob patterns in `paths`: the fatal error under every iteration order of the map"},
		} {
			r := HRun{Entry: e.n, Bound: e.b, Require: []string{"compared"}}
			p.Quick = append(p.Quick, r)
			p.Thorough = append(p.Thorough, r)
		}
		{
			r := HRun{Entry: "HarnessC02Nested", Bound: "a repository vendored inside another one, each with its own configuration: [inner, outer] twice and [outer, inner] on one Linter, [outer, inner] on a fresh Linter", Require: []string{"compared"}}
			p.Quick = append(p.Quick, r)
			p.Thorough = append(p.Thorough, r)
		}
		props["C02"] = p
	}

	// ---- C11 ----
	{
		p := &Prop{ID: "C11", Outside: []string{
			"access chains longer than the bound; property names outside the 15-name vocabulary (names occurring in the documented paths plus a foreign one)",
			"embeddings other than the 15 listed; more than two chains per expression",
			"the list of documented untrusted inputs is a committed flat copy (harness/c11_untrusted.go)",
		}}
		p.Quick = []HRun{
			{Entry: "HarnessC11Chains", Args: []int64{2}, Bound: "github + up to 2 segments (15 names as .name or ['name'], [0], .*) with symbolic letter case on every name, x 24 embeddings (8 sanitising; function names in several spellings)", Require: []string{"untrusted", "trusted-or-sanitised"}},
			{Entry: "HarnessC11Two", Args: []int64{2}, Bound: "a generic chain of up to 2 segments (names event, commits, foo; [0]; .*) before or after a documented untrusted path in every spelling, in 4 two-operand shapes", Require: []string{"compared"}},
			{Entry: "HarnessC11Routing", Bound: "the untrusted expression at every scalar position of the full skeleton and in actions/github-script inputs", Require: []string{"script-position", "other-position", "github-script"}},
			{Entry: "HarnessC11StarLiteral", Bound: "every documented path with array steps spelled ['*']: an ordinary property access, nothing reported", Require: []string{"compared"}},
			{Entry: "HarnessC11Split", Bound: "every documented untrusted path in every spelling cut at every position, the rest applied to a call result / parenthesised literal in 5 shapes", Require: []string{"compared"}},
		}
		p.Thorough = []HRun{
			{Entry: "HarnessC11Split", Bound: "every documented path cut at every position, 5 shapes", Require: []string{"compared"}},
			{Entry: "HarnessC11Chains", Args: []int64{3}, Bound: "github + up to 3 segments x symbolic case x 24 embeddings", Require: []string{"untrusted", "trusted-or-sanitised"}},
			{Entry: "HarnessC11Two", Args: []int64{3}, Bound: "generic chain of up to 3 segments with a documented path", Require: []string{"compared"}},
			{Entry: "HarnessC11Routing", Bound: "every scalar position", Require: []string{"script-position", "other-position", "github-script"}},
		}
		{
			r := HRun{Entry: "HarnessC11Tail", Bound: "every documented untrusted path in every spelling with one extra [0] inserted after any segment (after a .* filter the value is still the untrusted one)", Require: []string{"compared", "filtered-then-indexed"}}
			p.Quick = append(p.Quick, r)
			p.Thorough = append(p.Thorough, r)
		}
		props["C11"] = p
	}

	// ---- C07 ----
	{
		p := &Prop{ID: "C07", Outside: []string{
			"how yaml.v3 assigns line/column to nodes (multi-line, escaped or block scalars): node positions are symbolic inputs here",
			"non-ASCII text before the diagnosed construct (columns count characters); filler bytes NUL, '$', CR, LF",
			"malformed expressions other than the 10 of the table (their offending-token offsets are fixed by hand and confirmed natively); lexer errors at end of input",
			"strings with more than two placeholders",
		}}
		for L := 0; L <= 3; L++ {
			p.Quick = append(p.Quick, HRun{Entry: "HarnessC07Lex", Args: []int64{int64(L)}, Bound: "all ASCII strings of length L: token line/column/text against offsets"})
		}
		p.Quick = append(p.Quick,
			HRun{Entry: "HarnessC07Template", Args: []int64{0, 0}, Bound: "no filler; 64-bit symbolic line, column, quoted", Require: []string{"checked"}},
			HRun{Entry: "HarnessC07Template", Args: []int64{2, 2}, Bound: "2+2 symbolic filler bytes; 64-bit symbolic line, column, quoted; 10 malformed expressions; one or two placeholders", Require: []string{"checked"}},
			HRun{Entry: "HarnessC07Node", Bound: "unknown key with 64-bit symbolic (line, column) in every fixed-key mapping", Require: []string{"injected"}},
		)
		for L := 0; L <= 2; L++ {
			for _, ref := range []int64{1, 0} {
				p.Quick = append(p.Quick, HRun{Entry: "HarnessC07Glob", Args: []int64{int64(L), ref}, Bound: "all patterns of length L x symbolic scalar position and quoting"})
			}
		}
		p.Thorough = append(append([]HRun{}, p.Quick...),
			HRun{Entry: "HarnessC07Lex", Args: []int64{4}, Bound: "all ASCII strings of length 4"},
			HRun{Entry: "HarnessC07Template", Args: []int64{4, 4}, Bound: "4+4 symbolic filler bytes", Require: []string{"checked"}},
			HRun{Entry: "HarnessC07Template", Args: []int64{6, 0}, Bound: "6 symbolic filler bytes before the first placeholder", Require: []string{"checked"}},
			HRun{Entry: "HarnessC07Glob", Args: []int64{3, 1}, Bound: "all ref patterns of length 3"},
			HRun{Entry: "HarnessC07Glob", Args: []int64{3, 0}, Bound: "all path patterns of length 3"},
		)
		p.Quick = append(p.Quick, HRun{Entry: "HarnessC07If", Bound: "5 malformed `if:` conditions written without ${{ }}, plain or quoted, at a 64-bit symbolic position", Require: []string{"checked"}})
		p.Thorough = append(p.Thorough, HRun{Entry: "HarnessC07If", Bound: "bare if conditions at symbolic positions", Require: []string{"checked"}})
		p.Quick = append(p.Quick, HRun{Entry: "HarnessC17Glob", Args: []int64{3, 1}, Bound: "ref filter patterns of 3 bytes: the character a message names is the one at its column (negated patterns included)"}, HRun{Entry: "HarnessC17Glob", Args: []int64{3, 0}, Bound: "path filter patterns of 3 bytes: named character at the column"})
		{
			r := HRun{Entry: "HarnessC07FrozenAST", Bound: "every scalar of the skeleton in 3 quoting styles, with or without a placeholder holding an undefined variable: no rule writes to the parsed syntax tree (positions are shared by all rules)", Require: []string{"linted"}}
			p.Quick = append(p.Quick, r)
			p.Thorough = append(p.Thorough, r)
		}
		{
			r := HRun{Entry: "HarnessC07Fields", Bound: "6 fields that take one placeholder as their whole value (timeout-minutes, continue-on-error, max-parallel, fail-fast, env, matrix), quoted, 0-2 blanks before the placeholder, symbolic 64-bit position", Require: []string{"checked"}}
			p.Quick = append(p.Quick, r)
			p.Thorough = append(p.Thorough, r)
		}
		{
			r := HRun{Entry: "HarnessC09RuleIsolation", Bound: "all rules together = the rules one at a time on fresh trees: the C02 corpus, every C09 job variant, and the full skeleton with each scalar made a quoted placeholder", Require: []string{"compared"}}
			p.Quick = append(p.Quick, r)
			p.Thorough = append(p.Thorough, r)
		}
		{
			r := HRun{Entry: "HarnessC07Untrusted", Bound: "the untrusted-input diagnostic of a run: script sits at the first token of the untrusted access (5 expressions with harmless accesses before it), symbolic position and quoting", Require: []string{"checked"}}
			p.Quick = append(p.Quick, r)
			p.Thorough = append(p.Thorough, r)
		}
		{
			r := HRun{Entry: "HarnessC07RunnerLabel", Bound: "an unknown runner label among the values that feed runs-on: ${{ matrix.os }} (row or include entry) at a symbolic position: reported at that value", Require: []string{"checked"}}
			p.Quick = append(p.Quick, r)
			p.Thorough = append(p.Thorough, r)
		}
		props["C07"] = p
	}

	// ---- C05 ----
	{
		p := &Prop{ID: "C05", Outside: []string{
			"ids and names longer than one ASCII letter (both cases are covered); more than 4 steps / 3 jobs",
			"local actions and reusable workflows as definers of outputs (C14); nested matrix values",
			"dynamic definitions are represented by fromJSON(<non-literal>): a JSON literal is typed exactly by actionlint and stays strict",
		}}
		p.Quick = []HRun{
			{Entry: "HarnessC05Steps", Args: []int64{3}, Bound: "3 steps, each with or without a symbolic-letter id; symbolic reference letter; reference in any step, in job outputs or environment.url", Require: []string{"reported", "accepted"}},
			{Entry: "HarnessC05Needs", Bound: "3 jobs, all direct-needs sets of the referring job, b optionally needing a; symbolic job / output letters", Require: []string{"reported", "accepted"}},
			{Entry: "HarnessC05Matrix", Bound: "row / include / exclude keys and reference as symbolic letters; literal and three dynamic forms", Require: []string{"reported", "accepted", "dynamic"}},
			{Entry: "HarnessC05Inputs", Bound: "inputs / secrets / jobs.<id>.outputs references against workflow_call and workflow_dispatch declarations (3 event combinations), symbolic letters", Require: []string{"reported", "accepted"}},
		}
		p.Thorough = append(append([]HRun{}, p.Quick...),
			HRun{Entry: "HarnessC05Steps", Args: []int64{4}, Bound: "4 steps", Require: []string{"reported", "accepted"}},
		)
		{
			r := HRun{Entry: "HarnessC05MatrixJobs", Bound: "two jobs in both written orders; job A (ordinary or reusable-workflow call) with a matrix row, job B without strategy or with its own row; symbolic letters", Require: []string{"reported", "accepted"}}
			p.Quick = append(p.Quick, r)
			p.Thorough = append(p.Thorough, r)
		}
		props["C05"] = p
	}

	// ---- C06 ----
	{
		p := &Prop{ID: "C06", Outside: []string{
			"types outside the family (constructors nested deeper than 2, objects with members other than a, b); expressions outside the 40 + 16 templates: the claim for expressions of any size follows by induction over these one-step rules only for environments whose types are in the family",
			"this is a bounded exhaustive enumeration of (type, loosening, rule) triples (shape-symbolic); no input here is solver-quantified",
			"Merge is only required to return any when merged with any (bool/number are coerced into string by design)",
		}}
		p.Quick = []HRun{
			{Entry: "HarnessC06Rules", Args: []int64{1, 0}, Bound: "types of depth <= 1 (71) x every single loosening x 40 expression templates x other operand of 5 base types x both operand positions", Require: []string{"compared", "accepted-before"}},
			{Entry: "HarnessC06Algebra", Args: []int64{2}, Bound: "any-assignability and merge-with-any for all 3305 types of depth <= 2", Require: []string{"compared"}},
			{Entry: "HarnessC06Template", Bound: "template evaluation, bool, number and if: positions with a value of type any", Require: []string{"checked"}},
			{Entry: "HarnessC06Pairs", Bound: "both operands of depth <= 1 with innermost types any/number/string (35 x 35) x every single loosening of one x 38 two-operand templates", Require: []string{"compared", "accepted-before"}},
			{Entry: "HarnessC05Matrix", Bound: "matrix sections given by expressions (whole matrix, whole include, one include element of object or unknown type): references into them are never reported", Require: []string{"dynamic"}},
			{Entry: "HarnessC06RulesNarrow", Args: []int64{2}, Bound: "types of depth <= 2 whose innermost types are any/number/string (about 860) x every single loosening x 16 deep expression templates", Require: []string{"compared", "accepted-before"}},
		}
		p.Thorough = append(append([]HRun{}, p.Quick...),
			HRun{Entry: "HarnessC06Rules", Args: []int64{2, 1}, Bound: "types of depth <= 2 (3305) x every single loosening x 16 deep expression templates", Require: []string{"compared", "accepted-before"}},
		)
		for _, e := range []struct{ n, b string }{
			{"HarnessC06MatrixRow", "a matrix row of 1-2 plain values (string, number, mapping, sequence) and one value of unknown type at every position x 7 uses of matrix.<row>: nothing reported"},
			{"HarnessC06InputDefault", "default of a boolean / number / string workflow_call input given by 4 placeholders of unknown type: accepted"},
		} {
			r := HRun{Entry: e.n, Bound: e.b, Require: []string{"checked"}}
			p.Quick = append(p.Quick, r)
			p.Thorough = append(p.Thorough, r)
		}
		{
			r := HRun{Entry: "HarnessC06RunsOn", Bound: "runs-on (or its labels:) given by one placeholder of type any / array<any> / array of strings built from an unknown value: accepted", Require: []string{"checked"}}
			p.Quick = append(p.Quick, r)
			p.Thorough = append(p.Thorough, r)
		}
		props["C06"] = p
	}

	// ---- C14 ----
	{
		p := &Prop{ID: "C14", Outside: []string{
			"interface files beyond the two declaration families of the file harnesses (yaml.v3's reflection-driven decoding is re-done over go/types by the engine and diffed against the real library on all 317 YAML files of testdata by `selftest`; bytes -> node is the native parser); in the other harnesses interfaces are given in memory",
			"interface and call-site names longer than one letter in the small-interface harnesses; more than 3 declared / 3 supplied inputs",
			"output names other than lower-case-letter strings (plus the characters of declared outputs at their positions)",
			"the 154 outdated specs (they are rejected wholesale, not interface-checked)",
		}}
		p.Quick = []HRun{
			{Entry: "HarnessC14Action", Args: []int64{3}, Bound: "checkAction on every interface of <= 3 inputs (symbolic letters, symbolic required flags) x every call site of <= 3 supplied keys", Require: []string{"checked"}},
			{Entry: "HarnessC14Popular", Args: []int64{0, 1000}, Bound: "all 120 bundled action specs x a fully symbolic with: key of every length up to the longest declared name + 1 (all byte values)", Require: []string{"reported", "accepted", "skip-inputs"}},
			{Entry: "HarnessC14Outputs", Args: []int64{0, 1000}, Bound: "steps.<id>.outputs.<X> for all bundled specs + github-script + an unknown action, X symbolic of every length up to the longest declared output + 1", Require: []string{"reported", "accepted", "dynamic"}},
			{Entry: "HarnessC14Routes", Bound: "a reusable workflow's workflow_call declaration (input name in 3 spellings x required absent/true/false x default absent/''/text/number/bool/null/~ x type absent/string/number/boolean/other; a secret; an output): the interface decoded from the file equals the interface written from the syntax tree", Require: []string{"compared"}},
			{Entry: "HarnessC14ActionFile", Bound: "a local action.yml (declared input in 3 spellings x required x default incl. null; one output) decoded by the repository's UnmarshalYAML methods, against call sites supplying 5 key variants and reading 3 output names", Require: []string{"checked"}},
			{Entry: "HarnessC14WorkflowCall", Bound: "local reusable workflow with one input (4 types, symbolic required) and one secret; with:/secrets: keys symbolic; 5 literal/expression values; secrets: inherit", Require: []string{"checked", "typed", "inherit"}},
		}
		p.Thorough = append(append([]HRun{}, p.Quick...),
			HRun{Entry: "HarnessC14Action", Args: []int64{4}, Bound: "interfaces of <= 4 inputs x call sites of <= 4 supplied keys", Require: []string{"checked"}},
		)
		{
			r := HRun{Entry: "HarnessC14CallOutputs", Bound: "needs.<job>.outputs.<X> for a local reusable workflow declaring 0, 1 or 2 outputs (symbolic letters)", Require: []string{"reported", "accepted"}}
			p.Quick = append(p.Quick, r)
			p.Thorough = append(p.Thorough, r)
		}
		props["C14"] = p
	}

	// ---- C20 ----
	{
		p := &Prop{ID: "C20", Outside: []string{
			"schedules of more goroutines than the schedule harness extracts (up to 3 files x 3 run steps on 2 CPUs at quick, 4 x 4 on 2-3 CPUs at thorough; shellcheck only); the per-goroutine event sequences are taken from one sequential run (thread modularity is assumed, not proved); sync primitives follow their documented contracts; the Go memory model / data races are not modelled",
			"tool latency is modelled by the gap between the process-start and process-end events; native confirmation of a schedule violation uses a stand-in tool that stays alive for 0.3 s (3 files x NumCPU steps)",
			"real tool processes in the symbolic runs (os/exec is replaced by a stub with symbolic outcomes; native replay uses /bin/sh as a stand-in tool); pipe and write failures cannot be replayed natively",
			"scripts longer than the bound; shellcheck issue fields other than line/column; pyflakes message text beyond 2 bytes per record",
		}}
		for _, L := range []int64{0, 3, 5, 6, 7, 8, 10, 12} {
			p.Quick = append(p.Quick, HRun{Entry: "HarnessC20Sanitize", Args: []int64{L}, Bound: "all 256^L scripts of length L"})
		}
		p.Quick = append(p.Quick,
			HRun{Entry: "HarnessC20Run", Bound: "pipe failure x write failure x result class {ok, ExitError, other} x 64-bit symbolic exit code x stdout length 0..2 x combined-output", Require: []string{"error", "ok"}},
			HRun{Entry: "HarnessC20Shellcheck", Bound: "tool error x non-JSON output x 0..3 issues with 64-bit symbolic line/column", Require: []string{"callback", "fatal"}},
			HRun{Entry: "HarnessC20Pyflakes", Args: []int64{2}, Bound: "2 records with symbolic text, line terminator in {LF, CRLF, none}, optional junk lines", Require: []string{"callback", "unterminated"}},
			HRun{Entry: "HarnessC20Shell", Bound: "shell at step / job default / workflow default in 7 spellings each x Linux / Windows runner (686 combinations)", Require: []string{"linted"}},
			HRun{Entry: "HarnessC20TwoJobs", Bound: "two jobs x runner {Linux, Windows} x job default shell {none, bash, pwsh} x both visiting orders: per-job effective shell", Require: []string{"linted"}},
			HRun{Entry: "HarnessC20Schedule", Args: []int64{2, 1, 1, 0, 0}, Bound: "LintFiles on 2 files x 1 run step, 1 CPU: every interleaving of the 5 goroutines (29 sync events, 13 atomic blocks after Lipton reduction), partial-order encoding: process bound, all collected before return, no deadlock", Require: []string{"linted", "complete-schedule-exists"}},
			HRun{Entry: "HarnessC20Schedule", Args: []int64{2, 1, 1, 1, 0}, Bound: "the same instance in the step-indexed encoding (cross-encoding diff)", Require: []string{"linted", "complete-schedule-exists"}},
			HRun{Entry: "HarnessC20Schedule", Args: []int64{2, 2, 1, 0, 1}, Bound: "2 files x 2 steps, 1 CPU, every shellcheck run answers with garbage: LintFiles returns the fatal error only after every tool goroutine finished", Require: []string{"linted", "complete-schedule-exists"}},
			HRun{Entry: "HarnessC20Schedule", Args: []int64{3, 2, 2, 0, 1}, Bound: "3 files x 2 steps, 2 CPUs, failing shellcheck", Require: []string{"linted", "complete-schedule-exists"}},
			HRun{Entry: "HarnessC20Schedule", Args: []int64{2, 2, 1, 0, 0}, Bound: "2 files x 2 steps, 1 CPU: 7 goroutines, 45 events", Require: []string{"linted", "complete-schedule-exists"}},
			HRun{Entry: "HarnessC20Schedule", Args: []int64{3, 2, 1, 0, 0}, Bound: "3 files x 2 steps, 1 CPU: 10 goroutines, 66 events", Require: []string{"linted", "complete-schedule-exists"}},
			HRun{Entry: "HarnessC20Schedule", Args: []int64{3, 3, 2, 0, 0}, Bound: "3 files x 3 steps, 2 CPUs: 13 goroutines, 90 events", Require: []string{"linted", "complete-schedule-exists"}},
		)
		p.Thorough = append(append([]HRun{}, p.Quick...),
			HRun{Entry: "HarnessC20Sanitize", Args: []int64{16}, Bound: "all scripts of length 16"},
			HRun{Entry: "HarnessC20Sanitize", Args: []int64{20}, Bound: "all scripts of length 20"},
			HRun{Entry: "HarnessC20Pyflakes", Args: []int64{3}, Bound: "3 records", Require: []string{"callback", "unterminated"}},
			HRun{Entry: "HarnessC20Schedule", Args: []int64{4, 4, 2, 0, 0}, Bound: "4 files x 4 steps, 2 CPUs: 21 goroutines, 151 events (59 blocks)", Require: []string{"linted", "complete-schedule-exists"}},
			HRun{Entry: "HarnessC20Schedule", Args: []int64{4, 4, 3, 0, 0}, Bound: "4 files x 4 steps, 3 CPUs", Require: []string{"linted", "complete-schedule-exists"}},
			HRun{Entry: "HarnessC20Schedule", Args: []int64{2, 2, 1, 1, 0}, Bound: "2 files x 2 steps, 1 CPU in the step-indexed encoding", Require: []string{"linted", "complete-schedule-exists"}},
		)
		for _, f := range []int64{0, 1} {
			one := HRun{Entry: "HarnessC20Schedule", Args: []int64{1, 2, 2, 0, f}, Bound: "LintFiles on one path (the Linter.LintFile route) with 2 run steps, 2 CPUs; fail=1: shellcheck prints non-JSON while pyflakes is still running: in every schedule no tool goroutine is unfinished at the return", Require: []string{"linted", "complete-schedule-exists"}}
			p.Quick = append(p.Quick, one)
			p.Thorough = append(p.Thorough, one, HRun{Entry: "HarnessC20Schedule", Args: []int64{1, 4, 2, 0, f}, Bound: "Linter.LintFile route, 4 run steps, 2 CPUs", Require: []string{"linted", "complete-schedule-exists"}})
			p.Quick = append(p.Quick, HRun{Entry: "HarnessC20Schedule", Args: []int64{0, 2, 2, 0, f}, Bound: "the Linter.Lint route (one file given as bytes) with 2 run steps, 2 CPUs; fail=1: shellcheck prints non-JSON while pyflakes is still running: every schedule", Require: []string{"linted", "complete-schedule-exists"}})
			p.Thorough = append(p.Thorough, HRun{Entry: "HarnessC20Schedule", Args: []int64{0, 4, 2, 0, f}, Bound: "Linter.Lint route, 4 run steps, 2 CPUs", Require: []string{"linted", "complete-schedule-exists"}})
		}
		{
			r := HRun{Entry: "HarnessC20RunKey", Bound: "step keys in 3 orders (run first, shell first, name-shell-run) x bash / python: the tool's issue becomes a diagnostic at the run: key", Require: []string{"callback"}}
			p.Quick = append(p.Quick, r)
			p.Thorough = append(p.Thorough, r)
		}
		for L := int64(1); L <= 3; L++ {
			p.Quick = append(p.Quick, HRun{Entry: "HarnessC20SanitizeIn", Args: []int64{L}, Bound: "a placeholder whose inside is L arbitrary bytes (line breaks included) between text and a second placeholder", Require: []string{"checked"}})
		}
		p.Thorough = append(p.Thorough, HRun{Entry: "HarnessC20SanitizeIn", Args: []int64{5}, Bound: "placeholder inside of 5 arbitrary bytes", Require: []string{"checked"}})
		props["C20"] = p
	}
}
