package main

// Registry: which harness runs decide which property at which tier.

func b2i(b bool) int64 {
	if b {
		return 1
	}
	return 0
}

var props = map[string]*Prop{}

func init() {
	// ---- C17 ----
	{
		p := &Prop{ID: "C17", Outside: []string{
			"patterns longer than the stated length bound",
			"bytes >= 0x80 and NUL: the language oracle is silent (robustness obligations still hold there: no panic, column range, termination)",
			"CR/LF inside [...]: unspecified by the documentation",
		}}
		for L := 0; L <= 3; L++ {
			for _, ref := range []bool{true, false} {
				p.Quick = append(p.Quick, HRun{Entry: "HarnessC17Glob", Args: []int64{int64(L), b2i(ref)}, Bound: "all 256^L patterns of length L", Require: []string{"reject"}})
			}
			p.Quick = append(p.Quick, HRun{Entry: "HarnessC17RefImpliesPath", Args: []int64{int64(L)}, Bound: "all patterns of length L"})
		}
		for L := 0; L <= 4; L++ {
			for _, ref := range []bool{true, false} {
				p.Thorough = append(p.Thorough, HRun{Entry: "HarnessC17Glob", Args: []int64{int64(L), b2i(ref)}, Bound: "all 256^L patterns of length L", Require: []string{"reject"}})
			}
			p.Thorough = append(p.Thorough, HRun{Entry: "HarnessC17RefImpliesPath", Args: []int64{int64(L)}, Bound: "all patterns of length L"})
		}
		props["C17"] = p
	}
}
