package main

import (
	"crypto/sha1"
	"encoding/json"
	"flag"
	"fmt"
	"os"
	"os/exec"
	"path/filepath"
	"regexp"
	"sort"
	"strconv"
	"strings"
	"time"

	"golang.org/x/tools/go/ssa"

	"gosx/interp"
)

// HRun is one symbolic exploration of a harness entry point.
type HRun struct {
	Entry      string
	Args       []int64
	AllowPanic bool     // target panics are expected behaviour, not violations
	Require    []string // reach labels that must be hit (vacuity guard)
	MaxPaths   int
	NoReplay   bool // harness uses overrides: counterexamples are confirmed through ReplayVia
	Bound      string
}

type Prop struct {
	ID       string
	Quick    []HRun
	Thorough []HRun
	Outside  []string // what lies outside the claim
	Note     string
}

type Finding struct {
	Property string `json:"property"`
	Label    string `json:"label"`
	Harness  string `json:"harness,omitempty"` // known findings: the harness (input family) the entry is about
	Status   string `json:"status"` // known | fixed
	Commit   string `json:"commit,omitempty"`
	Text     string `json:"text"`
}

func loadFindings() []Finding {
	b, err := os.ReadFile(filepath.Join(verifDir, "known_findings.json"))
	if err != nil {
		return nil
	}
	var fs []Finding
	if err := json.Unmarshal(b, &fs); err != nil {
		fmt.Fprintln(os.Stderr, "known_findings.json:", err)
		os.Exit(2)
	}
	return fs
}

type replayCase struct {
	ID      string            `json:"id"`
	Harness string            `json:"harness"`
	Args    []int64           `json:"args"`
	Model   map[string]uint64 `json:"model"`
	Choices map[string]int    `json:"choices"`
	Label   string            `json:"label"`
	Kind    string            `json:"kind"`
	Inputs  map[string]string `json:"inputs,omitempty"`
	Msg     string            `json:"msg,omitempty"`
	Stack   []string          `json:"stack,omitempty"`
	Property string           `json:"property,omitempty"`
}

type replayOutcome struct {
	Outcome string
	Failed  []string
	Reached map[string]int
	Panic   string
}

// genReplayTest writes the dispatcher test for all Harness* functions.
func genReplayTest(pkg *ssa.Package) string {
	var sb strings.Builder
	sb.WriteString("//go:build verif && verif_replay\n\npackage actionlint\n\nimport \"testing\"\n\n")
	sb.WriteString("func verifDispatch(name string, a []int64) bool {\n\tswitch name {\n")
	var names []string
	for n, m := range pkg.Members {
		if f, ok := m.(*ssa.Function); ok && strings.HasPrefix(n, "Harness") {
			_ = f
			names = append(names, n)
		}
	}
	sort.Strings(names)
	for _, n := range names {
		f := pkg.Func(n)
		var args []string
		for k, p := range f.Params {
			at := fmt.Sprintf("verifArg(a, %d)", k)
			switch p.Type().String() {
			case "bool":
				args = append(args, at+" != 0")
			case "int":
				args = append(args, "int("+at+")")
			default:
				args = append(args, p.Type().String()+"("+at+")")
			}
		}
		fmt.Fprintf(&sb, "\tcase %q:\n\t\t%s(%s)\n\t\treturn true\n", n, n, strings.Join(args, ", "))
	}
	sb.WriteString("\t}\n\treturn false\n}\n\n")
	sb.WriteString("func verifArg(a []int64, k int) int64 {\n\tif k < len(a) {\n\t\treturn a[k]\n\t}\n\treturn 0\n}\n\n")
	sb.WriteString("func TestVerifReplay(t *testing.T) { verifReplayAll(verifDispatch) }\n")
	return sb.String()
}

var resultRe = regexp.MustCompile(`^VERIF-RESULT id=(\S+) outcome=(\S+) failed=(.*?) reached=(.*)$`)
var panicRe = regexp.MustCompile(`^VERIF-PANIC id=(\S+) (.*)$`)

// nativeReplay runs the cases against the natively compiled /repo tree.
// raceReplay: events labelled data-race are confirmed under the race detector.
var raceReplay bool

func nativeReplay(pkg *ssa.Package, cases []replayCase, timeout time.Duration) (map[string]*replayOutcome, string, error) {
	tmp, err := os.MkdirTemp("", "vcheck-replay-")
	if err != nil {
		return nil, "", err
	}
	defer os.RemoveAll(tmp)
	repl := map[string]string{}
	files, _ := filepath.Glob(filepath.Join(verifDir, "harness", "*.go"))
	for _, f := range files {
		repl[filepath.Join(repoDir, "zz_verif_"+filepath.Base(f))] = f
	}
	corpusFile := filepath.Join(tmp, "zz_verif_corpus.go")
	os.WriteFile(corpusFile, corpusSource(), 0o644)
	repl[filepath.Join(repoDir, "zz_verif_corpus.go")] = corpusFile
	testFile := filepath.Join(tmp, "zz_verif_replay_test.go")
	os.WriteFile(testFile, []byte(genReplayTest(pkg)), 0o644)
	repl[filepath.Join(repoDir, "zz_verif_replay_test.go")] = testFile
	ov, _ := json.Marshal(map[string]interface{}{"Replace": repl})
	ovFile := filepath.Join(tmp, "overlay.json")
	os.WriteFile(ovFile, ov, 0o644)
	cf := filepath.Join(tmp, "cases.json")
	cb, _ := json.Marshal(cases)
	os.WriteFile(cf, cb, 0o644)
	goArgs := []string{"test", "-v", "-vet=off", "-count=1", "-tags", "verif verif_replay", "-overlay", ovFile,
		"-run", "^TestVerifReplay$", "-timeout", fmt.Sprintf("%ds", int(timeout.Seconds()))}
	if raceReplay {
		goArgs = append(goArgs, "-race")
	}
	cmd := exec.Command("go", append(goArgs, ".")...)
	cmd.Dir = repoDir
	cmd.Env = append(os.Environ(), "GOFLAGS=-mod=mod", "GOPROXY=off", "GOSUMDB=off", "GOTOOLCHAIN=local", "VERIF_REPLAY="+cf)
	out, _ := cmd.CombinedOutput()
	res := map[string]*replayOutcome{}
	for _, ln := range strings.Split(string(out), "\n") {
		if m := resultRe.FindStringSubmatch(ln); m != nil {
			o := res[m[1]]
			if o == nil {
				o = &replayOutcome{}
				res[m[1]] = o
			}
			o.Outcome = m[2]
			json.Unmarshal([]byte(m[3]), &o.Failed)
			json.Unmarshal([]byte(m[4]), &o.Reached)
		} else if m := panicRe.FindStringSubmatch(ln); m != nil {
			o := res[m[1]]
			if o == nil {
				o = &replayOutcome{}
				res[m[1]] = o
			}
			o.Panic, _ = strconv.Unquote(m[2])
		}
	}
	if len(res) < len(cases) && !strings.Contains(string(out), "VERIF-RESULT") && !strings.Contains(string(out), "panic") && !strings.Contains(string(out), "timed out") {
		return res, string(out), fmt.Errorf("native replay produced no results")
	}
	return res, string(out), nil
}

// reproduced decides whether the native outcome confirms the symbolic event.
func reproduced(c replayCase, o *replayOutcome, rawOut string) bool {
	if o == nil {
		// the test binary died (hard crash / timeout) while running this case
		if c.Kind == "budget" {
			return strings.Contains(rawOut, "test timed out")
		}
		return c.Kind == "panic" && (strings.Contains(rawOut, "fatal error") || strings.Contains(rawOut, "panic:"))
	}
	if c.Label == "data-race" {
		return strings.Contains(rawOut, "WARNING: DATA RACE")
	}
	switch c.Kind {
	case "panic":
		return o.Outcome == "panic"
	case "check":
		for _, f := range o.Failed {
			if f == c.Label {
				return true
			}
		}
	case "global-write", "frozen-write":
		for _, f := range o.Failed {
			if strings.HasPrefix(f, c.Kind+":") {
				return true
			}
		}
	}
	return false
}

type harnessEvidence struct {
	Harness      string         `json:"harness"`
	Args         []int64        `json:"args"`
	Bound        string         `json:"bound,omitempty"`
	Paths        int            `json:"paths"`
	PathsByEnd   map[string]int `json:"paths_by_end"`
	Decisions    int            `json:"decisions"`
	Checks       int            `json:"check_obligations"`
	CheckQueries int            `json:"check_queries"`
	Queries      map[string]int `json:"queries"`
	SolverS      float64        `json:"solver_s"`
	WallS        float64        `json:"wall_s"`
	Reach        map[string]int `json:"reach"`
	Fast         int            `json:"branch_decisions_by_byte_domain_propagation"`
	Summaries    int            `json:"pure_callee_summaries"`
	Inconclusive []string       `json:"inconclusive,omitempty"`
}

func cmdRun(args []string) {
	fs := flag.NewFlagSet("run", flag.ExitOnError)
	tier := fs.String("tier", "", "quick|thorough")
	workers := fs.Int("j", 0, "workers")
	solver := fs.String("solver", "z3", "solver")
	keep := fs.Bool("keep", false, "print the native replay output")
	fs.Parse(args)
	if fs.NArg() < 1 {
		fmt.Fprintln(os.Stderr, "run: property id required")
		os.Exit(2)
	}
	id := fs.Arg(0)
	if *tier == "" {
		*tier = os.Getenv("VERIF_TIER")
	}
	if *tier == "" {
		*tier = "quick"
	}
	seed, _ := strconv.Atoi(os.Getenv("VERIF_SEED"))
	prop, ok := props[id]
	if !ok {
		fmt.Fprintln(os.Stderr, "unknown property", id)
		os.Exit(2)
	}
	runs := prop.Quick
	if *tier == "thorough" && len(prop.Thorough) > 0 {
		runs = prop.Thorough
	}
	for _, r := range runs {
		if strings.Contains(r.Entry, "Testdata") {
			withCorpus = true // the repository's own testdata workflows are compiled in
		}
	}
	t0 := time.Now()
	prog, pkg, err := loadProgram(false)
	if err != nil {
		fmt.Fprintln(os.Stderr, "ENGINE: cannot load /repo with harness overlay:", err)
		os.Exit(2)
	}
	loadS := time.Since(t0).Seconds()

	findings := loadFindings()
	isKnown := func(label, harness string) *Finding {
		for k := range findings {
			f := &findings[k]
			if f.Property == id && f.Label == label && f.Status == "known" && (f.Harness == "" || f.Harness == harness) {
				return f
			}
		}
		return nil
	}

	var hev []harnessEvidence
	var events []interp.Event
	var samples []interp.Sample
	sampleHarness := []int{}
	funcs := map[string]bool{}
	assumes := map[string]bool{}
	stubs := map[string]int{}
	var inconclusive []string
	totalPaths, totalDec := 0, 0
	q := map[string]int{}
	solverS := 0.0
	for _, r := range runs {
		if pkg.Func(r.Entry) == nil {
			fmt.Fprintln(os.Stderr, "ENGINE: no harness function", r.Entry)
			os.Exit(2)
		}
	}
	for k, r := range runs {
		cfg := &interp.Config{Prog: prog, Pkg: pkg, Entry: r.Entry, Args: r.Args, Workers: *workers, Solver: *solver,
			NoPanic: !r.AllowPanic, MaxPaths: r.MaxPaths, MaxSamples: 6, SampleEvery: 13 + seed%7, NoFastPath: os.Getenv("VERIF_NOFAST") != ""}
		// per-harness wall-clock limit (quick 12 min, thorough 100 min; VERIF_HARNESS_TIMEOUT seconds): a harness
		// that does not finish is inconclusive, the other harnesses of the property still run and report
		limit := 12 * time.Minute
		if *tier == "thorough" {
			limit = 100 * time.Minute
		}
		if v, err := strconv.Atoi(os.Getenv("VERIF_HARNESS_TIMEOUT")); err == nil && v > 0 {
			limit = time.Duration(v) * time.Second
		}
		cfg.Deadline = time.Now().Add(limit)
		// stress validation of the translator: VERIF_MAX_SAMPLES / VERIF_SAMPLE_EVERY widen the set of
		// explored paths that are re-run natively and compared (default 6 per harness, every 13th..19th path)
		if v, err := strconv.Atoi(os.Getenv("VERIF_MAX_SAMPLES")); err == nil && v > 0 {
			cfg.MaxSamples = v
		}
		if v, err := strconv.Atoi(os.Getenv("VERIF_SAMPLE_EVERY")); err == nil && v > 0 {
			cfg.SampleEvery = v
		}
		res := interp.Explore(cfg)
		he := harnessEvidence{Harness: r.Entry, Args: r.Args, Bound: r.Bound, Paths: res.Stats.Paths, PathsByEnd: res.PathsByEnd,
			Decisions: res.Stats.Decisions, Checks: res.Stats.Checks, CheckQueries: res.Stats.CheckQueries,
			Queries: map[string]int{"sat": res.Solver.Sat, "unsat": res.Solver.Unsat, "unknown": res.Solver.Unknown, "errors": res.Solver.Errors},
			SolverS: res.Solver.Seconds, WallS: res.Wall, Reach: res.Reach, Inconclusive: res.Inconclusive, Fast: res.Stats.FastDecisions, Summaries: res.Stats.Summaries}
		for _, need := range r.Require {
			if res.Reach[need] == 0 {
				he.Inconclusive = append(he.Inconclusive, "vacuous: required label "+need+" never reached")
			}
		}
		for _, s := range he.Inconclusive {
			inconclusive = append(inconclusive, fmt.Sprintf("%s%v: %s", r.Entry, r.Args, s))
		}
		hev = append(hev, he)
		events = append(events, res.Events...)
		for _, s := range res.Samples {
			samples = append(samples, s)
			sampleHarness = append(sampleHarness, k)
		}
		for _, f := range res.Funcs {
			funcs[f] = true
		}
		for _, a := range res.Assumes {
			assumes[a] = true
		}
		for s, n := range res.Stubs {
			stubs[s] += n
		}
		totalPaths += res.Stats.Paths
		totalDec += res.Stats.Decisions
		q["sat"] += res.Solver.Sat
		q["unsat"] += res.Solver.Unsat
		q["unknown"] += res.Solver.Unknown
		q["errors"] += res.Solver.Errors
		solverS += res.Solver.Seconds
		fmt.Printf("[%s %s] %s%v: paths=%d %v decisions=%d obligations=%d queries=%d/%d/%d wall=%.1fs events=%d\n", id, *tier, r.Entry, r.Args,
			res.Stats.Paths, res.PathsByEnd, res.Stats.Decisions, res.Stats.Checks, res.Solver.Sat, res.Solver.Unsat, res.Solver.Unknown, res.Wall, len(res.Events))
	}

	// ---- native replay: counterexamples and cross-validation samples ----
	var cases []replayCase
	evIdx := map[string]int{}
	seenLabel := map[string]bool{}
	var known []string
	for k, ev := range events {
		if ev.Kind == "unknown" {
			inconclusive = append(inconclusive, "solver unknown on obligation "+ev.Label)
			continue
		}
		if f := isKnown(ev.Label, ev.Harness); f != nil {
			if !seenLabel[ev.Label] {
				seenLabel[ev.Label] = true
				known = append(known, fmt.Sprintf("KNOWN-FINDING: property=%s %s — %s", id, ev.Label, f.Text))
			}
			continue
		}
		key := ev.Kind + "|" + ev.Label
		if seenLabel[key] {
			continue
		}
		seenLabel[key] = true
		cid := fmt.Sprintf("ev%d", k)
		evIdx[cid] = k
		cases = append(cases, replayCase{ID: cid, Harness: ev.Harness, Args: ev.Args, Model: ev.Model, Choices: ev.Choices, Label: ev.Label,
			Kind: ev.Kind, Inputs: ev.Inputs, Msg: ev.Msg, Stack: ev.Stack, Property: id})
	}
	nViol := len(cases)
	for k, s := range samples {
		r := runs[sampleHarness[k]]
		cases = append(cases, replayCase{ID: fmt.Sprintf("s%d", k), Harness: r.Entry, Args: r.Args, Model: s.Model, Choices: s.Choices, Kind: "sample"})
	}
	validated := 0
	var violations []string
	var sampleOut []interface{}
	if len(cases) > 0 {
		outc, raw, err := nativeReplay(pkg, cases, 10*time.Minute)
		if *keep {
			fmt.Println(raw)
		}
		// data races are confirmed by a second native run under the race detector
		raceRaw := map[string]string{}
		for k, c := range cases {
			if k < nViol && c.Label == "data-race" {
				raceReplay = true
				_, rr, _ := nativeReplay(pkg, []replayCase{c}, 10*time.Minute)
				raceReplay = false
				raceRaw[c.ID] = rr
			}
		}
		if err != nil {
			inconclusive = append(inconclusive, "native replay failed: "+err.Error()+": "+lastLines(raw, 15))
		}
		for k, c := range cases {
			o := outc[c.ID]
			if k < nViol {
				rawFor := raw
				if rr, ok := raceRaw[c.ID]; ok {
					rawFor = rr
				}
				if reproduced(c, o, rawFor) {
					os.MkdirAll(filepath.Join(verifDir, "replays"), 0o755)
					cb, _ := json.MarshalIndent(c, "", " ")
					h := sha1.Sum(cb)
					path := filepath.Join(verifDir, "replays", fmt.Sprintf("%s-%s-%x.json", id, sanitizeFile(c.Label), h[:4]))
					os.WriteFile(path, cb, 0o644)
					violations = append(violations, fmt.Sprintf("VIOLATION property=%s replay=%s", id, path))
					fmt.Printf("  counterexample %s %s: %s inputs=%v msg=%q\n", c.Kind, c.Label, c.Harness, c.Inputs, c.Msg)
				} else {
					got := "no result"
					if o != nil {
						got = fmt.Sprintf("outcome=%s failed=%v panic=%q", o.Outcome, o.Failed, o.Panic)
					}
					inconclusive = append(inconclusive, fmt.Sprintf("SPURIOUS: %s %s in %s%v did not reproduce natively (inputs %v, msg %q, stack %v; native %s): encoding or stub mismatch", c.Kind, c.Label, c.Harness, c.Args, c.Inputs, c.Msg, c.Stack, got))
				}
				continue
			}
			s := samples[k-nViol]
			if o != nil && o.Outcome == "cut" {
				continue // the native route of this harness cannot realise this input (recorded assumption)
			}
			agree := o != nil && ((s.End == "ok" && o.Outcome == "ok") || (s.End == "panic" && o.Outcome == "panic")) && len(o.Failed) == 0 && sameReach(s.Reach, o.Reached)
			if agree {
				validated++
			} else {
				got := "no result"
				if o != nil {
					got = fmt.Sprintf("outcome=%s failed=%v reached=%v", o.Outcome, o.Failed, o.Reached)
				}
				inconclusive = append(inconclusive, fmt.Sprintf("cross-validation mismatch on %s%v inputs %v: symbolic end=%s reach=%v, native %s", c.Harness, c.Args, s.Inputs, s.End, s.Reach, got))
			}
			if len(sampleOut) < 8 {
				sampleOut = append(sampleOut, map[string]interface{}{"harness": c.Harness, "args": c.Args, "inputs": s.Inputs, "path_decisions": s.NDecisions, "reach": s.Reach, "end": s.End})
			}
		}
	}

	// ---- evidence ----
	var fl []string
	for f := range funcs {
		fl = append(fl, f)
	}
	sort.Strings(fl)
	var al []string
	for a := range assumes {
		al = append(al, a)
	}
	for s := range stubs {
		al = append(al, "stub: "+s)
	}
	al = append(al, "solver "+*solver+" verdicts are trusted; every obligation (verifCheck, assumption feasibility) is a solver query over the path condition; branch feasibility is a solver query except for conditions over a single byte variable whose value set is tracked exactly (byte-domain propagation, counted per harness run; VERIF_NOFAST=1 disables it)",
		"harness files /verif/harness/*.go injected as /repo/zz_verif_*.go by overlay; SSA regenerated from /repo's working tree on this run")
	sort.Strings(al)
	if len(sampleOut) == 0 {
		sampleOut = append(sampleOut, map[string]interface{}{"note": "no path with symbolic inputs was sampled"})
	}
	var bounds []string
	for _, r := range runs {
		if r.Bound != "" {
			bounds = append(bounds, fmt.Sprintf("%s%v: %s", r.Entry, r.Args, r.Bound))
		}
	}
	states := totalPaths
	if states == 0 {
		states = 1
	}
	trans := totalDec
	if trans == 0 {
		trans = 1
	}
	ev := map[string]interface{}{
		"property_id": id,
		"tier":        *tier,
		"seed":        seed,
		"level":       "model_checking",
		"coverage": map[string]interface{}{
			"states":                        states,
			"transitions":                   trans,
			"traces_validated_against_impl": validated,
			"samples":                       sampleOut,
			"exhaustive":                    len(inconclusive) == 0,
			"explanation":                   "states = feasible paths explored symbolically (each a class of inputs decided by the solver); transitions = symbolic decisions taken; traces_validated = sampled path models re-run against the natively compiled tree with identical outcome and reach labels",
			"functions_encoded":             fl,
			"bounds":                        bounds,
			"outside_claim":                 prop.Outside,
			"queries":                       q,
			"solver_s":                      solverS,
			"harness_runs":                  hev,
			"stubs":                         stubs,
			"inconclusive":                  inconclusive,
			"known_findings":                known,
			"load_s":                        loadS,
		},
		"assumptions": al,
		"wall_s":      time.Since(t0).Seconds(),
		"violations":  len(violations),
	}
	os.MkdirAll(filepath.Join(verifDir, "evidence"), 0o755)
	eb, _ := json.MarshalIndent(ev, "", " ")
	os.WriteFile(filepath.Join(verifDir, "evidence", id+".json"), eb, 0o644)

	for _, k := range known {
		fmt.Println(k)
	}
	for _, s := range inconclusive {
		fmt.Println("INCONCLUSIVE:", s)
	}
	for _, v := range violations {
		fmt.Println(v)
	}
	fmt.Printf("[%s %s] paths=%d decisions=%d validated=%d violations=%d known=%d inconclusive=%d wall=%.1fs\n", id, *tier, totalPaths, totalDec, validated, len(violations), len(known), len(inconclusive), time.Since(t0).Seconds())
	switch {
	case len(violations) > 0:
		os.Exit(1)
	case len(inconclusive) > 0:
		os.Exit(2)
	}
}

func sameReach(a, b map[string]int) bool {
	for k, v := range a {
		if strings.HasPrefix(k, "note:") {
			continue
		}
		if b[k] != v {
			return false
		}
	}
	for k, v := range b {
		if a[k] != v {
			return false
		}
	}
	return true
}

func sanitizeFile(s string) string {
	var sb strings.Builder
	for _, r := range s {
		if r >= 'a' && r <= 'z' || r >= 'A' && r <= 'Z' || r >= '0' && r <= '9' || r == '-' || r == '_' {
			sb.WriteRune(r)
		} else {
			sb.WriteByte('_')
		}
	}
	return sb.String()
}

func lastLines(s string, n int) string {
	ls := strings.Split(strings.TrimSpace(s), "\n")
	if len(ls) > n {
		ls = ls[len(ls)-n:]
	}
	return strings.Join(ls, " | ")
}
