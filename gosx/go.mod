module gosx

go 1.23

require (
	golang.org/x/tools v0.29.0
	gopkg.in/yaml.v3 v3.0.1
)

require (
	golang.org/x/mod v0.22.0 // indirect
	golang.org/x/sync v0.10.0 // indirect
)

require github.com/robfig/cron/v3 v3.0.1

require github.com/mattn/go-runewidth v0.0.16

require (
	github.com/bmatcuk/doublestar/v4 v4.8.0
	github.com/rivo/uniseg v0.4.7
)
