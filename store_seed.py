#!/usr/bin/env python3
import sys, os, json, shutil, re
prop, ab, confirmed = sys.argv[1], sys.argv[2], sys.argv[3]
wt = f'/tmp/wt/{prop}'
name = f'{prop}-agent-{ab}'
d = f'/verif/seeded/{name}'
os.makedirs(d, exist_ok=True)
shutil.copy(f'{wt}/seed_{ab.upper()}.diff', f'{d}/patch.diff')
shutil.copy(f'{wt}/zz_demo_{ab}_test.go', f'{d}/demo_test.go')
seeds = open(f'{wt}/SEEDS.md').read()
json.dump({"property": prop, "origin": "written by an independent sub-agent given only the property text and a scratch worktree",
           "needs": "see SEEDS.md (the agent's own description)", "confirmed": confirmed,
           "ran": f"./adopt_seed.sh {prop} {ab} (scratch worktree: build, root suite with the change, demo with/without) ; ./run_seeded.sh {name}"}, open(f'{d}/meta.json', 'w'), indent=1)
open(f'{d}/SEEDS.md', 'w').write(seeds)
print(name)
