#!/bin/sh
# runs every property's quick check in turn; prints one summary line each
for p in C01 C02 C03 C04 C05 C06 C07 C08 C09 C10 C11 C12 C13 C14 C15 C16 C17 C18 C19 C20; do
  "$(dirname "$0")"/run_check.sh $p ${1:-quick} 2>&1 | grep -a "VIOLATION\|KNOWN\|INCONC\|ENGINE\|\] paths=" | cut -c1-300
  echo "rc=$?"
done
