#!/bin/sh
# usage: adopt_benign.sh <prop> <P|Q>   (worktree /tmp/wt/<prop>)
# Confirms an agent-written property-preserving change (builds; root suite result recorded) and
# stores it under /verif/benign/<prop>-<P|Q>/.
export GOFLAGS=-mod=mod GOPROXY=off GOSUMDB=off GOTOOLCHAIN=local
prop=$1; k=$2
wt=/tmp/wt/$prop
cd $wt || exit 2
git checkout -q -- .
patch=$wt/benign_$k.diff
[ -f "$patch" ] || { echo "missing $patch"; exit 2; }
mkdir -p /tmp/wt/demos_$prop && mv $wt/zz_*_test.go /tmp/wt/demos_$prop/ 2>/dev/null
git apply $patch || { echo "patch does not apply"; mv /tmp/wt/demos_$prop/* $wt/ 2>/dev/null; exit 2; }
build=$(go build ./... 2>&1 | tail -1)
suite=$(go test -vet=off -count=1 . 2>&1 | tail -1)
git checkout -q -- .
mv /tmp/wt/demos_$prop/* $wt/ 2>/dev/null
d=/verif/benign/$prop-$k
mkdir -p $d && cp $patch $d/patch.diff && cp $wt/SEEDS.md $d/SEEDS.md
python3 - "$prop" "$k" "$build" "$suite" <<'PY'
import sys, json
prop, k, build, suite = sys.argv[1:5]
json.dump({"property": prop, "kind": "pure refactoring" if k == "P" else "observable change that keeps the property",
           "origin": "written by an independent sub-agent given only the property text and a scratch worktree",
           "confirmed": f"build=[{build}] root-suite-with-change=[{suite}]",
           "expect": "the property's check stays silent (exit 0, no VIOLATION line)"}, open(f"/verif/benign/{prop}-{k}/meta.json", "w"), indent=1)
PY
echo "$prop/$k: build=[$build] suite-with-change=[$suite]"
