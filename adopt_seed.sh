#!/bin/sh
# usage: adopt_seed.sh <prop> <a|b>   (worktree /tmp/wt/<prop>)
# Confirms an agent-written seeded change in its scratch worktree and stores it under /verif/seeded.
export GOFLAGS=-mod=mod GOPROXY=off GOSUMDB=off GOTOOLCHAIN=local
prop=$1; ab=$2; AB=$(echo $ab | tr a-z A-Z)
wt=/tmp/wt/$prop
cd $wt || exit 2
git checkout -q -- . 
patch=$wt/seed_$AB.diff; demo=$(ls $wt/zz_demo_${ab}_test.go 2>/dev/null)
[ -f "$patch" ] && [ -f "$demo" ] || { echo "missing files for $prop $ab"; exit 2; }
mkdir -p /tmp/wt/demos_$prop && mv $wt/zz_demo_*_test.go /tmp/wt/demos_$prop/
# 1. unchanged tree: demo passes
cp /tmp/wt/demos_$prop/zz_demo_${ab}_test.go $wt/
base=$(go test -vet=off -count=1 -timeout 120s -run 'Demo' . 2>&1 | tail -1)
# 2. with the change: builds, suite passes (without demo), demo fails
git apply $patch || { echo "patch does not apply"; mv /tmp/wt/demos_$prop/* $wt/; exit 2; }
build=$(go build ./... 2>&1 | tail -1)
withdemo=$(go test -vet=off -count=1 -timeout 120s -run 'Demo' . 2>&1 | grep -c -- "^--- FAIL\|^FAIL\|panic:")
rm $wt/zz_demo_${ab}_test.go
suite=$(go test -vet=off -count=1 . 2>&1 | tail -1)
git checkout -q -- .
mv /tmp/wt/demos_$prop/* $wt/
echo "$prop/$ab: base-demo=[$base] build=[$build] suite-with-change=[$suite] demo-with-change-failures=$withdemo"
