#!/bin/sh
# usage: run_seeded.sh <seed-dir-name> [tier]
# Applies /verif/seeded/<name>/patch.diff to /repo's working tree, runs the check of the
# property named in meta.json, prints its verdict, and restores /repo.
name=$1; tier=${2:-quick}
d=/verif/seeded/$name
prop=$(python3 -c "import json;print(json.load(open('$d/meta.json'))['property'])")
repo=${VERIF_REPO:-/repo}
cd $repo || exit 2
if [ -n "$(git status --porcelain --untracked-files=no)" ]; then echo "/repo has uncommitted changes"; exit 2; fi
git apply "$d/patch.diff" || { echo "patch does not apply"; exit 2; }
/verif/run_check.sh "$prop" "$tier" > /tmp/seeded_$name.log 2>&1
rc=$?
git checkout -- . 
viol=$(grep -c "^VIOLATION" /tmp/seeded_$name.log)
echo "seed=$name property=$prop tier=$tier exit=$rc violations=$viol $(grep '^VIOLATION' /tmp/seeded_$name.log | head -2 | tr '\n' ' ')"
grep "counterexample" /tmp/seeded_$name.log | head -3
exit 0
