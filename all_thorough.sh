#!/bin/sh
# runs every property's thorough check in turn (long); one summary line each with wall time
for p in C02 C05 C08 C13 C14 C15 C12 C07 C10 C11 C16 C20 C03 C04 C01 C09 C17 C06 C18 C19; do
  s=$(date +%s)
  timeout 7200 "$(dirname "$0")"/run_check.sh $p thorough 2>&1 | grep -a "VIOLATION\|KNOWN\|INCONC\|ENGINE\|\] paths=" | cut -c1-300
  echo "rc=$? $p took $(( $(date +%s) - s ))s"
done
