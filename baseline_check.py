#!/usr/bin/env python3
"""Run /repo's pinned test suite (guard off) and compare with /root/.vp/BASELINE.json's stable_pass list."""
import json, os, subprocess, sys
base = json.load(open('/root/.vp/BASELINE.json'))
want = set(base['stable_pass'])
env = dict(os.environ, GOFLAGS='-mod=mod', GOPROXY='off', GOSUMDB='off', GOTOOLCHAIN='local')
p = subprocess.run(['go', 'test', '-json', '-vet=off', '-count=1', '-timeout', '25m', './...'], cwd='/repo', env=env, capture_output=True, text=True)
passed = set()
failed = set()
for ln in p.stdout.splitlines():
    try:
        ev = json.loads(ln)
    except Exception:
        continue
    if 'Test' not in ev:
        continue
    k = ev['Package'] + '::' + ev['Test']
    if ev.get('Action') == 'pass':
        passed.add(k)
    elif ev.get('Action') == 'fail':
        failed.add(k)
missing = sorted(want - passed)
print(f'baseline: {len(want)} stable tests, {len(want & passed)} passed, {len(missing)} not passed')
for m in missing[:40]:
    print('  NOT PASSED:', m, '(failed)' if m in failed else '(not run)')
sys.exit(1 if missing else 0)
